"""Shared plumbing of the checks: context object, evidence, verdicts, known findings, replay files."""
from __future__ import annotations

import copy
import hashlib
import json
import os
import random
import sys
import time
from pathlib import Path

from . import tlc

ROOT = Path(__file__).resolve().parent.parent
LEVEL = "model_checking"


def repo_path() -> str:
    return os.environ.get("VERIF_REPO", "/repo")


def use_repo() -> None:
    """Make `import optuna` resolve to $VERIF_REPO (default /repo, which is also the editable install)."""
    p = repo_path()
    if p not in sys.path[:1]:
        sys.path.insert(0, p)
    import optuna  # noqa

    got = os.path.dirname(os.path.dirname(os.path.abspath(optuna.__file__)))
    if os.path.realpath(got) != os.path.realpath(p):
        raise tlc.MachineryError(f"optuna imported from {got}, expected {p}")
    optuna.logging.set_verbosity(optuna.logging.ERROR)
    import warnings

    warnings.simplefilter("ignore")


def load_known() -> dict:
    f = ROOT / "KNOWN_FINDINGS.json"
    if not f.exists():
        return {"findings": [], "fixed": []}
    return json.loads(f.read_text())


def digest(obj) -> str:
    return hashlib.sha1(json.dumps(obj, sort_keys=True, default=str).encode()).hexdigest()[:16]


class Ctx:
    def __init__(self, pid: str, tier: str, seed: int):
        self.pid = pid
        self.tier = tier
        self.seed = seed
        self.rng = random.Random(seed)
        self.t0 = time.time()
        self.states = 0
        self.transitions = 0
        self.models = []
        self.traces_validated = 0
        self.evaluations = 0
        self.distinct = set()
        self.samples = []
        self.violations = []  # (text, replay_path)
        self.known_hits = {}  # finding id -> text
        self.assumptions = []
        self.notes = {}
        self.exhaustive = False
        self.rule = ""
        self.drift = []
        self.known = [f for f in load_known().get("findings", []) if pid in f.get("properties", [f.get("property")])]

    @property
    def quick(self) -> bool:
        return self.tier == "quick"

    # --- spec-level results -------------------------------------------------------------------
    def model(self, r: tlc.ModelResult, label: str | None = None):
        self.states += r.distinct
        self.transitions += r.generated
        self.models.append({
            "module": r.module, "label": label or r.module, "distinct_states": r.distinct,
            "states_generated": r.generated, "depth": r.depth, "wall_s": round(r.wall_s, 1),
            "actions": {a: t for a, (d, t) in sorted(r.coverage.items())},
        })
        print(f"[{self.pid}] TLC {label or r.module}: {r.distinct} distinct / {r.generated} generated states, "
              f"depth {r.depth}, {r.wall_s:.1f}s, ok={r.ok}", flush=True)

    # --- conformance --------------------------------------------------------------------------
    def count_case(self, key, nontrivial: bool = True):
        self.evaluations += 1
        if nontrivial:
            self.distinct.add(key if isinstance(key, str) else digest(key))

    def sample(self, obj, limit: int = 5):
        if len(self.samples) < limit:
            self.samples.append(obj)

    def validated(self, v: tlc.Validation, label: str):
        self.traces_validated += len(v.accepted)
        self.states += v.distinct
        self.transitions += v.generated
        self.notes.setdefault("validations", []).append({
            "label": label, "traces": v.total, "accepted": len(v.accepted), "rejected": len(v.rejected),
            "tlc_distinct_states": v.distinct, "wall_s": round(v.wall_s, 1)})
        print(f"[{self.pid}] trace validation {label}: {len(v.accepted)}/{v.total} accepted, "
              f"{v.distinct} states, {v.wall_s:.1f}s", flush=True)

    def match_known(self, signature: str):
        for f in self.known:
            if f["signature"] == signature:
                return f
        return None

    def known_finding(self, f: dict, detail: str = ""):
        if f["id"] not in self.known_hits:
            self.known_hits[f["id"]] = f["what"]
            print(f"KNOWN-FINDING: property={self.pid} {f['id']} {f['what']}" + (f" [{detail}]" if detail else ""),
                  flush=True)

    def violation(self, text: str, replay: dict):
        d = ROOT / "replays"
        d.mkdir(exist_ok=True)
        path = d / f"{self.pid}-{self.tier}-{self.seed}-{len(self.violations)}.json"
        replay = dict(replay)
        replay.update({"property": self.pid, "seed": self.seed, "tier": self.tier, "what": text})
        path.write_text(json.dumps(replay, indent=1, default=str))
        self.violations.append((text, str(path)))
        print(f"[{self.pid}] violation: {text}", flush=True)
        print(f"VIOLATION property={self.pid} replay={path}", flush=True)

    def binding_selftest(self, module: str, cfg: str, trace: dict, corrupt, label: str = "", extra_env=None):
        """Corrupt one recorded field of an accepted trace; TLC must reject it (else the spec binds nothing)."""
        good = copy.deepcopy(trace)
        bad = copy.deepcopy(trace)
        corrupt(bad)
        good["tid"], bad["tid"] = 1, 2
        v = tlc.validate(module, cfg, [good, bad], extra_env=extra_env)
        if 1 not in v.accepted or 2 in v.accepted:
            raise tlc.MachineryError(f"binding self-test failed for {module} {label}: accepted={sorted(v.accepted)} "
                                     f"(expected original accepted, corrupted rejected)")
        self.notes.setdefault("binding_selftests", []).append(
            {"module": module, "label": label, "corrupted_trace_rejected_at": v.rejected[2]["reached"]})

    # --- evidence -----------------------------------------------------------------------------
    def write_evidence(self):
        ev = {
            "property_id": self.pid,
            "tier": self.tier,
            "seed": self.seed,
            "level": LEVEL,
            "coverage": {
                "states": self.states,
                "transitions": self.transitions,
                "traces_validated_against_impl": self.traces_validated,
                "samples": self.samples or ["(no sample recorded)"],
                "evaluations": self.evaluations,
                "distinct_nontrivial": len(self.distinct),
                "rule": self.rule,
                "exhaustive": self.exhaustive,
                "models": self.models,
                "known_findings_hit": self.known_hits,
                "drift": self.drift,
            },
            "assumptions": self.assumptions,
            "wall_s": round(time.time() - self.t0, 2),
            "violations": len(self.violations),
        }
        ev["coverage"].update(self.notes)
        if os.environ.get("VERIF_NO_EVIDENCE"):   # mutant runs against scratch copies must not overwrite evidence
            return ev
        # extras (X..: parts of the specification outside the listed properties) keep their evidence apart
        folder = "evidence_extra" if self.pid.startswith("X") else "evidence"
        (ROOT / folder).mkdir(exist_ok=True)
        (ROOT / folder / f"{self.pid}.json").write_text(json.dumps(ev, indent=1, default=str) + "\n")
        return ev


def decoy(storage, k):
    """An unrelated study with k finished trials, created BEFORE the study under test: afterwards storage-wide trial ids
    and per-study trial numbers differ, as they do on every shared storage (id/number confusions stay visible)."""
    if k <= 0:
        return
    import optuna

    lvl = optuna.logging.get_verbosity()
    d = optuna.create_study(storage=storage, direction="maximize")
    for j in range(k):
        d.add_trial(optuna.trial.create_trial(value=float(100 + j), params={"zz": 0.5},
                                              distributions={"zz": optuna.distributions.FloatDistribution(0.0, 1.0)}))
    optuna.logging.set_verbosity(lvl)
