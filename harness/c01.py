"""C01 — every storage backend implements the one documented storage contract.

Spec: specs/Storage.tla (contract), StorageMC (bounded exhaustive instance + history generator),
StorageTrace (conformance: every reply, error class and full read-back state after every call).
"""
from __future__ import annotations

import concurrent.futures as cf
import copy
import json
import random

from . import common, storage_driver as sd, storage_gen as sg, suite_traces, tlc

MC_ACTIONS = ["CreateStudy", "DeleteStudy", "SetStudyAttr", "CreateTrial", "SetParam", "SetState", "SetIV",
              "SetTrialAttr"]
RDB_LIKE = {"rdb", "cached_rdb", "grpc_rdb"}

K6_OPS = [
    {"a": "create_study", "name": "A", "dirs": [0]},
    {"a": "create_trial", "s": 1, "tm": {"has": 1, "state": "PRUNED", "values": [9999], "params": {}, "ua": {}, "sa": {},
                                           "iv": {}, "ts": 1, "tc": 2}},
    {"a": "get_all_trials", "s": 1, "states": ["ALL"], "dc": 1, "as_list": 0},
    {"a": "get_trial", "t": 1},
]


def _mapfix(x):
    return {} if x == [] else x


def op_from_last(last: dict):
    """StorageMC's `last` record (parsed TLA+ value) -> abstract op of storage_driver."""
    op = {k: v for k, v in last.items() if k != "ret"}
    if op["a"] == "init":
        return None
    if op["a"] == "create_trial":
        tm = dict(op["tm"])
        if tm["has"]:
            for f in ("params", "ua", "sa", "iv"):
                tm[f] = _mapfix(tm[f])
            tm["params"] = {n: {"d": p["d"], "v": p["v"]} for n, p in tm["params"].items()}
        op["tm"] = tm
    return op


def histories_from_tlc(ctx, num, depth):
    behs = tlc.simulate("StorageMC", "StorageMC_sim", num=num, depth=depth, seed=ctx.seed + 1)
    out = []
    for i, b in enumerate(behs):
        g = sg.Gen(random.Random(ctx.rng.getrandbits(48)))
        ops = []
        for step in b:
            op = op_from_last(step.state["last"])
            if op is None:
                continue
            ops.append(op)
            g.note(op)
            for _ in range(g.r.choice([0, 0, 1, 2])):
                ops.append(g.getter())
        out.append({"hid": f"tlc{i}", "ops": ops})
    return out


def _run_chunk(args):
    config, hs = args
    return sd.run_histories(config, hs)


def execute(plan):
    """plan: list of (config, histories).  Runs on a process pool; returns traces."""
    tasks = []
    for config, hs in plan:
        per = 12 if config in sd.SLOW else 40
        for i in range(0, len(hs), per):
            tasks.append((config, hs[i:i + per]))
    traces = []
    with cf.ProcessPoolExecutor(max_workers=16) as ex:
        for res in ex.map(_run_chunk, tasks):
            traces += res
    return traces


def strip(ev):
    return {k: v for k, v in ev.items() if k not in ("post",)}


def classify_and_report(ctx, traces, v):
    """Every rejected trace is a violation unless it matches a recorded finding exactly."""
    for tid in sorted(v.rejected):
        t = traces[tid - 1]
        info = v.rejected[tid]
        i = info["reached"]
        ev = t["ev"][i - 1] if 1 <= i <= len(t["ev"]) else None
        sig = f"{'rdb' if t['config'] in RDB_LIKE else t['config']}:{t['hid']}"
        f = ctx.match_known(sig)
        if f is not None:
            ctx.known_finding(f, f"config={t['config']}")
            continue
        if t["config"].startswith("suite:"):
            tests = sorted({e.get("test", "?") for e in t["ev"][:i]})
            text = (f"recorded run of the repository's tests {tests[-3:]} on {t['config'][6:]}: call #{i} "
                    f"{json.dumps(strip(ev)) if ev else '?'} is not a step of the Storage contract")
            ctx.violation(text[:1500], {"suite": {"tests": sorted({e.get("nodeid", "") for e in t["ev"]} - {""}), "key": t["key"]},
                                        "failing_event": i, "recorded": ev})
            if len(ctx.violations) >= 8:
                break
            continue
        text = (f"backend {t['config']} history {t['hid']}: event #{i} {json.dumps(strip(ev)) if ev else '?'} is not a "
                f"step of the Storage contract (reply, error class or read-back state differs)")
        ctx.violation(text[:1500], {"config": t["config"], "ops": [strip_op(e) for e in t["ev"]], "failing_event": i,
                                    "recorded": ev})
        if len(ctx.violations) >= 8:
            break
    for p in v.prints:
        if p and p[0] == "FLAG":
            tid, flags = p[1], p[2]
            t = traces[tid - 1]
            if "K2" in flags:
                f = ctx.match_known("rdb:id-reuse-after-delete") if t["config"] in RDB_LIKE else None
                if f is not None:
                    ctx.known_finding(f, f"config={t['config']} history={t['hid']}")
                else:
                    ctx.violation(f"backend {t['config']} history {t['hid']}: a create call returned an id that had been "
                                  f"issued before (ids must be unique among current and deleted objects)",
                                  {"config": t["config"], "ops": [strip_op(e) for e in t["ev"]]})


def strip_op(e):
    return {k: v for k, v in e.items() if k not in ("post", "ret", "raw", "p")}


def run(ctx):
    ctx.rule = ("histories = TLC -simulate behaviours of StorageMC (depth 14, getters interleaved) + seeded random histories "
                "(16 calls, all template fields, NaN/inf/denormal/1e300 values, nested JSON attrs, delete-then-recreate, "
                "writes after finish, unknown/deleted ids) + repeated overwrites of one key with values of every class "
                "(finite, +-inf, NaN, denormal) + interleaved multi-study histories (ids differ from numbers; best trial of every "
                "study after every completion) + distribution-compatibility histories (which trial recorded a name first) run on 9 backend configurations; every trace validated by TLC "
                "against StorageTrace; in addition every storage call the repository's OWN tests make (test_storages, test_cached_storage, "
                "test_trial; thorough: study/journal/pruner/sampler tests too) is recorded per backend state and validated against "
                "the same specification; distinct = distinct (config, call sequence) pairs")
    r = tlc.require_model("StorageMC", "StorageMC_q" if ctx.quick else "StorageMC_t", must_cover=MC_ACTIONS, timeout=3000)
    ctx.model(r, "StorageMC exhaustive")
    # the repository's own tests, recorded while the generated histories run (judged below, with everything else)
    import shutil
    import tempfile

    suite_out = tempfile.mkdtemp(prefix="c01-suite-", dir=tlc.scratch())
    suite_proc = suite_traces.start(suite_traces.QUICK_FILES if ctx.quick else suite_traces.THOROUGH_FILES, suite_out,
                                    workers=6 if ctx.quick else 12)
    n_fast, n_slow = (150, 36) if ctx.quick else (1500, 360)
    n_tlc_fast, n_tlc_slow = (60, 12) if ctx.quick else (400, 100)
    hs_tlc = histories_from_tlc(ctx, n_tlc_fast, 14)
    hs_rand = sg.histories(ctx.rng, n_fast, 16)
    hs_ow = sg.overwrite_histories(ctx.rng, 48 if ctx.quick else 500)
    hs_ms = sg.multistudy_histories(ctx.rng, 48 if ctx.quick else 500)
    hs_ms += sg.compat_histories(ctx.rng, 60 if ctx.quick else 384)
    hs_ms += sg.delete_histories(ctx.rng, 30 if ctx.quick else 300)
    hs_ms += sg.waiting_histories(ctx.rng, 30 if ctx.quick else 300)
    plan = []
    for c in sd.CONFIGS:
        if c in sd.SLOW:
            plan.append((c, hs_rand[:n_slow] + hs_tlc[:n_tlc_slow] + hs_ow[::3] + hs_ms[::3]))      # every third history of every family
        else:
            plan.append((c, hs_rand + hs_tlc + hs_ow + hs_ms))
        plan.append((c, [{"hid": "K6-nan-template-value", "ops": K6_OPS}]))
    traces = execute(plan)
    rc, tail = suite_traces.finish(suite_proc)
    straces, cuts = suite_traces.build(suite_traces.load(suite_out))
    shutil.rmtree(suite_out, ignore_errors=True)
    ctx.notes["suite_traces"] = {"pytest_exit": rc, "pytest_summary": tail[:200], "traces": len(straces),
                                 "events": sum(len(t["ev"]) for t in straces), "cut_reasons": cuts}
    print(f"[{ctx.pid}] recorded test-suite run: {tail[:120]}; {len(straces)} backend traces, "
          f"{sum(len(t['ev']) for t in straces)} calls, cuts {cuts}", flush=True)
    if len(straces) < 50:
        raise tlc.MachineryError(f"the recorded test run produced only {len(straces)} traces: {tail[:300]}")
    traces += straces
    for i, t in enumerate(traces):
        t["tid"] = i + 1
        ctx.count_case([t["config"]] + [strip_op(e) for e in t["ev"]], nontrivial=len(t["ev"]) > 3)
    v = tlc.validate("StorageTrace", "StorageTrace", traces, shards=16, timeout=2400)
    ctx.validated(v, "9 backends x histories")
    undef = [p for p in v.prints if p and p[0] == "UNDEF"]
    ctx.notes["undefined_calls_truncated"] = len(undef)
    if len(undef) > 0.2 * len(traces):
        raise tlc.MachineryError(f"{len(undef)} of {len(traces)} traces hit a call outside the defined contract: generator bug")
    classify_and_report(ctx, traces, v)
    per = {}
    for t in traces:
        a = per.setdefault(t["config"], [0, 0])
        a[0] += 1
        a[1] += t["tid"] in v.accepted
    ctx.notes["per_config"] = {k: {"traces": a, "accepted": b} for k, (a, b) in per.items()}
    for t in traces[:: max(1, len(traces) // 4)][:4]:
        ctx.sample({"config": t["config"], "hid": t["hid"], "events": [strip(e) for e in t["ev"][:8]]})
    # binding self-test: flip one recorded reply / one read-back field of an accepted trace
    good = next(t for t in traces if t["tid"] in v.accepted and t["config"] == "inmemory" and
                any(e["a"] == "set_state" and e["ret"] == {"k": "ok", "v": True} for e in t["ev"]))

    def flip_reply(t):
        for e in t["ev"]:
            if e["a"] == "set_state" and e["ret"] == {"k": "ok", "v": True}:
                e["ret"] = {"k": "ok", "v": False}
                return

    def flip_post(t):
        for e in reversed(t["ev"]):
            if e.get("p") == 1 and e["post"].get("trials") and any(e["post"]["trials"]):
                for tr in e["post"]["trials"]:
                    if tr:
                        tr[0]["state"] = "FAIL" if tr[0]["state"] != "FAIL" else "COMPLETE"
                        return
    ctx.binding_selftest("StorageTrace", "StorageTrace", {k: good[k] for k in ("tid", "ev")}, flip_reply, "reply True->False")
    ctx.binding_selftest("StorageTrace", "StorageTrace", {k: good[k] for k in ("tid", "ev")}, flip_post, "read-back state")
    ctx.assumptions += [
        "RDB means SQLite, Redis means fakeredis; MySQL/PostgreSQL are not available",
        "values come from a finite pool compared bit-exactly after the backend's serialisation",
        "named deviations D1-D6, D10, D11 of DESIGN.md 3.1 (out-of-contract calls are not generated)",
    ]


def replay(ctx, data):
    if "suite" in data:
        import shutil
        import tempfile

        out = tempfile.mkdtemp(prefix="c01-suite-", dir=tlc.scratch())
        proc = suite_traces.start(data["suite"]["tests"], out, workers=1)
        suite_traces.finish(proc)
        tr, _ = suite_traces.build(suite_traces.load(out))
        shutil.rmtree(out, ignore_errors=True)
        for i, t in enumerate(tr):
            t["tid"] = i + 1
        v = tlc.validate("StorageTrace", "StorageTrace", [{"tid": t["tid"], "ev": t["ev"]} for t in tr])
        ctx.validated(v, "replay of recorded tests")
        classify_and_report(ctx, tr, v)
        return
    tr = sd.run_histories(data["config"], [{"hid": "replay", "ops": data["ops"]}])
    for i, t in enumerate(tr):
        t["tid"] = i + 1
    v = tlc.validate("StorageTrace", "StorageTrace", tr)
    ctx.validated(v, "replay")
    classify_and_report(ctx, tr, v)
