"""H4 — several SQLite connections (one RDBStorage object each = one process each) interleaved per SQL statement.

Yield points are SQLAlchemy engine events (before_cursor_execute, commit, rollback) of each worker's engine and
the retry back-off sleep of RDBStorage._create_new_trial.  `connect_args={"timeout": 0}` turns a lock wait into an
immediate `database is locked`, which the storage reports as StorageInternalError: the reply token `Busy`, for
which LinStorage requires that the call had no effect.
"""
from __future__ import annotations

import concurrent.futures as cf
import json
import os
import random
import shutil
import tempfile

from . import common, storage_driver as sd, tlc
from . import thread_sched as ts

K1_SIG = "sqlite:compare-and-set-not-atomic-across-connections"


class Killed(BaseException):
    """death of the process that owns a connection: the thread unwinds, the connection is closed (SQLite rolls back)"""


def make_group(sched, workdir, n=3):
    common.use_repo()
    import sqlalchemy
    from optuna.storages import RDBStorage
    from optuna.storages._rdb import storage as RS

    import logging

    logging.getLogger("sqlalchemy.pool").setLevel(logging.CRITICAL)     # a killed worker's closed connection is expected
    path = tempfile.mkdtemp(prefix="rdbs-", dir=workdir)
    first = sd.fresh_rdb(path, workdir)
    first.remove_session()
    first.engine.dispose()
    url = f"sqlite:///{path}/db.sqlite3"
    storages = []
    for _ in range(n + 1):
        s = RDBStorage(url, engine_kwargs={"connect_args": {"timeout": 0}}, skip_compatibility_check=True,
                       skip_table_creation=True)
        storages.append(s)

    def hook(*a, **k):
        w = sched.current_worker()
        if w is not None and getattr(w, "dying", False):
            raise Killed()            # a dead process executes nothing more
        if w is not None:
            w.lines += 1
            sched.yield_point(w, "sql")
            if getattr(w, "kill_at", None) is not None and w.lines >= w.kill_at:
                w.dying = True
                w.kill = True
                try:
                    a[0].connection.dbapi_connection.close()
                except Exception:
                    pass
                raise Killed()
    for s in storages[:n]:
        sqlalchemy.event.listen(s.engine, "before_cursor_execute", hook)
        sqlalchemy.event.listen(s.engine, "commit", hook)
        sqlalchemy.event.listen(s.engine, "rollback", hook)

    class Time:
        def __getattr__(self, name):
            import time as real

            return getattr(real, name)

        @staticmethod
        def sleep(secs):
            w = sched.current_worker()
            if w is not None:
                sched.yield_point(w, "backoff")
    RS.time = Time()

    def close():
        for s in storages:
            try:
                s.remove_session()
                s.engine.dispose()
            except Exception:
                pass
    return storages[:n], storages[n], close


def execute(programs, choose_factory, workdir):
    from . import c03

    sched = ts.Scheduler(())
    storages, observer, close = make_group(sched, workdir, n=max(3, len(programs)))
    try:
        t = c03.execute("rdb_conns", programs, choose_factory, sched=sched, group=(storages, observer))
        # `database is locked` -> Busy
        for e in t["ev"]:
            if e["e"] == "start" and e["ret"]["k"] == "err" and str(e["ret"]["v"]).startswith("Unexpected:StorageInternalError"):
                e["ret"] = {"k": "err", "v": "Busy"}
        return t
    finally:
        close()


def _pair_task(args):
    from . import c03

    ia, ib, mode = args
    workdir = tempfile.mkdtemp(prefix="c03r-", dir=os.environ.get("VERIF_SCRATCH_BASE", "/var/tmp"))
    try:
        A, B = c03.alphabet(1, "rdb_conns")[ia], c03.alphabet(2, "rdb_conns")[ib]
        out = []
        t = execute([A, B], c03.preempt_at(10 ** 9), workdir)
        n = t["lines"][0] + 1
        pts = range(0, n + 1) if mode == "all" else sorted(set(random.Random(ia * 100 + ib).sample(range(0, n + 1), min(n + 1, 5))))
        for i in pts:
            t = execute([A, B], c03.preempt_at(i), workdir)
            t["replay"] = {"family": "rdb-pair", "kind": "rdb_conns", "a": ia, "b": ib, "i": i}
            out.append(t)
        return out
    finally:
        shutil.rmtree(workdir, ignore_errors=True)


def _random_task(args):
    from . import c03

    seed, n = args
    rng = random.Random(seed)
    workdir = tempfile.mkdtemp(prefix="c03r-", dir=os.environ.get("VERIF_SCRATCH_BASE", "/var/tmp"))
    try:
        out = []
        for j in range(n):
            nw = rng.choice([2, 3])
            progs = []
            for w in range(1, nw + 1):
                p = []
                for entry in rng.sample(c03.alphabet(w, "rdb_conns"), rng.choice([1, 2])):    # no repeated set_param (D10)
                    p += entry
                progs.append(p)
            t = execute(progs, c03.random_schedule(rng.getrandbits(30), rng.choice([0.2, 0.5])), workdir)
            t["replay"] = {"family": "rdb-random", "kind": "rdb_conns", "seed": seed, "index": j}
            out.append(t)
        return out
    finally:
        shutil.rmtree(workdir, ignore_errors=True)


def _crash_task(args):
    """worker 1 dies at its i-th SQL statement / commit boundary inside one call; then worker 2 (a survivor) works on"""
    from . import c03

    ia, mode = args
    workdir = tempfile.mkdtemp(prefix="c05r-", dir=os.environ.get("VERIF_SCRATCH_BASE", "/var/tmp"))
    try:
        A = c03.alphabet(1, "rdb_conns")[ia]
        B = [{"a": "create_trial", "s": 1, "tm": {"has": 0}}, {"a": "set_state", "t": 1, "state": "FAIL", "values": sd.NONE_V},
             {"a": "get_all_trials", "s": 1, "states": ["ALL"], "dc": 1, "as_list": 0}]
        t = execute([A, []], c03.preempt_at(10 ** 9), workdir)
        n = t["lines"][0]
        out = []
        for i in range(1, n + 1):
            def factory(sched, i=i):
                sched.workers[0].kill_at = i
                return c03.preempt_at(10 ** 9)(sched)
            t = execute([A, B], factory, workdir)
            t["replay"] = {"family": "rdb-crash", "kind": "rdb_conns", "a": ia, "i": i}
            out.append(t)
        return out
    finally:
        shutil.rmtree(workdir, ignore_errors=True)


def run_crash_part(ctx):
    from . import c03

    tasks = [(ia, "all") for ia in range(len(c03.alphabet(1, "rdb_conns"))) if not c03.alphabet(1, "rdb_conns")[ia][0]["a"].startswith("get_")]
    traces = []
    with cf.ProcessPoolExecutor(max_workers=16) as ex:
        for res in ex.map(_crash_task, tasks):
            traces += res
    crashed = sum(1 for t in traces if any(e["e"] == "start" and e["ret"] == {"k": "err", "v": "Crashed"} for e in t["ev"]))
    ctx.notes["rdb_crash_executions"] = len(traces)
    ctx.notes["rdb_calls_actually_cut"] = crashed
    if crashed == 0:
        raise tlc.MachineryError("vacuous: no SQLite call was cut by a crash")
    return judge(ctx, traces, "SQLite: a connection dies at every statement/commit boundary of every call, a survivor goes on")


INIT_HISTORY = [
    {"a": "create_study", "name": "A", "dirs": [0]},
    {"a": "create_trial", "s": 1, "tm": {"has": 0}},
    {"a": "set_param", "t": 1, "name": "x", "v": 3, "d": {"c": "float", "g": 0, "k": 0}},
    {"a": "set_iv", "t": 1, "step": "0", "v": 2},
    {"a": "set_trial_ua", "t": 1, "key": "k1", "v": 1},
    {"a": "set_state", "t": 1, "state": "COMPLETE", "values": [2]},
    {"a": "get_all_trials", "s": 1, "states": ["ALL"], "dc": 1, "as_list": 0},
    {"a": "get_best_trial", "s": 1},
]


def _init_crash_task(k):
    """The FIRST opener of a new SQLite database dies just before its k-th SQL statement (schema creation, version rows);
    a second process then opens the same file and must find a usable storage (k = 0: dry run, returns the statement count)."""
    common.use_repo()
    import threading

    import sqlalchemy
    from optuna.storages import RDBStorage

    wd = tempfile.mkdtemp(prefix="c05i-", dir=os.environ.get("VERIF_SCRATCH_BASE", "/var/tmp"))
    url = f"sqlite:///{wd}/db.sqlite3"
    count, victim = [0], [None]

    def hook(conn, cursor, statement, parameters, context, executemany):
        if threading.current_thread() is victim[0]:
            count[0] += 1
            if count[0] == k:
                try:
                    conn.connection.dbapi_connection.close()       # the process is gone: SQLite rolls the open statement back
                except Exception:
                    pass
                raise Killed()
    sqlalchemy.event.listen(sqlalchemy.engine.Engine, "before_cursor_execute", hook)
    try:
        def first_opener():
            try:
                RDBStorage(url)
            except BaseException:  # noqa: Killed, or whatever the dying constructor turns it into
                pass
        th = threading.Thread(target=first_opener)
        victim[0] = th
        th.start()
        th.join()
        if k == 0:
            return {"statements": count[0]}
        try:
            st = RDBStorage(url)
        except Exception as e:  # the second opener cannot even construct the storage: an observation
            return {"config": "rdb-init-crash", "hid": f"first-opener-dies-before-statement-{k}",
                    "ev": [{"a": "create_study", "name": "A", "dirs": [0], "p": 0,
                            "ret": {"k": "err", "v": f"Unexpected:{type(e).__name__}:{str(e)[:100]}"}}],
                    "replay": {"family": "rdb-init-crash", "k": k}}
        ev = sd.Replayer(st).run(INIT_HISTORY, with_post=True)
        st.remove_session()
        st.engine.dispose()
        return {"config": "rdb-init-crash", "hid": f"first-opener-dies-before-statement-{k}", "ev": ev,
                "replay": {"family": "rdb-init-crash", "k": k}}
    finally:
        sqlalchemy.event.remove(sqlalchemy.engine.Engine, "before_cursor_execute", hook)
        shutil.rmtree(wd, ignore_errors=True)


def run_init_crash_part(ctx):
    n = _init_crash_task(0)["statements"]
    if n < 10:
        raise tlc.MachineryError(f"schema creation issued only {n} statements: the hook does not see them")
    with cf.ProcessPoolExecutor(max_workers=16) as ex:
        traces = list(ex.map(_init_crash_task, range(1, n + 1)))
    for i, t in enumerate(traces):
        t["tid"] = i + 1
        ctx.count_case(["rdb-init-crash", t["hid"]], nontrivial=True)
    v = tlc.validate("StorageTrace", "StorageTrace", [{"tid": t["tid"], "ev": t["ev"]} for t in traces], shards=4, timeout=900)
    ctx.validated(v, f"SQLite: the first opener dies before each of its {n} statements, a second opener uses the database")
    ctx.notes["rdb_init_crash_points"] = n
    for tid in sorted(v.rejected):
        t = traces[tid - 1]
        i = v.rejected[tid]["reached"]
        ev = t["ev"][i - 1] if 1 <= i <= len(t["ev"]) else None
        ctx.violation(f"SQLite, {t['hid']}: the next opener's call #{i} "
                      f"{json.dumps({k: x for k, x in (ev or {}).items() if k != 'post'})[:300]} is not a step of the Storage contract "
                      f"(the database a dead first opener left behind is not usable)", {"replay": t["replay"]})
        if len(ctx.violations) >= 4:
            break
    return v


def concurrent_cas(t):
    """two workers' set_state calls on the same trial overlap in time (shape of recorded finding K1)"""
    open_calls = {}
    for e in t["ev"]:
        if e["e"] == "start" and e["w"] > 0:
            if e["op"]["a"] == "set_state":
                for w2, op2 in open_calls.items():
                    if op2["a"] == "set_state" and op2["t"] == e["op"]["t"]:
                        return True
            open_calls[e["w"]] = e["op"]
        elif e["e"] == "end":
            open_calls.pop(e["w"], None)
    return False


K13_SIG = "sqlite:multi-statement-read-not-a-snapshot"
K14_SIG = "sqlite:write-accepted-while-another-connection-finishes-the-trial"
TRIAL_WRITES = ("set_param", "set_iv", "set_trial_ua", "set_trial_sa")


def write_races_finish(t):
    """a trial write that answered ok overlaps, in time, another worker's set_state that finished the SAME trial and
    answered True (shape of recorded finding K14)"""
    open_calls = {}
    for e in t["ev"]:
        if e["e"] == "start" and e["w"] > 0:
            op, ret = e["op"], e["ret"]
            for w2, (op2, ret2) in open_calls.items():
                for a, ra, b, rb in ((op, ret, op2, ret2), (op2, ret2, op, ret)):
                    if (a["a"] in TRIAL_WRITES and ra.get("k") == "ok" and b["a"] == "set_state" and b.get("t") == a.get("t")
                            and b.get("state") in ("COMPLETE", "PRUNED", "FAIL") and rb == {"k": "ok", "v": True}):
                        return True
            open_calls[e["w"]] = (op, ret)
        elif e["e"] == "end":
            open_calls.pop(e["w"], None)
    return False


def without_overlapping_getters(t):
    """the same history minus the read calls that overlap a WRITE call of another worker (shape of recorded finding K13: a
    write committed by another connection between two SELECTs of one read; a read that overlaps only reads cannot be torn)"""
    ev, open_calls, drop = t["ev"], {}, set()
    spans = []          # (worker, start index, end index, is_getter)
    for i, e in enumerate(ev):
        if e["e"] == "start":
            open_calls[e["w"]] = i
        elif e["e"] == "end" and e["w"] in open_calls:
            s0 = open_calls.pop(e["w"])
            spans.append((e["w"], s0, i, ev[s0]["op"]["a"].startswith("get_")))
    for w, a, b, g in spans:
        if g and w > 0 and any(w2 != w and not g2 and not (b2 < a or a2 > b) for w2, a2, b2, g2 in spans):
            drop |= {a, b}
    if not drop:
        return None
    return [e for i, e in enumerate(ev) if i not in drop]


def classify_torn_reads(ctx, rejected_traces):
    """rejected traces that become linearizable once the overlapping reads are left out are the recorded finding K13"""
    cand = []
    for t in rejected_traces:
        ev = without_overlapping_getters(t)
        if ev is not None:
            cand.append((t, ev))
    if not cand or ctx.match_known(K13_SIG) is None:
        return set()
    v = tlc.validate("LinStorage", "LinStorage", [{"tid": i + 1, "workers": t["workers"], "ev": ev} for i, (t, ev) in enumerate(cand)],
                     shards=4, timeout=1200)
    return {id(cand[i - 1][0]) for i in v.accepted}


def judge(ctx, traces, label):
    for i, t in enumerate(traces):
        t["tid"] = i + 1
        ctx.count_case(["rdb"] + [[e["e"], e["w"], e.get("op", {}).get("a")] for e in t["ev"]], nontrivial=True)
    v = tlc.validate("LinStorage", "LinStorage", [{"tid": t["tid"], "workers": t["workers"], "ev": t["ev"]} for t in traces],
                     shards=16, timeout=2400)
    ctx.validated(v, label)
    k1 = 0
    torn = classify_torn_reads(ctx, [traces[tid - 1] for tid in v.rejected if not concurrent_cas(traces[tid - 1])])
    ctx.notes["k13_schedules"] = ctx.notes.get("k13_schedules", 0) + len(torn)
    for tid in sorted(v.rejected):
        t = traces[tid - 1]
        calls = [f"w{e['w']}:{e['op']['a']}->{json.dumps(e['ret'])[:80]}" for e in t["ev"] if e["e"] == "start" and e["w"] > 0]
        f = ctx.match_known(K1_SIG) if concurrent_cas(t) else None
        if f is not None:
            k1 += 1
            ctx.known_finding(f, f"e.g. {calls} choices={t['choices']}")
            continue
        if id(t) in torn:
            ctx.known_finding(ctx.match_known(K13_SIG), f"e.g. {calls} choices={t['choices']}")
            continue
        f = ctx.match_known(K14_SIG) if write_races_finish(t) else None
        if f is not None:
            ctx.known_finding(f, f"e.g. {calls} choices={t['choices']}")
            continue
        ctx.violation(f"SQLite connections interleaved per statement: no linearization explains {calls} "
                      f"(deadlock={t['deadlock']})", {"replay": t["replay"], "choices": t["choices"], "events": t["ev"]})
        if len(ctx.violations) >= 6:
            break
    ctx.notes["k1_schedules"] = ctx.notes.get("k1_schedules", 0) + k1
    busy = sum(1 for t in traces for e in t["ev"] if e["e"] == "start" and e["ret"] == {"k": "err", "v": "Busy"})
    ctx.notes["busy_replies"] = ctx.notes.get("busy_replies", 0) + busy
    return v


def run_part(ctx):
    from . import c03

    n_al = len(c03.alphabet(1, "rdb_conns"))
    tasks = []
    for ia in range(n_al):
        for ib in range(n_al):
            if ctx.quick and (ia * 5 + ib * 3 + ctx.seed) % 5 != 0:
                continue
            tasks.append((ia, ib, "sample" if ctx.quick else "all"))
    if ctx.quick:
        # two workers issuing the SAME call (create the same study name, claim the same trial, ...): check-then-act races
        # live exactly there, and a statement-level schedule of one call is short: every boundary, also in the quick tier
        tasks += [(ia, ia, "all") for ia in range(n_al) if not c03.alphabet(1, "rdb_conns")[ia][0]["a"].startswith("get_")]
    traces = []
    with cf.ProcessPoolExecutor(max_workers=16) as ex:
        for res in ex.map(_pair_task, tasks, chunksize=2):
            traces += res
        for res in ex.map(_random_task, [(ctx.seed * 77 + i, 10 if ctx.quick else 150) for i in range(8)]):
            traces += res
    ctx.notes["rdb_executions"] = len(traces)
    return judge(ctx, traces, "SQLite connections interleaved per SQL statement")


def replay(ctx, data):
    if data.get("replay", {}).get("family") == "rdb-init-crash":
        t = _init_crash_task(data["replay"]["k"])
        t["tid"] = 1
        v = tlc.validate("StorageTrace", "StorageTrace", [{"tid": 1, "ev": t["ev"]}])
        ctx.validated(v, "replay (first opener dies)")
        if v.rejected:
            ctx.violation(f"SQLite, {t['hid']}: the database a dead first opener left behind is not usable", {"replay": t["replay"]})
        return
    from . import c03

    r = data["replay"]
    workdir = tempfile.mkdtemp(prefix="c03r-", dir=os.environ.get("VERIF_SCRATCH_BASE", "/var/tmp"))
    try:
        if r["family"] == "rdb-crash":
            t = [x for x in _crash_task((r["a"], "all")) if x["replay"]["i"] == r["i"]][0]
        elif r["family"] == "rdb-pair":
            t = execute([c03.alphabet(1, "rdb_conns")[r["a"]], c03.alphabet(2, "rdb_conns")[r["b"]]], c03.preempt_at(r["i"]), workdir)
        else:
            t = _random_task((r["seed"], r["index"] + 1))[r["index"]]
        t["replay"] = r
        judge(ctx, [t], "replay")
    finally:
        shutil.rmtree(workdir, ignore_errors=True)
