"""pytest plugin (loaded with `-p harness.suite_recorder`): records every OUTERMOST public storage call that the
repository's own tests make on InMemoryStorage / RDBStorage / JournalStorage / _CachedStorage objects.

Nothing is judged here and nothing in /repo is changed: the classes are wrapped at pytest start-up, in this process
only.  One raw event per call: method, arguments, reply or exception class, a global sequence number taken at the
start and at the end of the call (to detect overlapping calls), thread, pid, test node id and the key of the backend the
object talks to.  Events are appended to $VERIF_SUITE_OUT/<pid>.ndjson.  harness/suite_traces.py turns them into
StorageTrace traces.
"""
from __future__ import annotations

import itertools
import json
import math
import os
import threading

OUT = os.environ.get("VERIF_SUITE_OUT")
API = [
    "create_new_study", "delete_study", "set_study_user_attr", "set_study_system_attr", "get_study_id_from_name",
    "get_study_name_from_id", "get_study_directions", "get_study_user_attrs", "get_study_system_attrs", "get_all_studies",
    "create_new_trial", "set_trial_param", "get_trial_id_from_study_id_trial_number", "get_trial_number_from_id",
    "get_trial_param", "set_trial_state_values", "set_trial_intermediate_value", "set_trial_user_attr",
    "set_trial_system_attr", "get_trial", "get_all_trials", "get_n_trials", "get_best_trial", "get_trial_params",
    "get_trial_user_attrs", "get_trial_system_attrs",
]
_seq = itertools.count(1)
_gid = itertools.count(1)
_lock = threading.Lock()
_tl = threading.local()
_files = {}
_current_test = ["?"]
_epochs = {}          # backend key -> epoch (a file that did not exist when a storage was opened starts a new one)


def _fh():
    pid = os.getpid()
    f = _files.get(pid)
    if f is None:
        f = open(os.path.join(OUT, f"{pid}.ndjson"), "a", buffering=1)
        _files[pid] = f
    return f


def _emit(rec):
    line = json.dumps(rec, separators=(",", ":"))
    with _lock:
        _fh().write(line + "\n")


def fl(x):
    """bit-exact, JSON-safe float"""
    if x is None:
        return None
    try:
        x = float(x)
    except Exception:
        return "bad:" + type(x).__name__
    if math.isnan(x):
        return "nan"
    return x.hex()


def js(x):
    try:
        return json.dumps(x, sort_keys=True)
    except Exception:
        return "unserialisable:" + type(x).__name__


def dist(d):
    from optuna.distributions import distribution_to_json

    try:
        return [type(d).__name__, distribution_to_json(d)]
    except Exception:
        return [type(d).__name__, "?"]


def date(d):
    return None if d is None else d.isoformat()


def frozen(ft):
    params = {}
    for n in ft.params:
        d = ft.distributions.get(n)
        try:
            iv = fl(d.to_internal_repr(ft.params[n]))
        except Exception:
            iv = "bad"
        params[n] = [dist(d) if d is not None else None, iv]
    try:
        values = None if ft.values is None else [fl(v) for v in ft.values]
    except Exception:
        values = "bad"
    return {"id": ft._trial_id, "number": ft.number, "state": ft.state.name, "values": values, "params": params,
            "ua": {str(k): js(v) for k, v in ft.user_attrs.items()}, "sa": {str(k): js(v) for k, v in ft.system_attrs.items()},
            "iv": {str(k): fl(v) for k, v in ft.intermediate_values.items()},
            "ts": date(ft.datetime_start), "tc": date(ft.datetime_complete)}


def fstudy(fs):
    return {"id": fs._study_id, "name": fs.study_name, "dirs": [int(d) for d in fs.directions],
            "ua": {str(k): js(v) for k, v in fs.user_attrs.items()}, "sa": {str(k): js(v) for k, v in fs.system_attrs.items()}}


def _args(name, a, kw):
    """bind positional/keyword arguments to the names of the BaseStorage signature and make them JSON-able"""
    import inspect

    from optuna.storages import BaseStorage

    sig = inspect.signature(getattr(BaseStorage, name))
    ba = sig.bind(None, *a, **kw)
    ba.apply_defaults()
    d = dict(ba.arguments)
    d.pop("self", None)
    out = {}
    for k, v in d.items():
        if k == "directions":
            out[k] = [int(x) for x in v]
        elif k in ("value",) and name in ("set_study_user_attr", "set_study_system_attr", "set_trial_user_attr",
                                          "set_trial_system_attr"):
            out[k] = js(v)
        elif k == "template_trial":
            out[k] = None if v is None else frozen(v)
        elif k == "distribution":
            out[k] = dist(v)
        elif k in ("param_value_internal", "intermediate_value"):
            out[k] = fl(v)
        elif k == "values":
            out[k] = None if v is None else [fl(x) for x in v]
        elif k == "state":
            out[k] = None if v is None else (v.name if hasattr(v, "name") else [x.name for x in v])
        elif k == "states":
            out[k] = None if v is None else [s.name for s in v]
        elif isinstance(v, (int, str, bool)) or v is None:
            out[k] = v
        else:
            out[k] = "bad:" + type(v).__name__
    return out


def _ret(name, r):
    if name in ("get_trial", "get_best_trial"):
        return frozen(r)
    if name == "get_all_trials":
        return [frozen(t) for t in r]
    if name == "get_all_studies":
        return [fstudy(s) for s in r]
    if name == "get_study_directions":
        return [int(d) for d in r]
    if name in ("get_study_user_attrs", "get_study_system_attrs", "get_trial_user_attrs", "get_trial_system_attrs"):
        return {str(k): js(v) for k, v in r.items()}
    if name == "get_trial_param":
        return fl(r)
    if name == "get_trial_params":
        return {str(k): js(v) for k, v in r.items()}
    if isinstance(r, (int, str, bool)) or r is None:
        return r
    return "bad:" + type(r).__name__


def _key(obj):
    """which backend state does this object talk to?"""
    k = obj.__dict__.get("_verif_key")
    if k is not None and k[0] == id(obj):
        return k[1]
    copied = k is not None          # a copy / unpickled twin of a recorded object: its state did not start empty
    cls = type(obj).__name__
    k = None
    try:
        if cls == "_CachedStorage":
            k = _key(obj._backend)
        elif cls == "RDBStorage":
            url = str(obj.engine.url)
            if url.startswith("sqlite:///") and ":memory:" not in url and len(url) > len("sqlite:///"):
                k = "rdb:" + url
        elif cls == "JournalStorage":
            be = obj._backend
            p = getattr(be, "_file_path", None)
            if p is not None:
                k = "journal:" + os.path.abspath(p)
            else:
                k = f"journalobj:{os.getpid()}:{id(be)}:{type(be).__name__}"
                obj.__dict__["_verif_keep"] = be
    except Exception:
        k = None
    if k is None:
        k = f"{'tainted' if copied else 'obj'}:{os.getpid()}:{next(_gid)}:{cls}"
    elif copied and k.startswith("journalobj:"):
        k = "tainted:" + k
    obj.__dict__["_verif_key"] = (id(obj), k)
    return k


def _wrap(cls, name):
    orig = getattr(cls, name)

    def wrapper(self, *a, **kw):
        depth = getattr(_tl, "depth", 0)
        if depth > 0 or OUT is None:
            return orig(self, *a, **kw)
        _tl.depth = 1
        try:
            rec = {"m": name, "cls": type(self).__name__, "key": _key(self), "pid": os.getpid(),
                   "th": threading.get_ident(), "test": _current_test[0]}
            try:
                rec["args"] = _args(name, a, kw)
            except Exception as e:  # a call that does not even bind: not a storage call we can describe
                rec["args"] = {"unbound": type(e).__name__}
            with _lock:
                rec["s0"] = next(_seq)
            try:
                r = orig(self, *a, **kw)
            except BaseException as e:
                with _lock:
                    rec["s1"] = next(_seq)
                rec["exc"] = [c.__name__ for c in type(e).__mro__][:6]
                rec["msg"] = str(e)[:160]
                _emit(rec)
                raise
            with _lock:
                rec["s1"] = next(_seq)
            try:
                rec["ret"] = _ret(name, r)
            except Exception as e:
                rec["ret"] = "bad:" + type(e).__name__
            _emit(rec)
            return r
        finally:
            _tl.depth = 0
    wrapper.__name__ = name
    wrapper.__wrapped__ = orig
    wrapper.__doc__ = getattr(orig, "__doc__", None)
    return wrapper


def _wrap_init(cls):
    orig = cls.__init__

    def init(self, *a, **kw):
        # does the file behind the storage exist before it is opened?  (a new file = a new, empty backend state)
        path = None
        try:
            if cls.__name__ == "RDBStorage":
                url = a[0] if a else kw.get("url")
                if isinstance(url, str) and url.startswith("sqlite:///") and ":memory:" not in url:
                    path = url[len("sqlite:///"):]
            elif cls.__name__ == "JournalStorage":
                be = a[0] if a else kw.get("log_storage")
                path = getattr(be, "_file_path", None)
        except Exception:
            path = None
        existed = bool(path) and os.path.exists(path) and os.path.getsize(path) > 0
        depth = getattr(_tl, "depth", 0)
        _tl.depth = depth + 1          # calls made by __init__ itself are not client calls
        try:
            orig(self, *a, **kw)
        finally:
            _tl.depth = depth
        if OUT is not None and path and depth == 0:
            with _lock:
                s = next(_seq)
            _emit({"m": "__open__", "cls": cls.__name__, "key": _key(self), "pid": os.getpid(), "existed": existed,
                   "s0": s, "s1": s, "test": _current_test[0], "th": threading.get_ident()})
    init.__wrapped__ = orig
    cls.__init__ = init


def pytest_configure(config):
    if OUT is None:
        return
    os.makedirs(OUT, exist_ok=True)
    from optuna.storages import InMemoryStorage, JournalStorage, RDBStorage, _CachedStorage

    for cls in (InMemoryStorage, RDBStorage, JournalStorage, _CachedStorage):
        for name in API:
            setattr(cls, name, _wrap(cls, name))
    for cls in (RDBStorage, JournalStorage):
        _wrap_init(cls)


def pytest_runtest_setup(item):
    _current_test[0] = item.nodeid


def pytest_runtest_teardown(item):
    _current_test[0] = item.nodeid + "::teardown"
