"""C09 — optimisation is reproducible from the seed and independent of the storage.

Spec: specs/Functional.tla (the answers of sampler / pruner / study loop / best_trial are a function of the
storage-independent abstract history), FunctionalMC (tiny exhaustive lemma), FunctionalTrace (conformance).
The TLA+ part is deliberately thin (no sampler mathematics); the weight is on differential runs of the real code:
a scenario (seeded define-by-run program x seeded sampler x pruner) is run on several storage configurations, with and
without a pre-existing other study (trial-id offset), as one optimize call and split into several, twice on the
same configuration, and in fresh interpreters with another PYTHONHASHSEED (`python -m harness.c09` is the child).  All runs of a scenario are ONE trace; TLC finds the first answer that contradicts an earlier run.
Python only generates the programs, drives optuna and maps floats to tokens by exact bit-pattern lookup.

This module also holds the scenario generator / runner shared with C13 (harness/c13.py).
"""
from __future__ import annotations

import concurrent.futures as cf
import copy
import json
import math
import os
import random
import shutil
import struct
import subprocess
import sys
import tempfile
import time

from . import common, storage_driver as sd, tlc

CHILD_TAG = "C09CHILD "
K9_SIG = "ga-parent-cache:trial-id-used-as-list-index"
GRPC_ORDER_SIG = "grpc:trial-params-order-not-preserved"
ORDER_CONSUMERS = {"qmc", "qmc_ns", "brute"}     # samplers whose algorithm reads the ORDER of FrozenTrial.params
MC_ACTIONS = ["MCStart", "MCAsk", "MCSuggest", "MCReport", "MCPrune", "MCFinal"]
STORAGES = ["inmemory", "journal_file", "grpc_inmemory", "grpc_journal", "rdb", "cached_rdb", "grpc_rdb"]
SLOW = {"rdb", "cached_rdb", "grpc_rdb"}

SAMPLERS = ["random", "tpe", "tpe_mv", "tpe_group", "tpe_liar", "nsgaii", "nsgaiii", "qmc", "qmc_ns", "gp", "grid",
            "brute", "partial"]
PRUNERS = ["nop", "median", "pct25", "pct75", "sha", "hyperband", "patient_median", "patient_delta", "threshold",
           "wilcoxon"]
DISCRETE_ONLY = {"grid", "brute"}
MO_ONLY = {"nsgaiii"}
SO_ONLY = {"gp"}


CAT, COMMON_NAMES, THEN_NAMES, ELSE_NAME = "kind", ["alpha", "momentum"], ["depth", "dropout"], "gamma"
REPORT_OFFSETS = [1.5, -0.5, 1.0, 0.25, -1.25]      # exact dyadics, neither increasing nor decreasing
DECIMAL_OFFSETS = [3, 1, 2, 0, -1]                  # in tenths ("decimal learning curves", C13)


class ScenarioError(Exception):
    """The deterministic failure of a program (caught by optimize: the trial becomes FAIL)."""


# ---------------------------------------------------------------------------------------------------
# programs: seeded define-by-run objective descriptions (plain JSON, so that a replay file can hold one)
# ---------------------------------------------------------------------------------------------------
def _param(rng, name, discrete):
    kinds = ["int", "stepfloat", "cat", "int"] if discrete else ["float", "float", "int", "logfloat", "stepfloat",
                                                                  "logint", "cat"]
    k = rng.choice(kinds)
    if k == "float":
        lo = rng.choice([-2.0, 0.0, -0.5, 1.0])
        return {"name": name, "kind": k, "low": lo, "high": lo + rng.choice([1.0, 3.0, 4.5])}
    if k == "logfloat":
        return {"name": name, "kind": k, "low": rng.choice([0.001, 0.125, 1.0]), "high": rng.choice([2.0, 8.0, 100.0])}
    if k == "stepfloat":
        lo = rng.choice([-1.0, 0.0, 0.5])
        return {"name": name, "kind": k, "low": lo, "high": lo + rng.choice([0.5, 1.0, 1.5]), "step": 0.25 if not discrete else 0.5}
    if k == "int":
        lo = rng.choice([-3, 0, 1])
        return {"name": name, "kind": k, "low": lo, "high": lo + (rng.choice([1, 2]) if discrete else rng.choice([3, 7, 20]))}
    if k == "logint":
        return {"name": name, "kind": k, "low": 1, "high": rng.choice([16, 100])}
    return {"name": name, "kind": "cat", "choices": rng.choice([["u", "v"], ["u", "v", "w"], [1, 2.5, "s"]])}


def gen_program(rng, *, discrete=False, nobj=1, reports=None, exact=False, n_trials=10):
    """A program: `c` (categorical) first, then 1-2 common parameters, then one branch on `c`, then 0-3 reports.

    exact=True (C13): every objective / reported value is a small dyadic rational (multiples of 1/4096, magnitude
    < 64) made pairwise distinct by a term in the trial number, so that negation, percentiles at 25/50/75 and sums of
    a few of them are exact in binary floating point."""
    # multi-letter names: the iteration order of a SET of such names depends on the interpreter's string-hash seed
    common_ps = [_param(rng, COMMON_NAMES[i], discrete) for i in range(rng.choice([1, 2]))]
    then_ps = [_param(rng, THEN_NAMES[i], discrete) for i in range(1 if discrete else rng.choice([1, 2, 2]))]
    else_ps = [] if rng.random() < 0.3 else [_param(rng, ELSE_NAME, discrete)]
    w = lambda: rng.choice([0.5, -1.0, 0.25, 2.0, -0.75, 1.0])  # noqa: E731
    weights = {p["name"]: [w(), w()] for p in common_ps + then_ps + else_ps}
    weights[CAT] = [w(), w()]
    return {
        "c_choices": rng.choice([["p", "q"], ["p", "q", "r"]]),
        "common": common_ps, "then": then_ps, "else": else_ps,
        "weights": weights,
        "reports": rng.choice([0, 1, 2, 3, 3]) if reports is None else reports,
        "fail_mod": rng.choice([0, 0, 5, 7]),
        "nobj": nobj, "exact": bool(exact), "n_trials": n_trials,
        "fix": None,
    }


def _suggest(trial, p):
    k = p["kind"]
    if k == "float":
        return trial.suggest_float(p["name"], p["low"], p["high"])
    if k == "logfloat":
        return trial.suggest_float(p["name"], p["low"], p["high"], log=True)
    if k == "stepfloat":
        return trial.suggest_float(p["name"], p["low"], p["high"], step=p["step"])
    if k == "int":
        return trial.suggest_int(p["name"], p["low"], p["high"])
    if k == "logint":
        return trial.suggest_int(p["name"], p["low"], p["high"], log=True)
    return trial.suggest_categorical(p["name"], p["choices"])


def _num(p, v):
    if p["kind"] == "cat":
        return float(p["choices"].index(v))
    if p["kind"] in ("logfloat", "logint"):
        return math.log2(float(v))
    return float(v)


def grid_space(prog):
    sp = {CAT: list(prog["c_choices"])}
    for p in prog["common"] + prog["then"] + prog["else"]:
        if p["kind"] == "cat":
            sp[p["name"]] = list(p["choices"])
        elif p["kind"] == "int":
            sp[p["name"]] = list(range(p["low"], p["high"] + 1))
        elif p["kind"] == "stepfloat":
            n = int(round((p["high"] - p["low"]) / p["step"]))
            sp[p["name"]] = [p["low"] + i * p["step"] for i in range(n + 1)]
        else:
            raise ValueError(p)
    return sp


# ---------------------------------------------------------------------------------------------------
# samplers / pruners
# ---------------------------------------------------------------------------------------------------
def make_sampler(kind, seed, prog):
    import optuna.samplers as S

    if kind == "random":
        return S.RandomSampler(seed=seed)
    if kind == "tpe":
        return S.TPESampler(seed=seed, n_startup_trials=3)
    if kind == "tpe_mv":
        return S.TPESampler(seed=seed, n_startup_trials=3, multivariate=True)
    if kind == "tpe_group":
        return S.TPESampler(seed=seed, n_startup_trials=3, multivariate=True, group=True)
    if kind == "tpe_liar":
        return S.TPESampler(seed=seed, n_startup_trials=3, constant_liar=True)
    if kind == "nsgaii":
        return S.NSGAIISampler(seed=seed, population_size=4)
    if kind == "nsgaiii":
        return S.NSGAIIISampler(seed=seed, population_size=4)
    if kind == "qmc":
        return S.QMCSampler(seed=seed, scramble=True)
    if kind == "qmc_ns":
        return S.QMCSampler(seed=seed, scramble=False)
    if kind == "gp":
        return S.GPSampler(seed=seed, n_startup_trials=3)
    if kind == "grid":
        return S.GridSampler(grid_space(prog), seed=seed)
    if kind == "brute":
        return S.BruteForceSampler(seed=seed)
    if kind == "partial":
        p = prog["common"][0]
        return S.PartialFixedSampler({p["name"]: prog["fix"]}, S.TPESampler(seed=seed, n_startup_trials=3))
    raise ValueError(kind)


def fixed_value_for(p):
    if p["kind"] == "cat":
        return p["choices"][0]
    if p["kind"] in ("int", "logint"):
        return p["low"]
    if p["kind"] == "stepfloat":
        return p["low"] + p["step"]
    return p["low"] + (p["high"] - p["low"]) * 0.25


def is_ga(kind):
    """Built on BaseGASampler (the parent cache of finding K9)?  Asked of the real class."""
    import optuna.samplers as S
    from optuna.samplers._ga import BaseGASampler

    cls = {"nsgaii": S.NSGAIISampler, "nsgaiii": S.NSGAIIISampler}.get(kind)
    return cls is not None and issubclass(cls, BaseGASampler)


def make_pruner(kind, thr=None, mirror=False, wil=None, min_delta=0.25):
    """mirror=True: the configuration for the run on the negated objective (value thresholds mirrored)."""
    import optuna.pruners as P

    if kind == "nop":
        return P.NopPruner()
    if kind == "median":
        return P.MedianPruner(n_startup_trials=1, n_warmup_steps=0)
    if kind == "pct25":
        return P.PercentilePruner(25.0, n_startup_trials=1, n_warmup_steps=0)
    if kind == "pct75":
        return P.PercentilePruner(75.0, n_startup_trials=1, n_warmup_steps=0)
    if kind == "sha":
        return P.SuccessiveHalvingPruner()
    if kind == "hyperband":
        return P.HyperbandPruner(min_resource=1, max_resource=4)
    if kind == "patient_median":
        return P.PatientPruner(P.MedianPruner(n_startup_trials=1, n_warmup_steps=0), patience=1)
    if kind == "patient_delta":
        return P.PatientPruner(None, patience=1, min_delta=min_delta)
    if kind == "wilcoxon":
        return P.WilcoxonPruner(p_threshold=wil[0], n_startup_steps=wil[1])
    if kind == "threshold":
        lo, hi = thr
        if mirror:
            lo, hi = -hi, -lo
        return P.ThresholdPruner(lower=lo, upper=hi)
    raise ValueError(kind)


# ---------------------------------------------------------------------------------------------------
# one run of one scenario on one configuration (worker process)
# ---------------------------------------------------------------------------------------------------
class _Logged(Exception):
    pass


def _values(prog, number, nums):
    """The objective values f_k of a trial: a deterministic function of the parameter values (and, for exact programs,
    the trial number, which makes them pairwise distinct).  Negation for a flipped objective (C13) happens at the
    caller and is exact."""
    vals = []
    for k in range(prog["nobj"]):
        s = 0.0
        for name, x in nums:
            s += prog["weights"][name][k] * x
        if prog.get("decimal"):
            # C13 "decimal learning curves": multiples of 0.1 as the nearest doubles (not exactly representable), pairwise
            # distinct by a bijection of the trial number (n_trials <= 16); sums and differences of such values round
            s = (16.0 * max(-1.0, min(1.0, math.floor(s))) + float((number * 5) % 16)) / 10.0 * (1.0 if k == 0 else -1.0)
        elif prog.get("coarse"):
            # C13 "discrete learning curves": small integers, pairwise distinct by a bijection of the trial number
            # (n_trials <= 16), so that an interpolated percentile of the other trials often EQUALS a reported value
            q = max(-1.0, min(1.0, math.floor(s)))
            s = (16.0 * q + float((number * 5) % 16)) * (1.0 if k == 0 else -1.0)
        elif prog["exact"]:
            q = math.floor(s * 64.0) / 64.0
            q = max(-48.0, min(48.0, q))
            s = q + (number + 1) / 4096.0 * (1.0 if k == 0 else -1.0)
        inf = (prog.get("infs") or {}).get(str(number))
        if inf is not None and inf[0] == k:
            s = math.inf * inf[1]       # a diverged objective: exactly one +inf / -inf per objective, so values stay distinct
        vals.append(s)
    return vals


def _scores(prog, number, nums):
    """Instance-style programs (WilcoxonPruner's documented use): the trial is evaluated on prog["inst"] problem
    instances and reports the per-instance score with the instance id as step.  A score is an exact dyadic rational
    (multiple of 1/65536, magnitude < 64): a per-instance weighted sum of the parameter values quantised to 1/64, plus
    the instance's base level, plus a term in (trial number, instance) that makes the scores of different trials on
    one instance - and the differences between two trials over the instances - pairwise distinct."""
    out = []
    for step in range(prog["inst"]):
        s = 0.0
        for name, x in nums:
            s += prog["inst_w"][step].get(name, 0.0) * x
        q = max(-40.0, min(40.0, math.floor(s * 64.0) / 64.0))
        out.append(q + prog["inst_base"][step] + (number + 1) * (step + 1) / 65536.0)
    return out


def _stat(kind, xs):
    """The objective of an instance-style program: deliberately not always the mean of what was reported."""
    ys = sorted(xs)
    if kind == "median":
        n = len(ys)
        return ys[n // 2] if n % 2 else (ys[n // 2 - 1] + ys[n // 2]) / 2.0
    if kind == "max":
        return ys[-1]
    if kind == "min":
        return ys[0]
    if kind == "last":
        return xs[-1]
    return sum(xs) / len(xs)


def run_scenario(sc, conf, workdir):
    """Returns {"events": [...raw events with python floats...], "id_ne_number": bool}."""
    common.use_repo()
    import optuna

    prog = sc["prog"]
    flip = conf.get("flip") or [False] * prog["nobj"]
    dirs = list(conf.get("dirs") or ["minimize"] * prog["nobj"])
    ev = []
    st = {"phase": "ask", "logged": False, "id_ne": False, "order_ne": False, "names": [], "by_number": {}}
    be = sd.Backend(conf["storage"], workdir)
    try:
        storage = be.storage
        if conf.get("other"):
            o = optuna.create_study(storage=storage, study_name="other-" + sc["id"],
                                    sampler=optuna.samplers.RandomSampler(seed=1))
            o.optimize(lambda t: t.suggest_float("q", 0, 1), n_trials=conf["other"])
        sampler = make_sampler(sc["sampler"], sc["seed"], prog)
        pruner = make_pruner(sc["pruner"], sc.get("thr"), mirror=bool(flip[0]), wil=sc.get("wil"),
                             min_delta=sc.get("min_delta", 0.25))
        kw = {"direction": dirs[0]} if prog["nobj"] == 1 else {"directions": dirs}
        study = optuna.create_study(storage=storage, study_name=sc["study_name"], sampler=sampler, pruner=pruner, **kw)
        best_each = bool(conf.get("best_each"))

        def guarded(op, rec, f):
            try:
                return f()
            except (optuna.TrialPruned, ScenarioError):
                raise
            except Exception as e:  # the exception class is the observation
                rec = dict(rec)
                rec.update({"op": op, "s": type(e).__name__, "msg": str(e)[:200]})
                ev.append(rec)
                st["logged"] = True
                raise _Logged() from e

        def objective(trial):
            st["phase"] = "obj"
            ev.append({"op": "ask", "s": "ok", "n": trial.number, "id": trial._trial_id})
            st["names"] = st["by_number"].setdefault(trial.number, [])
            if trial._trial_id != trial.number:
                st["id_ne"] = True
            try:
                nums = []
                c = guarded("suggest", {"name": CAT, "val": None}, lambda: trial.suggest_categorical(CAT, prog["c_choices"]))
                ev.append({"op": "suggest", "name": CAT, "s": "ok", "val": float(prog["c_choices"].index(c))})
                st["names"].append(CAT)
                nums.append((CAT, float(prog["c_choices"].index(c))))
                ps = prog["common"] + (prog["then"] if c == prog["c_choices"][0] else prog["else"])
                for p in ps:
                    v = guarded("suggest", {"name": p["name"], "val": None}, lambda: _suggest(trial, p))
                    x = float(p["choices"].index(v)) if p["kind"] == "cat" else float(v)
                    ev.append({"op": "suggest", "name": p["name"], "s": "ok", "val": x})
                    st["names"].append(p["name"])
                    nums.append((p["name"], _num(p, v)))
                trial.set_user_attr("k", {"n": [1, "a", None], "f": 0.5})
                scores = _scores(prog, trial.number, nums) if prog.get("inst") else None
                vals = _values(prog, trial.number, nums) if scores is None else [_stat(prog["inst_obj"], scores)]
                if prog["fail_mod"] and int(math.floor(abs(vals[0]) * 1024.0)) % prog["fail_mod"] == 0:
                    raise ScenarioError("deterministic failure")
                for step in range(prog["reports"] if scores is None else len(scores)):
                    r = vals[0] + REPORT_OFFSETS[step] if scores is None else scores[step]
                    if prog.get("decimal"):
                        r = (round(vals[0] * 10.0) + DECIMAL_OFFSETS[step]) / 10.0     # again a multiple of 0.1, correctly rounded
                    r = -r if flip[0] else r
                    if prog.get("nan_mod") and (trial.number * 7 + step * 3) % prog["nan_mod"] == 0:
                        r = math.nan             # a diverged step: NaN in the maximising and in the mirrored run alike
                    trial.report(r, step)
                    ev.append({"op": "report", "step": step, "val": r})
                    ans = guarded("prune", {"step": step, "ans": -1}, trial.should_prune)
                    ev.append({"op": "prune", "step": step, "s": "ok", "ans": int(bool(ans))})
                    if ans:
                        raise optuna.TrialPruned()
                out = [(-v if flip[k] else v) for k, v in enumerate(vals)]
                return out[0] if prog["nobj"] == 1 else out
            finally:
                st["phase"] = "tell"

        def best_event():
            try:
                ns = [study.best_trial.number] if prog["nobj"] == 1 else [t.number for t in study.best_trials]
                ev.append({"op": "best", "s": "ok", "ns": ns})
            except ValueError:
                ev.append({"op": "best", "s": "ValueError", "ns": []})

        def cb(study_, ft):
            ev.append({"op": "final", "s": ft.state.name, "vals": list(ft.values or []),
                       "ps": sorted([n, _param_float(ft, n)] for n in ft.params),
                       "iv": sorted([int(k), float(v)] for k, v in ft.intermediate_values.items())})
            if best_each:
                best_event()
            st["phase"] = "ask"

        n = prog["n_trials"]
        pieces = conf.get("split") or [n]
        crashed = False
        for k in pieces:
            try:
                study.optimize(objective, n_trials=k, catch=(ScenarioError,), callbacks=[cb])
            except _Logged:
                crashed = True
            except Exception as e:
                crashed = True
                if st["phase"] == "tell":
                    ev.append({"op": "final", "s": type(e).__name__, "vals": [], "ps": [], "iv": [], "msg": str(e)[:200]})
                else:
                    ev.append({"op": "ask", "s": type(e).__name__, "n": -1, "id": -1, "msg": str(e)[:200]})
            if crashed:
                break
        if not crashed and not best_each:
            best_event()
        # bookkeeping for the classification of finding K10 only (never a verdict): did this storage hand back the
        # parameters of some trial in another order than the trial suggested them?
        try:
            for t in study.get_trials(deepcopy=False):
                if list(t.params) != st["by_number"].get(t.number, [])[: len(t.params)]:
                    st["order_ne"] = True
        except Exception:
            pass
        out = {"events": ev, "id_ne_number": st["id_ne"], "params_order_ne": st["order_ne"], "crashed": crashed}
        if conf.get("copy_to"):
            out["copies"] = [copy_and_project(sc, storage, t, workdir) for t in conf["copy_to"]]
        return out
    finally:
        be.close()


def _param_float(ft, n):
    d = ft.distributions[n]
    return float(d.to_internal_repr(ft.params[n]))


# ---------------------------------------------------------------------------------------------------
# copy_study: both sides projected field by field (no ids)
# ---------------------------------------------------------------------------------------------------
def _canon(x):
    return json.dumps(x, sort_keys=True, default=repr)


def project_study(study):
    from optuna.distributions import distribution_to_json

    def date(d):
        return "none" if d is None else d.isoformat()

    trials = []
    for ft in study.get_trials(deepcopy=False):
        trials.append({
            "number": ft.number, "state": ft.state.name,
            "values": list(ft.values or []),
            "params": sorted([n, distribution_to_json(ft.distributions[n]), _param_float(ft, n)] for n in ft.params),
            "ua": sorted([k, _canon(v)] for k, v in ft.user_attrs.items()),
            "sa": sorted([k, _canon(v)] for k, v in ft.system_attrs.items()),
            "iv": sorted([int(k), float(v)] for k, v in ft.intermediate_values.items()),
            "ts": date(ft.datetime_start), "tc": date(ft.datetime_complete),
        })
    return {"dirs": [d.name for d in study.directions],
            "ua": sorted([k, _canon(v)] for k, v in study.user_attrs.items()),
            "sa": sorted([k, _canon(v)] for k, v in study._storage.get_study_system_attrs(study._study_id).items()),
            "trials": trials}


def copy_and_project(sc, src_storage, target, workdir):
    import optuna

    be = sd.Backend(target["storage"], workdir)
    try:
        if target.get("other"):
            o = optuna.create_study(storage=be.storage, study_name="other-" + sc["id"],
                                    sampler=optuna.samplers.RandomSampler(seed=1))
            o.optimize(lambda t: t.suggest_float("q", 0, 1), n_trials=target["other"])
        src = optuna.load_study(study_name=sc["study_name"], storage=src_storage)
        src.set_user_attr("note", {"a": [1, 2.5, None]})
        try:
            optuna.copy_study(from_study_name=sc["study_name"], from_storage=src_storage, to_storage=be.storage,
                              to_study_name=sc["study_name"] + "-copy")
            dst = optuna.load_study(study_name=sc["study_name"] + "-copy", storage=be.storage)
            return {"to": target, "src": project_study(src), "dst": project_study(dst)}
        except Exception as e:
            return {"to": target, "src": project_study(src), "dst": {"dirs": [], "ua": [], "sa": [], "trials": [],
                                                                      "exc": f"{type(e).__name__}: {str(e)[:200]}"}}
    finally:
        be.close()


# ---------------------------------------------------------------------------------------------------
# tokens: exact bit-pattern lookup in a per-scenario table; token(-x) = -token(x)
# ---------------------------------------------------------------------------------------------------
class Tokens:
    def __init__(self):
        self.table = {}

    def tok(self, x):
        x = float(x)
        if math.isnan(x):
            return 0            # NaN is its own mirror image: the sign-normalised key must not depend on the direction
        else:
            key, sgn = struct.pack(">d", abs(x)), (1 if math.copysign(1.0, x) > 0 else -1)
        i = self.table.get(key)
        if i is None:
            i = self.table[key] = len(self.table) + 1
        return sgn * i

    def stok(self, s):
        key = ("s", s)
        i = self.table.get(key)
        if i is None:
            i = self.table[key] = len(self.table) + 1
        return i


def project_event(e, tk):
    op = e["op"]
    if op == "ask":
        return {"op": "ask", "s": e["s"], "n": e["n"], "id": e["id"]}
    if op == "suggest":
        return {"op": "suggest", "name": e["name"], "s": e["s"], "tok": 0 if e["val"] is None else tk.tok(e["val"])}
    if op == "report":
        return {"op": "report", "step": e["step"], "tok": tk.tok(e["val"])}
    if op == "prune":
        return {"op": "prune", "step": e["step"], "s": e["s"], "ans": e["ans"]}
    if op == "final":
        return {"op": "final", "s": e["s"], "vals": [tk.tok(v) for v in e["vals"]],
                "ps": [[n, tk.tok(v)] for n, v in e["ps"]], "iv": [[s, tk.tok(v)] for s, v in e["iv"]]}
    if op == "best":
        return {"op": "best", "s": e["s"], "ns": list(e["ns"])}
    raise ValueError(op)


def project_copy(c, tk):
    def side(p):
        return {"dirs": p["dirs"], "ua": p["ua"], "sa": p["sa"], "exc": p.get("exc", ""),
                "trials": [{"number": t["number"], "state": t["state"], "values": [tk.tok(v) for v in t["values"]],
                            "params": [[n, d, tk.tok(v)] for n, d, v in t["params"]],
                            "ua": t["ua"], "sa": t["sa"], "iv": [[s, tk.tok(v)] for s, v in t["iv"]],
                            "ts": tk.stok(t["ts"]), "tc": tk.stok(t["tc"])} for t in p["trials"]]}
    return {"op": "copy", "to": conf_label(c["to"]), "src": side(c["src"]), "dst": side(c["dst"])}


def conf_label(c):
    s = c["storage"]
    if c.get("other"):
        s += f"+other{c['other']}"
    if c.get("split"):
        s += "/split" + "+".join(map(str, c["split"]))
    if c.get("dirs"):
        s += "/" + ",".join(d[:3] for d in c["dirs"])
    if c.get("rep"):
        s += f"#{c['rep']}"
    if c.get("hashseed") is not None:
        s += f"/fresh-interpreter PYTHONHASHSEED={c['hashseed']}"
    return s


# ---------------------------------------------------------------------------------------------------
# execution of a plan on a process pool
# ---------------------------------------------------------------------------------------------------
def run_in_fresh_interpreter(sc, conf, wd):
    """The same run in a NEW interpreter whose string-hash seed is conf["hashseed"] ("every time" includes the next
    start of the script).  optuna is imported from $VERIF_REPO exactly as in this process (common.use_repo); the child
    prints its raw events as one JSON line (floats round-trip exactly through repr)."""
    env = dict(os.environ)
    env.update({"PYTHONHASHSEED": str(conf["hashseed"]), "PYTHONPATH": str(common.ROOT), "VERIF_REPO": common.repo_path(),
                "GRPC_VERBOSITY": "NONE"})
    child_conf = {k: v for k, v in conf.items() if k != "hashseed"}
    p = subprocess.run([sys.executable, "-m", "harness.c09"], input=json.dumps({"sc": sc, "conf": child_conf, "wd": wd}),
                       capture_output=True, text=True, env=env, cwd=str(common.ROOT), timeout=1800)
    for line in reversed(p.stdout.splitlines()):
        if line.startswith(CHILD_TAG):
            return json.loads(line[len(CHILD_TAG):])
    raise tlc.MachineryError(f"fresh-interpreter run of {sc['id']} failed (rc={p.returncode}):\n{p.stderr[-2000:]}")


def _child_main():
    req = json.loads(sys.stdin.read())
    r = run_scenario(req["sc"], req["conf"], req["wd"])
    r["hashseed_seen"] = os.environ.get("PYTHONHASHSEED")
    sys.stdout.write(CHILD_TAG + json.dumps(r) + "\n")


def _task(args):
    sc, conf, base = args
    wd = tempfile.mkdtemp(prefix="c09-", dir=base)
    t0 = time.time()
    try:
        r = run_in_fresh_interpreter(sc, conf, wd) if conf.get("hashseed") is not None else run_scenario(sc, conf, wd)
        r["wall"] = time.time() - t0
        return r
    finally:
        shutil.rmtree(wd, ignore_errors=True)


def execute(scenarios, workers=16):
    """scenarios: list of {"id", ..., "confs": [conf...]}; fills sc["runs"] = [result per conf]."""
    base = tlc.scratch()
    tasks = [(i, j) for i, sc in enumerate(scenarios) for j in range(len(sc["confs"]))]
    # slow ones first
    def cost(ij):
        sc = scenarios[ij[0]]
        c = sc["confs"][ij[1]]
        return ((sc["sampler"] == "gp") * 10 + (c["storage"] in SLOW) * 3 + c["storage"].startswith("grpc")
                + len(c.get("copy_to") or []) + 2 * (c.get("hashseed") is not None))
    tasks.sort(key=cost, reverse=True)
    for sc in scenarios:
        sc["runs"] = [None] * len(sc["confs"])
    with cf.ProcessPoolExecutor(max_workers=workers) as ex:
        futs = {ex.submit(_task, ({k: v for k, v in scenarios[i].items() if k not in ("confs", "runs")},
                                  scenarios[i]["confs"][j], base)): (i, j) for i, j in tasks}
        for fu in cf.as_completed(futs):
            i, j = futs[fu]
            scenarios[i]["runs"][j] = fu.result()


def build_trace(sc, tid):
    """All runs of one scenario, run after run, as one trace."""
    tk = Tokens()
    ev, owner = [], []     # owner[k] = index of the run (conf) event k belongs to, -1 for copy/end
    for j, (conf, r) in enumerate(zip(sc["confs"], sc["runs"])):
        ev.append({"op": "run", "ix": j + 1, "sign": [(-1 if d == "maximize" else 1) for d in
                                                     (conf.get("dirs") or ["minimize"] * sc["prog"]["nobj"])],
                   "cfg": conf_label(conf)})
        owner.append(j)
        for e in r["events"]:
            ev.append(project_event(e, tk))
            owner.append(j)
    for j, r in enumerate(sc["runs"]):
        for c in r.get("copies", []):
            ev.append(project_copy(c, tk))
            owner.append(-1)
    ev.append({"op": "end"})
    owner.append(-1)
    return {"tid": tid, "sc": sc["id"], "ev": ev}, owner


def sc_label(sc):
    return (f"scenario {sc['id']} sampler={sc['sampler']} pruner={sc['pruner']} sampler_seed={sc['seed']} "
            f"nobj={sc['prog']['nobj']} n_trials={sc['prog']['n_trials']}")


def classify_c09(sc, conf, ref, run, refrun):
    """Signature of the recorded finding a divergence between two runs may be an instance of (scenario family only;
    whether the finding is recorded at all is looked up in KNOWN_FINDINGS.json by the caller)."""
    if is_ga(sc["sampler"]) and (run["id_ne_number"] or refrun["id_ne_number"]):
        return K9_SIG          # parent cache of BaseGASampler + a configuration where trial id != trial number
    if (sc["sampler"] in ORDER_CONSUMERS and (conf["storage"].startswith("grpc_") or ref["storage"].startswith("grpc_"))
            and (run["params_order_ne"] or refrun["params_order_ne"])):
        return GRPC_ORDER_SIG  # sampler reads the order of FrozenTrial.params + a gRPC proxy that was seen to reorder them
    return None


def report(ctx, scenarios, traces, owners, v, classify=classify_c09):
    """Turn TLC's verdicts into VIOLATION / KNOWN-FINDING lines.  No comparison happens here."""
    divs = {}
    for p in v.prints:
        if p and p[0] == "DIV":
            divs.setdefault(p[1], []).append((p[2], p[3], p[4]))
    n_viol = 0
    for tid in sorted(v.rejected):
        sc = scenarios[tid - 1]
        tr, owner = traces[tid - 1], owners[tid - 1]
        found = sorted(set(divs.get(tid, [])))
        i = v.rejected[tid]["reached"]
        e = tr["ev"][i - 1] if 1 <= i <= len(tr["ev"]) else {}
        if e.get("op") == "copy":      # no action consumed the copy event: source and copy differ
            ctx.violation(f"{sc_label(sc)}: optuna.copy_study from inmemory to {e['to']} does not reproduce every "
                          f"field: {_first_copy_diff(e)}", {"scenario": strip_sc(sc), "kind": "copy", "to": e["to"]})
            n_viol += 1
        elif not found:
            raise tlc.MachineryError(f"trace {tid} ({sc['id']}) rejected at event {i} {e} without a divergence")
        for (l, run_ix, first_ix) in found:
            conf, ref = sc["confs"][run_ix - 1], sc["confs"][first_ix - 1]
            run = sc["runs"][run_ix - 1]
            e = tr["ev"][l - 1]
            k = sum(1 for x in range(l) if owner[x] == run_ix - 1) - 1    # position inside its run
            text = (f"{sc_label(sc)}: run on [{conf_label(conf)}] diverges from the run on [{conf_label(ref)}] at event "
                    f"#{k} {json.dumps(e)} (same abstract history, different answer)")
            sig = classify(sc, conf, ref, run, sc["runs"][first_ix - 1]) if classify else None
            f = ctx.match_known(sig) if sig else None
            if f is not None:
                ctx.known_finding(f, f"{sc['id']} {sc['sampler']} [{conf_label(conf)}] vs [{conf_label(ref)}] event #{k} "
                                     f"{e.get('op')} {e.get('s')}")
                hits = ctx.notes.setdefault("known_finding_divergences", {})
                hits[f["id"]] = hits.get(f["id"], 0) + 1
                continue
            ctx.violation(text[:1500], {"scenario": strip_sc(sc), "kind": "diverge", "confs": [ref, conf], "event": e,
                                        "event_index_in_run": k})
            n_viol += 1
            if len(ctx.violations) >= 10:
                return n_viol
    return n_viol


def _first_copy_diff(e):
    """Names the first field that differs, for the message only (TLC has already rejected the event)."""
    s, d = e["src"], e["dst"]
    if d.get("exc"):
        return "copy raised " + d["exc"]
    for f in ("dirs", "ua", "sa"):
        if s[f] != d[f]:
            return f"study field {f}"
    if len(s["trials"]) != len(d["trials"]):
        return f"{len(s['trials'])} trials became {len(d['trials'])}"
    for a, b in zip(s["trials"], d["trials"]):
        for f in a:
            if a[f] != b[f]:
                return f"trial {a['number']} field {f}"
    return "?"


def strip_sc(sc):
    return {k: v for k, v in sc.items() if k not in ("runs",)}


# ---------------------------------------------------------------------------------------------------
# plan
# ---------------------------------------------------------------------------------------------------
def compatible(sampler, pruner, nobj):
    if nobj == 2 and (pruner != "nop" or sampler in SO_ONLY):
        return False
    if nobj == 1 and sampler in MO_ONLY:
        return False
    return True


def make_scenario(rng, sid, sampler, pruner, nobj, n_trials, exact=False):
    prog = gen_program(rng, discrete=sampler in DISCRETE_ONLY, nobj=nobj, exact=exact, n_trials=n_trials,
                       reports=(rng.choice([2, 3, 3, 4]) if pruner != "nop" else None))
    if nobj == 2:
        prog["reports"] = 0
    if sampler == "partial":
        prog["fix"] = fixed_value_for(prog["common"][0])
    if sampler == "gp":
        prog["fail_mod"] = 0      # the GP needs COMPLETE trials to leave its start-up phase within a few trials
    sc = {"id": sid, "sampler": sampler, "pruner": pruner, "seed": rng.randrange(1, 10**6), "prog": prog,
          "study_name": f"study-{sid}"}
    if pruner == "threshold":
        sc["thr"] = rng.choice([[-3.0, 1.5], [-1.0, 2.75], [0.25, 6.0], [-3.0, 0.0], [0.0, 2.75], [-1.0, 0.0], [0.0, 6.0]])
    if pruner == "wilcoxon":
        # instance-style program: 6-10 instances (= steps, the same ids in every trial), some of them "easy" (high base
        # level, small weights) and some decisive (large weights); objective = median / max / min / last / mean of the
        # reported scores.  p_threshold is not a dyadic rational (exact p-values are k / 2^n).
        names = list(prog["weights"])
        prog["inst"] = rng.choice([6, 8, 10])
        prog["inst_w"] = [{n: rng.choice([0.0, 0.25, -0.25, 0.5, 1.0, -1.0, 2.0, -3.0]) * rng.choice([0.25, 1.0, 1.0, 4.0])
                           for n in names} for _ in range(prog["inst"])]
        prog["inst_base"] = [rng.choice([0.0, 0.0, 4.0, 8.0]) for _ in range(prog["inst"])]
        prog["inst_obj"] = rng.choice(["median", "median", "max", "min", "last", "mean"])
        sc["wil"] = [rng.choice([0.1, 0.2, 0.3]), rng.choice([0, 1, 2, 2])]
    return sc


def pairs_for(ctx, quick_n):
    """Sampler x pruner combinations: all of them in thorough; in quick a seeded selection in which every sampler
    meets at least two pruners and every pruner at least two samplers."""
    so = [(s, p) for s in SAMPLERS if s not in MO_ONLY for p in PRUNERS]
    mo = [(s, "nop") for s in SAMPLERS if s not in SO_ONLY]
    if not ctx.quick:
        return [(s, p, 1) for s, p in so] + [(s, p, 2) for s, p in mo]
    rng = ctx.rng
    chosen = set()
    for s in SAMPLERS:
        if s in MO_ONLY:
            continue
        chosen.add((s, "nop", 1))
        for p in rng.sample(PRUNERS[1:], 2):
            chosen.add((s, p, 1))
    for p in PRUNERS:
        for s in rng.sample([s for s in SAMPLERS if s not in MO_ONLY and s != "gp"], 2):
            chosen.add((s, p, 1))
    for s, p in mo:
        if s in MO_ONLY or s == "nsgaii" or rng.random() < 0.35:
            chosen.add((s, p, 2))
    out = sorted(chosen)
    rng.shuffle(out)
    # GP is slow: at most two scenarios in quick
    gp = [x for x in out if x[0] == "gp"]
    out = [x for x in out if x[0] != "gp"][: quick_n - 2] + gp[:2]
    return out


def confs_for(ctx, sc, k):
    """Storage configurations of scenario number k.  Reference first: in-memory, no other study, one optimize call."""
    n = sc["prog"]["n_trials"]
    rng = ctx.rng
    split2 = [rng.randint(1, n - 1)]
    split2.append(n - split2[0])
    a = rng.randint(1, n - 2)
    b = rng.randint(1, n - a - 1)
    split3 = [a, b, n - a - b]
    if sc["sampler"] == "gp" and ctx.quick:
        return [{"storage": "inmemory"}, {"storage": "inmemory", "rep": 1},
                {"storage": "journal_file", "other": 2, "split": split2}, {"storage": "inmemory", "hashseed": 1}]
    confs = [
        {"storage": "inmemory", "copy_to": []},
        {"storage": "inmemory", "rep": 1},
        {"storage": "inmemory", "other": 3, "split": split2},
        {"storage": "journal_file", "other": 2},
        {"storage": "grpc_inmemory", "split": split3},
        {"storage": "inmemory", "hashseed": 1},
        {"storage": "inmemory", "hashseed": 2, "split": split2},
    ]
    slow = ["rdb", "cached_rdb", "grpc_rdb"]
    if ctx.quick:
        extra = [slow[k % 3], "grpc_journal"][: 2 if k % 2 == 0 else 1]
        for s in extra:
            confs.append({"storage": s, "other": rng.choice([0, 2]), "split": rng.choice([None, split2])})
        if k % 3 == 0:
            confs[0]["copy_to"] = [{"storage": slow[(k // 3) % 3], "other": rng.choice([0, 2])},
                                   {"storage": rng.choice(["journal_file", "grpc_journal", "grpc_inmemory"]), "other": 1}]
    else:
        for s in STORAGES[1:]:
            confs.append({"storage": s, "other": 0, "split": split2})
            confs.append({"storage": s, "other": 2})
        confs.append({"storage": "journal_file", "rep": 1, "other": 2})
        confs.append({"storage": "rdb", "rep": 1, "other": 2})
        confs[0]["copy_to"] = [{"storage": s, "other": o} for s in STORAGES for o in (0, 2)]
    for c in confs:
        for key in ("other", "split", "rep"):
            if not c.get(key):
                c.pop(key, None)
    if not ctx.quick:
        confs.append({"storage": "journal_file", "other": 2, "hashseed": 3})
    return confs


def gp_deterministic(ctx):
    """GPSampler is only compared across configurations if two identical in-memory runs agree with each other
    (judged by TLC like everything else)."""
    rng = random.Random(ctx.seed + 77)
    sc = make_scenario(rng, "gpdet", "gp", "nop", 1, 6)
    sc["confs"] = [{"storage": "inmemory"}, {"storage": "inmemory", "rep": 1}]
    execute([sc], workers=2)
    tr, _ = build_trace(sc, 1)
    v = tlc.validate("FunctionalTrace", "FunctionalTrace", [tr])
    return 1 in v.accepted


def run(ctx):
    ctx.rule = ("scenario = seeded define-by-run program (categorical + 1-2 common parameters + one conditional branch, "
                "0-4 reports with should_prune, deterministic failure rule, user attr) x seeded sampler x pruner; each "
                "scenario is run on in-memory (twice), in-memory with another study (id offset) split in two optimize "
                "calls, journal file with another study, gRPC proxy split in three, in-memory in two FRESH interpreters with "
                "PYTHONHASHSEED=1 and 2 (one of them split), and RDB/cached RDB/gRPC->RDB/gRPC->journal; all runs of a scenario are one trace judged by TLC (FunctionalTrace); distinct = distinct "
                "(scenario, configuration) runs with at least one sampler-dependent answer")
    r = tlc.require_model("FunctionalMC", "FunctionalMC_q" if ctx.quick else "FunctionalMC_t", must_cover=MC_ACTIONS)
    ctx.model(r, "FunctionalMC")
    r = tlc.expect_violation("FunctionalMC", "FunctionalMC_rej", "NeverRejects")
    ctx.notes["rejecting_branch_reachable"] = True
    common.use_repo()
    t0 = time.time()
    use_gp = gp_deterministic(ctx)
    ctx.notes["gp_deterministic_across_identical_runs"] = use_gp
    if not use_gp:
        ctx.assumptions.append("GPSampler gave different answers in two identical in-memory runs: dropped from the comparison")
    n_trials = 8 if ctx.quick else 12
    combos = pairs_for(ctx, 46)
    scenarios = []
    for k, (s, p, nobj) in enumerate(combos):
        if s == "gp" and not use_gp:
            continue
        n = 7 if (s == "gp" and ctx.quick) else n_trials + ctx.rng.choice([0, 2, 4])
        sc = make_scenario(ctx.rng, f"s{k}", s, p, nobj, n)
        sc["confs"] = confs_for(ctx, sc, k)
        scenarios.append(sc)
    execute(scenarios)
    ctx.notes["run_wall_s"] = round(time.time() - t0, 1)
    judge(ctx, scenarios, "scenarios x configurations")
    ctx.assumptions += [
        "RDB means SQLite; the programs are deterministic functions of the suggested values (and should_prune answers)",
        "floats are compared through tokens = exact bit patterns; ids, timestamps and the order of best_trials are not compared",
        "a re-created sampler or a different seed is a different scenario (not compared)",
        "TLA+ part is thin: Functional states only functional dependence on the abstract history, no sampler mathematics",
    ]


def judge(ctx, scenarios, label, classify=classify_c09, selftest=True):
    traces, owners = [], []
    n_events = n_runs = n_copies = 0
    per_sampler, per_pruner, per_storage = {}, {}, {}
    for i, sc in enumerate(scenarios):
        tr, ow = build_trace(sc, i + 1)
        traces.append(tr)
        owners.append(ow)
        n_events += len(tr["ev"])
        n_runs += len(sc["runs"])
        n_copies += sum(len(r.get("copies", [])) for r in sc["runs"])
        per_sampler[sc["sampler"]] = per_sampler.get(sc["sampler"], 0) + 1
        per_pruner[sc["pruner"]] = per_pruner.get(sc["pruner"], 0) + 1
        for conf, r in zip(sc["confs"], sc["runs"]):
            per_storage[conf["storage"]] = per_storage.get(conf["storage"], 0) + 1
            ctx.count_case([sc["id"], sc["sampler"], sc["pruner"], sc["seed"], conf_label(conf)],
                           nontrivial=any(e["op"] in ("suggest", "prune") for e in r["events"]))
    v = tlc.validate("FunctionalTrace", "FunctionalTrace", traces, shards=16, timeout=1800)
    ctx.validated(v, label)
    ctx.notes.setdefault("counts", {}).update({
        "scenarios": len(scenarios), "runs": n_runs, "events": n_events, "copy_events": n_copies,
        "per_sampler": per_sampler, "per_pruner": per_pruner, "runs_per_storage": per_storage})
    print(f"[{ctx.pid}] {len(scenarios)} scenarios, {n_runs} runs, {n_events} events, {n_copies} copy events", flush=True)
    report(ctx, scenarios, traces, owners, v, classify=classify)
    for sc, tr in list(zip(scenarios, traces))[:3]:
        ctx.sample({"scenario": sc["id"], "sampler": sc["sampler"], "pruner": sc["pruner"],
                    "confs": [conf_label(c) for c in sc["confs"]], "first_events": tr["ev"][:12]})
    if selftest:
        good = next((t for t in traces if t["tid"] in v.accepted and sum(1 for e in t["ev"] if e["op"] == "run") >= 2), None)
        if good is not None:
            def corrupt(t):
                seen = 0
                for e in t["ev"]:
                    seen += e["op"] == "run"
                    if seen == 2 and e["op"] == "suggest":
                        e["tok"] += 100000
                        return
            ctx.binding_selftest("FunctionalTrace", "FunctionalTrace", good, corrupt, "second run: one suggested value")

            def corrupt_id(t):   # ids are NOT part of the key: changing every logged id must keep the trace accepted
                for e in t["ev"]:
                    if e["op"] == "ask":
                        e["id"] += 1000
            g2 = copy.deepcopy(good)
            corrupt_id(g2)
            vv = tlc.validate("FunctionalTrace", "FunctionalTrace", [dict(g2, tid=1)])
            if 1 not in vv.accepted:
                raise tlc.MachineryError("a trace with shifted trial ids was rejected: the key depends on ids")
            ctx.notes["id_shift_selftest"] = "accepted"
    return v


def replay(ctx, data):
    common.use_repo()
    sc = copy.deepcopy(data["scenario"])
    if data.get("kind") == "copy":
        sc["confs"] = [c for c in sc["confs"] if "copy_to" in c][:1] or sc["confs"][:1]
    else:
        sc["confs"] = data["confs"]
    execute([sc], workers=4)
    judge(ctx, [sc], "replay", selftest=False)


if __name__ == "__main__":
    _child_main()
