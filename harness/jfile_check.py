"""Shared driver of C07 (concurrent journal file) and C05 (crash durability, journal-file part)."""
from __future__ import annotations

import concurrent.futures as cf
import json
import random

from . import common, tlc
from . import jfile_replay as rp
from . import jfile_runner as jr

CONSTS = {
    "c07q": dict(Writers=[1, 2], Readers=[3], NAppends=2, NChunks=2, NReads=2),
    "c07t": dict(Writers=[1, 2], Readers=[3, 4], NAppends=2, NChunks=2, NReads=2),
    "c05q": dict(Writers=[1, 2], Readers=[3], NAppends=1, NChunks=2, NReads=2),
    "c05t": dict(Writers=[1, 2, 3], Readers=[4], NAppends=1, NChunks=2, NReads=2),
}
K4_SIG = "journal-lock:takeover-renames-live-holders-lock"


def _replay_chunk(args):
    cfg, behs, base = args
    return [rp.replay(b, CONSTS[cfg], lock_kind=["symlink", "open"][(base + i) % 2], tid=0) for i, b in enumerate(behs)]


def _random_chunk(args):
    seed, n, crash, shape = args
    rng = random.Random(seed)
    out = []
    for i in range(n):
        nw, nr, na, nrd = shape
        progs = jr.make_programs(rng, nw, nr, na, nrd)
        sub = rng.getrandbits(40)
        t = jr.run(progs, random.Random(sub), lock_kind=rng.choice(["symlink", "open"]), crash=crash,
                   max_cuts=rng.choice([0, 1, 2, 3]))
        t["replay"] = {"family": "random", "seed": seed, "index": i, "crash": crash, "shape": list(shape)}
        out.append(t)
    return out


def _cut_chunk(args):
    """crash after exactly c bytes of a record have reached the file, for every c (torn writes at every byte offset)"""
    seed, cuts = args
    out = []
    for c in cuts:
        if isinstance(c, tuple):         # (byte offset, padding of the victim's record, records the victim completed before)
            out.append(_one_cut(random.Random(seed), c[0], pad=c[1], pre=c[2]))
        else:
            out.append(_one_cut(random.Random(seed), c))
    return out


def _one_cut(rng, c, pad=5, pre=0):
    from . import jfile_shim as sh

    common.use_repo()
    world = sh.World()
    restore = sh.install(world)
    try:
        victim = world.add_worker(1, [("append", [sh.record(110 + i, 3)]) for i in range(pre)] + [("append", [sh.record(101, pad)])])
        victim.chunker = lambda n, c=c: [c] if (not isinstance(c, str) and 0 < c < n) else []
        surv = world.add_worker(2, [("append", [sh.record(201, 0)]), ("read",), ("append", [sh.record(202, 7)]), ("read",)])
        late = world.add_worker(99, [("read",), ("read",)])
        world.start()
        # the victim runs alone until c bytes are in the file; c may also name a later point of the append
        # ("fsync": everything written, "rename": about to release the lock, "unlink": lock released)
        writes = 0
        guard = 0
        crashed = False
        while not victim.finished and guard < 200:
            guard += 1
            k = victim.pending[0] if victim.pending else None
            in_append = sum(1 for e in world.events if e["e"] == "astart" and e["w"] == 1) == pre + 1
            if isinstance(c, str):
                if in_append and k == c:
                    world.kill(victim)
                    crashed = True
                    break
            elif k == "write" and in_append:
                if writes == (1 if c > 0 else 0):
                    world.kill(victim)
                    crashed = True
                    break
                writes += 1
            world.grant(victim)
        if not crashed and not victim.finished:
            world.kill(victim)
        guard = 0
        while (surv.pending is not None and not surv.finished) and guard < 3000:
            guard += 1
            if surv.pending[0] == "sleep":
                world.fs.clock[2] = world.fs.clock.get(2, 1000.0) + surv.grace + 1
                world.events.append({"e": "tick", "w": 2})
            world.grant(surv)
        if not surv.finished and not surv.dead:
            world.events.append({"e": "never_finished", "w": surv.wid})     # 3000 steps, the clock past the grace period at each sleep
        while late.pending is not None and not late.finished:
            world.grant(late)
        world.shutdown()
        return {"tid": 0, "workers": sorted(world.workers), "ev": list(world.events), "lock": "symlink",
                "replay": {"family": "cut", "cut": c, "pad": pad, "pre": pre}}
    finally:
        restore()


def pool_map(fn, tasks):
    with cf.ProcessPoolExecutor(max_workers=16) as ex:
        out = []
        for r in ex.map(fn, tasks):
            out += r
        return out


def replay_family(ctx, cfg, num, depth=90):
    behs = tlc.simulate("JournalFileMC", "JournalFileMC_" + cfg, num=num, depth=depth, seed=ctx.seed + 11)
    chunks = [(cfg, behs[i:i + 25], i) for i in range(0, len(behs), 25)]
    traces = pool_map(_replay_chunk, chunks)
    steps = sum(t["spec_steps"] for t in traces)
    matched = sum(t["matched_steps"] for t in traces)
    drifts = [t["drift"] for t in traces if t["drift"]]
    ctx.notes.setdefault("spec_to_code_replay", []).append(
        {"instance": cfg, "behaviours": len(traces), "spec_steps": steps, "steps_matched_by_code": matched,
         "drift": len(drifts)})
    for d in drifts[:3]:
        ctx.drift.append({"instance": cfg, **d})
    print(f"[{ctx.pid}] replay of {len(traces)} TLC behaviours of {cfg}: {matched}/{steps} spec steps matched by the real "
          f"code, drift={len(drifts)}", flush=True)
    for i, t in enumerate(traces):
        t["replay"] = {"family": "tlc", "cfg": cfg, "index": i, "num": num, "depth": depth}
    return traces


def judge(ctx, traces, label, allow_k4):
    for i, t in enumerate(traces):
        t["tid"] = i + 1
        ctx.count_case([t["lock"]] + [[e["e"], e["w"]] for e in t["ev"]], nontrivial=len(t["ev"]) > 10)
    slim = [{k: t[k] for k in ("tid", "workers", "ev")} for t in traces]
    v = tlc.validate("JournalFileTrace", "JournalFileTrace", slim, shards=16, timeout=2400)
    ctx.validated(v, label)
    for tid in sorted(v.rejected):
        t = traces[tid - 1]
        i = v.rejected[tid]["reached"]
        ev = t["ev"][i - 1] if 1 <= i <= len(t["ev"]) else None
        ctx.violation(f"journal file ({t['lock']} lock, {label}): event #{i} {json.dumps(ev)[:300]} is not allowed by "
                      f"JournalLog (mutual exclusion / intact log / sound read / exact cache / acknowledged append visible)",
                      {"replay": t.get("replay"), "failing_event": i, "context": t["ev"][max(0, i - 30):i]})
        if len(ctx.violations) >= 6:
            break
    flagged = {p[1] for p in v.prints if p and p[0] == "FLAG" and "K4" in p[2]}
    if flagged:
        f = ctx.match_known(K4_SIG) if allow_k4 else None
        if f is not None:
            ctx.known_finding(f, f"{len(flagged)} schedules, e.g. {traces[min(flagged) - 1].get('replay')}")
        else:
            t = traces[min(flagged) - 1]
            ctx.violation(f"journal file ({label}): a waiter renamed the lock file of a live holder (two holders)",
                          {"replay": t.get("replay"), "context": t["ev"][:80]})
    ctx.notes.setdefault("k4_flagged_schedules", 0)
    ctx.notes["k4_flagged_schedules"] += len(flagged)
    return v


def selftest(ctx, traces, v):
    good = next(t for t in traces if t["tid"] in v.accepted and any(e["e"] == "rend" and len(e["out"]) >= 2 for e in t["ev"]))
    slim = {k: good[k] for k in ("tid", "workers", "ev")}

    def drop_record(t):
        for e in t["ev"]:
            if e["e"] == "rend" and len(e["out"]) >= 2:
                e["out"] = e["out"][1:]
                return

    def bad_cache(t):
        for e in t["ev"]:
            if e["e"] == "rend" and len(e["cache"]) >= 2:
                e["cache"][-1][1] += 1
                return
    ctx.binding_selftest("JournalFileTrace", "JournalFileTrace", slim, drop_record, "read result loses a record")
    ctx.binding_selftest("JournalFileTrace", "JournalFileTrace", slim, bad_cache, "cached offset off by one")


def rerun(data):
    r = data["replay"]
    if r["family"] == "random":
        ts = _random_chunk((r["seed"], r["index"] + 1, r["crash"], tuple(r["shape"])))
        return [ts[r["index"]]]
    if r["family"] == "cut":
        return [_one_cut(random.Random(0), r["cut"], pad=r.get("pad", 5), pre=r.get("pre", 0))]
    behs = tlc.simulate("JournalFileMC", "JournalFileMC_" + r["cfg"], num=r["num"], depth=r["depth"], seed=data["seed"] + 11)
    return [rp.replay(behs[r["index"]], CONSTS[r["cfg"]], lock_kind=["symlink", "open"][r["index"] % 2])]
