"""C14 — exhaustive samplers visit every point of a finite space exactly once, then stop.

Specs: specs/BruteForce.tla (+MC, +Trace), specs/Grid.tla (+MC, +Trace).
The harness generates programs (decision trees / grids), outcome patterns, split points and seeds,
turns them into real objectives, runs the real BruteForceSampler / GridSampler under
study.optimize and writes down what the public API showed (which candidate every suggest returned,
the state of every trial, how many trials every optimize call ran, what it raised).  TLC replays
those events in the spec machine of that program and decides.

Scenario families (a family = a `fam` string in the scenario):
  bf-main       failures/prunes AT leaves, splits by n_trials, crashes (uncaught exception / Ctrl-C at
                a leaf) followed by a resume, same or fresh sampler object, both avoid_premature_stop
  bf-midtrial   a transient failure / prune BETWEEN two suggests (spec action Abort)       -> K3
  grid-main     the same for GridSampler on a flat product space
  grid-enqueue  user-enqueued trials mixed into a grid run                                -> F13
  grid-reseed   an interrupted grid run is resumed with a GridSampler(search_space, seed=<another seed>):
                grid ids recorded by the first sampler are read as positions in the second sampler's shuffle
"""
from __future__ import annotations

import json
import decimal
import itertools
import math
import os
import tempfile

from . import common, tlc

SIG_K3_RAISE = "bruteforce:midtrial-failure:ValueError-mismatch"
SIG_K3_SKIP = "bruteforce:midtrial-failure:subtree-skipped"
SIG_F13 = "grid:enqueued-trial:KeyError-grid_id"
SIG_RESEED = "grid:resume-with-different-seed:cells-duplicated-or-skipped"


# ------------------------------------------------------------------------------------------------
# programs
# ------------------------------------------------------------------------------------------------

def candidates(node):
    k, a = node["k"], node["a"]
    if k == "cat":
        return [math.nan if c == "nan!" else c for c in a["choices"]]
    if k == "int":
        return list(range(a["low"], a["high"] + 1, a.get("step", 1)))
    lo, st = decimal.Decimal(str(a["low"])), decimal.Decimal(str(a["step"]))
    n = int((decimal.Decimal(str(a["high"])) - lo) / st) + 1
    return [float(lo + i * st) for i in range(n)]


def index_of(cands, value):
    for i, c in enumerate(cands):
        if isinstance(c, float) and math.isnan(c):
            if isinstance(value, float) and math.isnan(value):
                return i
            continue
        if isinstance(value, float) and math.isnan(value):
            continue
        if type(c) is bool or type(value) is bool or c is None or value is None or isinstance(c, str) \
                or isinstance(value, str):
            if type(c) is type(value) and c == value:
                return i
        elif abs(float(c) - float(value)) < 1e-9:
            return i
    return -1


def leaf_paths(node, pre=()):
    if "ch" not in node:
        return [list(pre)]
    out = []
    for i, ch in enumerate(node["ch"]):
        out += leaf_paths(ch, pre + ({"n": node["n"], "v": i},))
    return out


def inner_depths(node, d=0):
    """depths at which an inner node exists (for the mid-trial script)"""
    if "ch" not in node:
        return set()
    s = {d}
    for ch in node["ch"]:
        s |= inner_depths(ch, d + 1)
    return s


_FAIL_HOW = ["raise", "raise", "nan", "none"]
_PRUNE_HOW = ["prune", "prune_report"]


def _leaf(rng, p_bad):
    r = rng.random()
    if r < p_bad / 2:
        return {"out": "FAIL", "how": rng.choice(_FAIL_HOW)}
    if r < p_bad:
        return {"out": "PRUNED", "how": rng.choice(_PRUNE_HOW)}
    return {"out": "COMPLETE"}


def _domain(rng, kind, k, name, cat_choices):
    if kind == "cat":
        return {"choices": cat_choices[name]}
    if kind == "int":
        step = rng.choice([1, 1, 1, 2, 3])
        low = rng.choice([-2, 0, 0, 1, 5])
        return {"low": low, "high": low + step * (k - 1), "step": step}
    if kind == "lint":      # log-scaled int (optuna requires one log setting per parameter name)
        low = rng.choice([1, 2, 5])
        return {"low": low, "high": low + k - 1, "step": 1, "log": True}
    step = rng.choice([0.5, 0.25, 0.1, 1.0, 0.05])
    low = rng.choice([0.0, -1.0, 0.1, 1.5, -0.3])
    lo, st = decimal.Decimal(str(low)), decimal.Decimal(str(step))
    return {"low": low, "high": float(lo + st * (k - 1)), "step": step}


_CAT_POOL = [["a"], ["a", "b"], ["u", "v", "w"], [True, "t"], [None, "n", 3], [0.5, "h"], ["p", "q", "r", "s"]]


def shape_to_tree(rng, shape, p_bad, names_mode):
    """shape: nested lists ([] = leaf, [s1, .., sk] = node with k children) -> typed program."""
    cat_choices = {}
    kind_of = {}

    def pick_name(kind, k, used, depth):
        if names_mode == "depth":
            pool = [f"{kind[0]}{depth}_{k}"]
        else:
            pool = [f"{kind[0]}{j}" + (f"_{k}" if kind == "cat" else "") for j in range(3)]
            rng.shuffle(pool)
        for nm in pool:
            if nm not in used and kind_of.get(nm, kind) == kind:
                return nm
        return f"{kind[0]}x{depth}_{k}_{len(used)}"

    def build(s, used, depth):
        if not s:
            return _leaf(rng, p_bad)
        k = len(s)
        kind = rng.choice(["cat", "cat", "int", "int", "lint", "float", "float"])
        name = pick_name(kind, k, used, depth)
        kind_of[name] = kind
        if kind == "cat" and name not in cat_choices:
            opts = [c for c in _CAT_POOL if len(c) == k] or [[f"o{j}" for j in range(k)]]
            cat_choices[name] = list(rng.choice(opts))
            if rng.random() < 0.15:       # NaN is a legal categorical choice; "nan!" becomes the ONE shared math.nan object
                cat_choices[name][rng.randrange(k)] = "nan!"
        node = {"n": name, "k": "int" if kind == "lint" else kind, "a": _domain(rng, kind, k, name, cat_choices)}
        node["ch"] = [build(c, used | {name}, depth + 1) for c in s]
        return node

    return build(shape, frozenset(), 0)


def all_shapes(depth, maxb):
    if depth == 0:
        return [[]]
    sub = all_shapes(depth - 1, maxb)
    out = [[]]
    for k in range(1, maxb + 1):
        for combo in itertools.product(sub, repeat=k):
            out.append(list(combo))
    return out


def random_shape(rng, depth, maxb, p_leaf):
    if depth == 0 or rng.random() < p_leaf:
        return []
    k = rng.randint(1, maxb)
    return [random_shape(rng, depth - 1, maxb, p_leaf + 0.15) for _ in range(k)]


def n_leaves_shape(s):
    return 1 if not s else sum(n_leaves_shape(c) for c in s)


# ------------------------------------------------------------------------------------------------
# running the real code
# ------------------------------------------------------------------------------------------------

class _Caught(Exception):
    pass


class _Crash(Exception):
    pass


class _OffTree(Exception):
    pass


def _mk_storage(kind, path):
    import optuna
    if kind == "sqlite":
        return optuna.storages.RDBStorage(f"sqlite:///{path}")
    if kind == "journal":
        from optuna.storages.journal import JournalFileBackend
        return optuna.storages.JournalStorage(JournalFileBackend(path))
    return optuna.storages.InMemoryStorage()


def _suggest(trial, node):
    k, a = node["k"], node["a"]
    if k == "cat":
        return trial.suggest_categorical(node["n"], _denan(a["choices"]))
    if k == "int":
        return trial.suggest_int(node["n"], a["low"], a["high"], step=a.get("step", 1), log=a.get("log", False))
    return trial.suggest_float(node["n"], a["low"], a["high"], step=a["step"])


def _leaf_action(trial, leaf, j):
    import optuna
    how = leaf.get("how")
    if leaf["out"] == "FAIL":
        if how == "nan":
            return float("nan")
        if how == "none":
            return None
        raise _Caught("leaf fails")
    if leaf["out"] == "PRUNED":
        if how == "prune_report":
            trial.report(float(j), 0)
        raise optuna.TrialPruned()
    return float(j % 5)


def _drive(sc, make_sampler, objective_factory, ev):
    """Runs the segments of scenario sc on a fresh study; appends events to ev."""
    import optuna

    tmp = None
    stkind = sc.get("storage", "mem")
    path = None
    if stkind != "mem":
        tmp = tempfile.mkdtemp(prefix="c14-", dir=tlc.scratch())
        path = os.path.join(tmp, "s.db" if stkind == "sqlite" else "j.log")
    storage = _mk_storage(stkind, path)
    common.decoy(storage, (sc.get("seed") or len(json.dumps(sc, sort_keys=True, default=str))) % 3)
    study = optuna.create_study(storage=storage, study_name="s", sampler=make_sampler(sc["seed"]))
    counters = {"j": 0}
    objective = objective_factory(counters, ev)

    def cb(st, ft):
        ev.append({"op": "finish", "st": ft.state.name})

    def n_trials_now():      # trials that were started (enqueued trials exist as WAITING before they run)
        return sum(1 for t in study.get_trials(deepcopy=False) if t.state.name != "WAITING")

    def state_of_last_started():
        for t in study.get_trials(deepcopy=False):
            if t.number == counters.get("num"):
                return t.state.name
        return "UNKNOWN"

    if sc.get("zombie"):
        study.ask()        # a worker that died right after ask(): a RUNNING trial without any parameter, for ever
    if sc.get("foreign_grid"):
        # an earlier search in the SAME study used another grid: the same value lists under other parameter names (a two-stage
        # search); its trials carry grid ids of their own, which say nothing about the grid under test
        fps = [dict(p, n="zz_" + p["n"]) for p in sc["params"]]
        fstudy = optuna.load_study(study_name="s", storage=storage,
                                   sampler=optuna.samplers.GridSampler({p["n"]: grid_values(p) for p in fps}, seed=sc["seed"]))
        fstudy.optimize(lambda t: float(len([_suggest_grid(t, p) for p in fps])),
                        n_trials=None if sc["foreign_grid"] == "full" else 1)
    dead = False
    for seg in sc["segments"]:
        if dead:
            break
        for c in seg.get("enqueue", []):
            study.enqueue_trial(dict(c["params"]))
            ev.append({"op": "enqueue"})
        how = seg.get("sampler", "same")
        if how != "same":
            if stkind != "mem" and how == "fresh":
                storage = _mk_storage(stkind, path)
            sd = sc["seed"] if how == "fresh" else sc["seed"] + (4 if how == "fresh4" else 1000)
            study = optuna.load_study(study_name="s", storage=storage, sampler=make_sampler(sd))
        remaining = seg["cap"]
        while remaining > 0:
            before = n_trials_now()
            ev.append({"op": "optimize", "cap": remaining})
            try:
                study.optimize(objective, n_trials=remaining, catch=(_Caught,), callbacks=[cb])
                ev.append({"op": "return", "ran": n_trials_now() - before})
                break
            except (_Crash, KeyboardInterrupt):
                if ev[-1]["op"] != "finish":
                    ev.append({"op": "finish", "st": state_of_last_started()})
                ran = n_trials_now() - before
                ev.append({"op": "interrupt", "ran": ran})
                remaining -= max(ran, 1)
            except Exception as e:  # anything the real code raised out of optimize
                if ev[-1]["op"] not in ("finish", "optimize"):
                    ev.append({"op": "finish", "st": state_of_last_started()})
                chain, x = [], e
                while x is not None and len(chain) < 4:      # an exception raised while handling another one hides it
                    chain.append(f"{type(x).__name__}: {x}"[:160])
                    x = x.__cause__ or x.__context__
                ev.append({"op": "raise", "exc": chain[0], "chain": " <- ".join(chain)})
                dead = True
                break
    ev.append({"op": "end"})


def run_bf(sc):
    """scenario -> trace (without tid)"""
    import optuna
    prog = sc["prog"]
    ev = []
    mid = {int(k): v for k, v in sc.get("mid", {}).items()}
    crash = {int(k): v for k, v in sc.get("crash", {}).items()}

    def make_sampler(seed):
        return optuna.samplers.BruteForceSampler(seed=seed, avoid_premature_stop=bool(sc.get("aps")))

    def factory(counters, ev):
        def objective(trial):
            j = counters["j"]
            counters["j"] += 1
            counters["num"] = trial.number
            ev.append({"op": "start"})
            node, depth = prog, 0
            while "ch" in node:
                if j in mid and mid[j]["after"] == depth:
                    if mid[j]["how"] == "PRUNED":
                        raise optuna.TrialPruned()
                    if mid[j]["how"] == "crash":
                        raise _Crash("transient crash between two suggests")
                    raise _Caught("transient failure between two suggests")
                val = _suggest(trial, node)
                idx = index_of(candidates(node), val)
                ev.append({"op": "suggest", "n": node["n"], "v": idx})
                if idx < 0:
                    raise _OffTree(f"{node['n']}={val!r} is not a candidate")
                node, depth = node["ch"][idx], depth + 1
            if j in crash:
                if crash[j] == "ki":
                    raise KeyboardInterrupt()
                raise _Crash("crash at a leaf")
            return _leaf_action(trial, node, j)
        return objective

    _drive(sc, make_sampler, factory, ev)
    return {"prog": leaf_paths(prog), "ev": ev}


def _denan(xs):
    return [math.nan if x == "nan!" else x for x in xs]      # "nan!" stands for float("nan"): scenarios are kept as JSON


def grid_values(p):
    return _denan(candidates(p)) if p["k"] != "raw" else list(p["a"]["values"])


def run_grid(sc):
    import optuna
    params = sc["params"]          # list of {"n","k","a"}; the grid values are the candidates
    order = sc.get("order") or list(range(len(params)))
    outs = sc["outs"]              # cell (as "i,j") -> leaf
    ev = []
    crash = {int(k): v for k, v in sc.get("crash", {}).items()}
    space = {p["n"]: grid_values(p) for p in params}

    def make_sampler(seed):
        return optuna.samplers.GridSampler(space, seed=seed)

    def factory(counters, ev):
        def objective(trial):
            j = counters["j"]
            counters["j"] += 1
            counters["num"] = trial.number
            ev.append({"op": "start", "enq": 1 if "fixed_params" in trial.system_attrs else 0})
            cell = [None] * len(params)
            for pi in order:
                p = params[pi]
                val = _suggest_grid(trial, p)
                cell[pi] = index_of(grid_values(p), val)
            ev.append({"op": "cell", "c": cell})
            if min(cell) < 0:
                raise _OffTree(f"off-grid value in {cell}")
            if j in crash:
                if crash[j] == "ki":
                    raise KeyboardInterrupt()
                raise _Crash("crash at a cell")
            return _leaf_action(trial, outs[",".join(map(str, cell))], j)
        return objective

    _drive(sc, make_sampler, factory, ev)
    return {"dims": [len(grid_values(p)) for p in params], "ev": ev}


def _suggest_grid(trial, p):
    k, a = p["k"], p["a"]
    if k == "cat":
        return trial.suggest_categorical(p["n"], _denan(a["choices"]))
    if k == "int":
        return trial.suggest_int(p["n"], a["low"], a["high"])
    if k == "raw":      # grid values that are not aligned with the distribution (allowed by the docstring)
        return trial.suggest_float(p["n"], a["low"], a["high"])
    return trial.suggest_float(p["n"], a["low"], a["high"], step=a["step"])


def run_scenario(sc):
    try:
        t = run_bf(sc) if sc["fam"].startswith("bf") else run_grid(sc)
    except Exception as e:  # harness problem, never a verdict
        return {"error": f"{type(e).__name__}: {e}"}
    return t


def _pool_init(repo):
    os.environ["VERIF_REPO"] = repo
    common.use_repo()


# ------------------------------------------------------------------------------------------------
# scenario generation
# ------------------------------------------------------------------------------------------------

def _segments(rng, n_leaves, allow_fresh2):
    """caps of the interrupted calls sum to < n_leaves; the last call gets a generous cap."""
    segs = []
    budget = n_leaves - 1
    nseg = rng.choice([1, 1, 2, 2, 3])
    for _ in range(nseg - 1):
        if budget <= 0:
            break
        k = rng.randint(1, budget)
        budget -= k
        segs.append({"cap": k})
    segs.append({"cap": n_leaves + 3})
    for s in segs[1:]:
        s["sampler"] = rng.choice(["same", "fresh", "fresh"] + (["fresh2"] if allow_fresh2 else []))
    return segs


def gen_bf(ctx, shape, fam, names_mode=None):
    rng = ctx.rng
    p_bad = rng.choice([0.0, 0.3, 0.6, 1.0])
    prog = shape_to_tree(rng, shape, p_bad, names_mode or rng.choice(["depth", "shared", "shared"]))
    L = n_leaves_shape(shape)
    sc = {"fam": fam, "prog": prog, "seed": rng.choice([None, 0, 1, 2, 3, 7, 42, rng.randint(0, 10**6)]),
          "aps": rng.random() < 0.35, "segments": _segments(rng, L, True)}
    if sc["seed"] is None:
        sc["seed"] = rng.randint(0, 2**31 - 1)
    r = rng.random()
    has_nan = "nan!" in json.dumps(prog)
    if r < 0.01 or (has_nan and r < 0.2):
        sc["storage"] = "sqlite"
    elif r < 0.08 or (has_nan and r < 0.7):      # a stored NaN comes back as a NEW object per trial
        sc["storage"] = "journal"
    if fam == "bf-main":
        if rng.random() < 0.25:
            sc["zombie"] = 1
        if L >= 3 and rng.random() < 0.3:
            for j in rng.sample(range(0, L - 1), rng.randint(1, min(2, L - 1))):
                sc.setdefault("crash", {})[str(j)] = rng.choice(["crash", "ki"])
    else:
        depths = sorted(inner_depths(prog))
        for j in rng.sample(range(0, L + 1), rng.randint(1, min(2, L + 1))):
            sc.setdefault("mid", {})[str(j)] = {"after": rng.choice(depths), "how": rng.choice(["FAIL", "FAIL", "PRUNED"])}
    return sc


def gen_grid(ctx, fam):
    rng = ctx.rng
    while True:
        d = rng.choice([1, 1, 2, 2, 3])
        sizes = [rng.randint(1, 4) for _ in range(d)]
        n = math.prod(sizes)
        if n <= 12 and (fam == "grid-main" or n >= 2):
            break
    params = []
    cat_choices = {}
    for i, k in enumerate(sizes):
        kind = rng.choice(["cat", "int", "float", "raw"])
        name = f"{kind[0]}{i}"
        if kind == "cat":
            opts = [c for c in _CAT_POOL if len(c) == k] or [[f"o{j}" for j in range(k)]]
            cat_choices[name] = list(rng.choice(opts))
            if rng.random() < 0.2:      # a categorical grid may contain NaN (tests/samplers_tests/test_grid.py::test_nan)
                cat_choices[name][rng.randrange(k)] = "nan!"
            a = {"choices": cat_choices[name]}
        elif kind == "int":
            low = rng.choice([-2, 0, 1])
            a = {"low": low, "high": low + k - 1}
        elif kind == "raw":
            vals = rng.sample([-50, -0.5, 0, 0.5, 1, 7.25, 50, 99], k)
            a = {"low": -100.0, "high": 100.0, "values": vals}
        else:
            a = _domain(rng, "float", k, name, cat_choices)
        params.append({"n": name, "k": kind, "a": a})
    p_bad = rng.choice([0.0, 0.3, 0.6, 1.0])
    outs = {",".join(map(str, c)): _leaf(rng, p_bad) for c in itertools.product(*[range(k) for k in sizes])}
    order = list(range(d))
    rng.shuffle(order)
    seed = rng.choice([None, 0, 1, 2, 7, 42, rng.randint(0, 10**6)])
    sc = {"fam": fam, "params": params, "outs": outs, "order": order, "seed": seed,
          "segments": _segments(rng, n, False)}
    if fam == "grid-reseed":
        sc["seed"] = rng.randint(0, 50)
        if len(sc["segments"]) == 1:
            sc["segments"].insert(0, {"cap": rng.randint(1, n - 1)})
        for s_ in sc["segments"][1:]:
            s_["sampler"] = "fresh2"
    elif fam == "grid-main":
        if rng.random() < 0.3:
            sc["foreign_grid"] = rng.choice(["full", "one"])
        if n >= 3 and rng.random() < 0.3:
            for j in rng.sample(range(0, n - 1), rng.randint(1, min(2, n - 1))):
                sc.setdefault("crash", {})[str(j)] = rng.choice(["crash", "ki"])
        r = rng.random()
        has_nan = any(p["k"] == "cat" and "nan!" in p["a"]["choices"] for p in params)
        if r < 0.01 or (has_nan and r < 0.2):
            sc["storage"] = "sqlite"
        elif r < 0.08 or (has_nan and r < 0.7):      # NaN survives JSON / SQL differently from an object kept in memory
            sc["storage"] = "journal"
    else:
        # user-enqueued full combinations before some of the calls (at most 2 in total)
        left = 2
        for s in sc["segments"]:
            if left and rng.random() < 0.6:
                m = rng.randint(1, left)
                left -= m
                s["enqueue"] = []
                for _ in range(m):
                    cell = [rng.randrange(k) for k in sizes]
                    s["enqueue"].append({"params": {p["n"]: grid_values(p)[ci] for p, ci in zip(params, cell)}})
        if left == 2:
            cell = [rng.randrange(k) for k in sizes]
            sc["segments"][-1]["enqueue"] = [{"params": {p["n"]: grid_values(p)[ci] for p, ci in zip(params, cell)}}]
        # the interrupted calls must not be able to exhaust the grid: enqueued trials use up cap as well
    return sc


def f13_scenario():
    params = [{"n": "x", "k": "int", "a": {"low": 0, "high": 2}}]
    outs = {str(i): {"out": "COMPLETE"} for i in range(3)}
    return {"fam": "grid-enqueue", "params": params, "outs": outs, "order": [0], "seed": None,
            "segments": [{"cap": 2}, {"cap": 6, "sampler": "same", "enqueue": [{"params": {"x": 1}}]}]}


def reseed_scenario():
    params = [{"n": "x", "k": "int", "a": {"low": 0, "high": 3}}]
    outs = {str(i): {"out": "COMPLETE"} for i in range(4)}
    return {"fam": "grid-reseed", "params": params, "outs": outs, "order": [0], "seed": 0,
            "segments": [{"cap": 2}, {"cap": 7, "sampler": "fresh4"}]}


def k3_scenario():
    prog = {"n": "c", "k": "cat", "a": {"choices": ["a", "b"]}, "ch": [
        {"n": "x", "k": "int", "a": {"low": 0, "high": 1}, "ch": [{"out": "COMPLETE"}, {"out": "COMPLETE"}]},
        {"n": "y", "k": "int", "a": {"low": 0, "high": 1}, "ch": [{"out": "COMPLETE"}, {"out": "COMPLETE"}]}]}
    return {"fam": "bf-midtrial", "prog": prog, "seed": 0, "aps": False, "segments": [{"cap": 7}],
            "mid": {"2": {"after": 1, "how": "FAIL"}, "3": {"after": 1, "how": "FAIL"}}}


# ------------------------------------------------------------------------------------------------
# judging
# ------------------------------------------------------------------------------------------------

SPEC_OF = {"bf": ("BruteForceTrace", "BruteForceTrace"), "grid": ("GridTrace", "GridTrace")}


def _describe(sc, trace, info):
    ev = trace["ev"]
    at = info["reached"]
    e = ev[at - 1] if 1 <= at <= len(ev) else None
    space = trace.get("prog") if "prog" in trace else trace.get("dims")
    trials = []
    cur = None
    for x in ev:
        if x["op"] == "start":
            cur = []
        elif x["op"] == "suggest" and cur is not None:
            cur.append(f"{x['n']}={x['v']}")
        elif x["op"] == "cell":
            cur = [str(x["c"])]
        elif x["op"] == "finish":
            trials.append(("/".join(cur or []), x["st"]))
            cur = None
    return (f"family {sc['fam']}: event #{at} {e} is not explained by the spec; seed={sc.get('seed')} "
            f"segments={[(s['cap'], s.get('sampler', 'same'), len(s.get('enqueue', []))) for s in sc['segments']]} "
            f"crash={sc.get('crash')} mid={sc.get('mid')} aps={sc.get('aps')} storage={sc.get('storage', 'mem')} "
            f"space={space} trials={trials}")


def _aborted_before(trace, at):
    """did a trial end between two suggests (at an inner node of the program) before event number `at`?"""
    leaves = {tuple((x["n"], x["v"]) for x in p) for p in trace["prog"]}
    path = ()
    for x in trace["ev"][:at - 1]:
        if x["op"] == "start":
            path = ()
        elif x["op"] == "suggest":
            path += ((x["n"], x["v"]),)
        elif x["op"] == "finish" and path not in leaves:
            return True
    return False


def _signature(sc, trace, info):
    """Which known defect (if any) a rejected trace of the two special families shows -- by its symptom."""
    ev = trace["ev"]
    at = info["reached"]
    e = ev[at - 1] if 1 <= at <= len(ev) else {}
    if sc["fam"] == "bf-midtrial":
        if e.get("op") == "raise" and "ValueError: param_name mismatch" in e.get("chain", ""):
            return SIG_K3_RAISE
        # a trial ended between two suggests before the rejected event and the sampler took that inner node for a
        # visited leaf: premature stop ("return"), or a duplicate when the user resumes the "finished" study ("suggest")
        if e.get("op") in ("return", "suggest") and _aborted_before(trace, at):
            return SIG_K3_SKIP
    if sc["fam"] == "grid-enqueue":
        if e.get("op") == "raise" and "KeyError: 'grid_id'" in e.get("chain", ""):
            return SIG_F13
    if sc["fam"] == "grid-reseed":
        # after the first call every call uses a sampler of another seed: a cell evaluated again ("cell"), a stop with
        # cells left ("return"), or both
        if e.get("op") in ("cell", "return") and any(x["op"] in ("return", "interrupt") for x in ev[:at - 1]):
            return SIG_RESEED
    return None


def judge(ctx, scs, traces, label, shards=5):
    """scs[i] produced traces[i]; validates per spec module (both modules at once), reports rejections."""
    import concurrent.futures as cf
    n_viol = 0
    per_kind = {}
    work = []
    for key, (mod, cfg) in SPEC_OF.items():
        idx = [i for i, sc in enumerate(scs) if sc["fam"].startswith(key)]
        if not idx:
            continue
        batch = []
        for i in idx:
            t = dict(traces[i])
            t["tid"] = i + 1
            batch.append(t)
        work.append((key, mod, cfg, batch))
    with cf.ThreadPoolExecutor(max_workers=max(1, len(work))) as ex:
        futs = [ex.submit(tlc.validate, mod, cfg, batch, shards=shards, timeout=900) for _, mod, cfg, batch in work]
        vals = [f.result() for f in futs]
    for (key, mod, cfg, batch), v in zip(work, vals):
        ctx.validated(v, f"{label}:{key}")
        for tid in sorted(v.rejected):
            sc, tr, info = scs[tid - 1], traces[tid - 1], v.rejected[tid]
            if info["reached"] == 0:
                raise tlc.MachineryError(f"trace {tid} rejected before its first event (ill-formed program?): {sc}")
            text = _describe(sc, tr, info)
            sig = _signature(sc, tr, info)
            f = ctx.match_known(sig) if sig else None
            if f:
                ctx.known_finding(f, text[:400])
                ctx.notes.setdefault("known_finding_traces", {}).setdefault(sig, 0)
                ctx.notes["known_finding_traces"][sig] += 1
            else:
                n_viol += 1
                k = (sc["fam"], sig)
                per_kind[k] = per_kind.get(k, 0) + 1
                if per_kind[k] <= 3 and len(ctx.violations) < 12:
                    ctx.violation((f"[{sig}] " if sig else "") + text, {"scenario": sc, "trace": tr, "spec": mod,
                                                                        "signature": sig})
    return n_viol


def _make_pool():
    import multiprocessing as mp
    nproc = int(os.environ.get("VERIF_C14_PROCS", "8"))
    if nproc <= 1:
        return None
    tlc.scratch()        # children inherit the scratch root (cleaned by the parent)
    return mp.get_context("fork").Pool(nproc, initializer=_pool_init, initargs=(common.repo_path(),))


def _run_all(scs, pool):
    if pool is None:
        common.use_repo()
        res = [run_scenario(sc) for sc in scs]
    else:
        res = pool.map(run_scenario, scs, chunksize=16)
    for sc, t in zip(scs, res):
        if "error" in t:
            raise tlc.MachineryError(f"harness failed on scenario {sc}: {t['error']}")
    return res


MC_BF_COVER = ["MCOptimize", "MCStartTrial", "MCSuggest", "MCFinish", "MCReturnSelf", "MCInterrupt"]


def _model_jobs(quick):
    jobs = [
        ("BruteForceMC_q2 (depth<=2, branching<=2, splits, 1 mid-trial abort, liveness)", "req", "BruteForceMC",
         "BruteForceMC_q2", MC_BF_COVER + ["MCAbort", "MCReturnCap"]),
        (("BruteForceMC_q (depth<=3, branching<=2, <=5 leaves)" if quick else "BruteForceMC_t (depth<=3, branching<=2)"),
         "req", "BruteForceMC", "BruteForceMC_q" if quick else "BruteForceMC_t", MC_BF_COVER),
        ("model_level_K3", "exp", "BruteForceMC", "BruteForceMC_k3", "AlgAgreesAlways"),
        ("GridMC_q (<=4 cells, splits, <=2 enqueued trials, liveness)", "req", "GridMC", "GridMC_q",
         ["MCEnqueue", "MCOptimize", "MCStartTrial", "MCAssign", "MCFinish", "MCReturnSelf", "MCReturnCap", "MCInterrupt"]),
        ("GridAlgMC_q (grid_id bookkeeping and stop rule of the code, no enqueued trials)", "req", "GridAlgMC",
         "GridAlgMC_q", ["AOptimize", "AStart", "AFinish", "AReturn", "AInterrupt"]),
        ("model_level_F13", "exp", "GridAlgMC", "GridAlgMC_f13", "NoError"),
    ]
    if not quick:
        jobs.append(("BruteForceMC_t3 (depth<=2, branching<=3)", "req", "BruteForceMC", "BruteForceMC_t3", MC_BF_COVER))
    return jobs


def _scenarios(ctx):
    quick = ctx.quick
    rng = ctx.rng
    scs = []
    shapes = all_shapes(3, 2)                         # the 183 shapes of BruteForceMC_t, each typed at random
    for _ in range(1 if quick else 6):
        for s in shapes:
            scs.append(gen_bf(ctx, s, "bf-main"))
    for _ in range(1400 if quick else 12000):
        while True:
            s = random_shape(rng, rng.choice([2, 3, 3, 4]), 3, 0.05)
            if 2 <= n_leaves_shape(s) <= (12 if quick else 16):
                break
        scs.append(gen_bf(ctx, s, "bf-main"))
    scs.append(k3_scenario())
    for _ in range(100 if quick else 1500):
        while True:
            s = random_shape(rng, rng.choice([2, 3]), 3, 0.05)
            if s and 2 <= n_leaves_shape(s) <= 9:
                break
        scs.append(gen_bf(ctx, s, "bf-midtrial"))
    for _ in range(1000 if quick else 8000):
        scs.append(gen_grid(ctx, "grid-main"))
    scs.append(f13_scenario())
    for _ in range(100 if quick else 1500):
        scs.append(gen_grid(ctx, "grid-enqueue"))
    scs.append(reseed_scenario())
    for _ in range(40 if quick else 500):
        scs.append(gen_grid(ctx, "grid-reseed"))
    return scs


def _dup_trial(t):             # the last trial is evaluated once more before optimize returns
    ev = t["ev"]
    starts = [i for i, e in enumerate(ev) if e["op"] == "start"]
    fin = max(i for i, e in enumerate(ev) if e["op"] == "finish")
    ev[fin + 1:fin + 1] = [dict(e) for e in ev[starts[-1]:fin + 1]]
    [e for e in ev if e["op"] == "return"][-1]["ran"] += 1


def _early_stop(t):            # the last trial never happened: optimize returned before the last leaf
    ev = t["ev"]
    starts = [i for i, e in enumerate(ev) if e["op"] == "start"]
    fin = max(i for i, e in enumerate(ev) if e["op"] == "finish")
    del ev[starts[-1]:fin + 1]
    [e for e in ev if e["op"] == "return"][-1]["ran"] -= 1


def run(ctx):
    import concurrent.futures as cf
    ctx.rule = ("a case = (program tree or grid, leaf outcome pattern, split of the run into optimize calls, "
                "crash points, seed, sampler options/renewal, storage) run on the real sampler under study.optimize; "
                "its event trace is replayed by TLC in BruteForce.tla / Grid.tla; distinct = distinct scenarios "
                "with at least 2 leaves/cells")
    quick = ctx.quick
    pool = _make_pool()                     # fork the scenario workers before any thread exists

    # ---- spec level: the TLC runs are independent of each other and of the scenarios; started now, collected below
    jobs = _model_jobs(quick)

    def one(job):
        label, kind, mod, cfg, arg = job
        if kind == "req":
            return tlc.require_model(mod, cfg, must_cover=arg, timeout=3000, workers=4 if quick else 8)
        return tlc.expect_violation(mod, cfg, arg, timeout=600, workers=2)

    mc_ex = cf.ThreadPoolExecutor(max_workers=len(jobs))
    mc_futs = [mc_ex.submit(one, j) for j in jobs]

    # ---- conformance
    try:
        scs = _scenarios(ctx)
        traces = _run_all(scs, pool)
    finally:
        if pool is not None:
            pool.close()
            pool.join()
    fams = {}
    for sc, t in zip(scs, traces):
        size = len(t["prog"]) if "prog" in t else math.prod(t["dims"])
        ctx.count_case({"sc": sc}, nontrivial=size >= 2)
        f = fams.setdefault(sc["fam"], {"scenarios": 0, "trials": 0, "events": 0})
        f["scenarios"] += 1
        f["trials"] += sum(1 for e in t["ev"] if e["op"] == "start")
        f["events"] += len(t["ev"])
    ctx.notes["families"] = fams
    print(f"[C14] ran {len(scs)} scenarios on the real samplers: {fams}", flush=True)
    # binding self-tests (a corrupted observation must be rejected) run next to the main validation
    def first(fam):
        for sc, t in zip(scs, traces):
            if (sc["fam"] == fam and len(sc["segments"]) == 1 and not sc.get("crash")
                    and sum(e["op"] == "start" for e in t["ev"]) >= 3 and t["ev"][-2]["op"] == "return"
                    and not any(e["op"] == "raise" for e in t["ev"])):
                return t
        raise tlc.MachineryError(f"no trace for the binding self-test of {fam}")

    tb, tg = first("bf-main"), first("grid-main")
    tests = [("BruteForceTrace", tb, _dup_trial, "leaf evaluated twice"),
             ("BruteForceTrace", tb, _early_stop, "stopped one trial early"),
             ("GridTrace", tg, _dup_trial, "cell evaluated twice"),
             ("GridTrace", tg, _early_stop, "stopped one trial early")]
    st_ex = cf.ThreadPoolExecutor(max_workers=len(tests))
    st_futs = [st_ex.submit(ctx.binding_selftest, m, m, t, c, lab) for m, t, c, lab in tests]
    judge(ctx, scs, traces, "real")
    for i in (0, 200, 400, len(scs) - 5):
        if 0 <= i < len(scs):
            ctx.sample({"scenario": scs[i], "events": traces[i]["ev"][:40]})
    if not ctx.violations:       # (with violations the picked trace itself may be a rejected one)
        for f in st_futs:
            f.result()
    st_ex.shutdown()

    # ---- spec-level results
    results = [f.result() for f in mc_futs]
    mc_ex.shutdown()
    for job, r in zip(jobs, results):
        if job[1] == "req":
            ctx.model(r, job[0])
    ctx.notes["model_level_K3"] = ("BruteForceMC_k3: the modelled tree bookkeeping of the code disagrees with the property "
                                   "as soon as a trial ends between two suggests (AlgAgreesAlways violated, as expected)")
    ctx.notes["model_level_F13"] = ("GridAlgMC_f13: with an enqueued trial the modelled after_trial reads a grid_id that "
                                    "does not exist (NoError violated, as expected)")
    ctx.assumptions += [
        "sequential optimize (n_jobs=1), one worker; candidate values are projected to their index in the declared "
        "candidate list (floats matched within 1e-9)",
        "a failed/pruned trial that reached a leaf counts as the evaluation of that leaf (code: finished trials mark the "
        "leaf); the trial state itself is not judged here (C02)",
        "interruptions are n_trials caps and uncaught exceptions / KeyboardInterrupt raised at a leaf; the interrupted "
        "calls cannot exhaust the space (sum of their caps < number of leaves); a resume after exhaustion is outside "
        "the property",
        "one parameter name keeps its kind / log flag / categorical choices across branches (optuna rejects anything else)",
        "resume with a fresh GridSampler uses the same seed (grid ids are positions in the seed-shuffled grid)",
        "enqueued trials (grid) are not sampler choices: they are neither duplicates nor required to count as visits",
        "mid-trial failures are transient (depend on the trial ordinal, not on the parameters); spec action Abort",
    ]


def replay(ctx, data):
    common.use_repo()
    sc = data["scenario"]
    t = run_scenario(sc)
    if "error" in t:
        raise tlc.MachineryError(t["error"])
    judge(ctx, [sc], [t], "replay")
