"""H3 — syscall-shim file system and deterministic scheduler for optuna.storages.journal._file.

The module globals `os`, `open`, `time`, `uuid` of the real module are rebound to shims over an in-memory
file system.  Every shim call is a yield point: a worker thread announces the call it is about to make
(`pending`) and blocks until the scheduler grants it; the effect then happens atomically and is logged.
Exactly one thread runs at a time, so an execution is fully determined by the sequence of grants, the
chunking of writes and the clock — all chosen by the caller (random policy or a TLC behaviour).

A crash is "never let this worker take another step": the pending call raises `Killed` (a BaseException)
WITHOUT being performed, and every later shim call of that worker raises immediately without any effect, so
the `finally:` clauses that unwind in the thread cannot touch the file system — exactly what SIGKILL leaves.
"""
from __future__ import annotations

import errno
import json
import threading
import types


class Killed(BaseException):
    pass


class FS:
    def __init__(self):
        self.files = {}      # path -> bytearray
        self.locks = {}      # path -> generation (identity / mtime of the lock file or symlink)
        self.next_gen = 1
        self.clock = {}          # per-process monotonic clocks (worker id -> seconds)
        self.uuid_n = 0


class World:
    """One simulated machine: FS + workers + scheduler state + event log."""

    def __init__(self, file_path="/j/journal.log"):
        self.fs = FS()
        self.path = file_path
        self.events = []
        self.cv = threading.Condition()
        self.workers = {}
        self.current = None          # worker allowed to run right now
        self.tl = threading.local()
        self.rec_of_bytes = {}       # encoded record line -> rid

    # ------------------------------------------------------------------ worker-side protocol
    def me(self) -> "Worker":
        return self.tl.worker

    def yield_point(self, kind, info=None):
        """Called by shims in worker threads before performing a call."""
        w = self.me()
        if w.dead:
            raise Killed()
        with self.cv:
            w.pending = (kind, info)
            self.current = None
            self.cv.notify_all()
            while self.current is not w:
                self.cv.wait()
            w.pending = None
            if w.dead:
                raise Killed()

    def log(self, ev):
        ev["w"] = self.me().wid if getattr(self.tl, "worker", None) else ev.get("w")
        self.events.append(ev)

    # ------------------------------------------------------------------ scheduler-side
    def add_worker(self, wid, program, lock_kind="symlink", grace=30):
        w = Worker(self, wid, program, lock_kind, grace)
        self.workers[wid] = w
        return w

    def start(self):
        for w in self.workers.values():
            w.thread.start()
        for w in self.workers.values():     # run each up to its first yield point
            self._wait_blocked(w)

    def _wait_blocked(self, w):
        with self.cv:
            while not (w.pending is not None or w.finished):
                self.cv.wait()

    def runnable(self):
        return [w for w in self.workers.values() if not w.finished and not w.dead and w.pending is not None]

    def grant(self, w):
        """Let worker w perform its pending call and run until its next yield point (or the end)."""
        assert w.pending is not None and not w.finished
        with self.cv:
            self.current = w
            self.cv.notify_all()
            while not ((w.pending is not None and self.current is None) or w.finished):
                self.cv.wait()

    def kill(self, w):
        w.dead = True
        self.events.append({"e": "crash", "w": w.wid})
        with self.cv:
            self.current = w
            self.cv.notify_all()
            while not w.finished:
                self.cv.wait()
            self.current = None

    def shutdown(self):
        for w in self.workers.values():
            if not w.finished:
                w.dead = True
                with self.cv:
                    self.current = w
                    self.cv.notify_all()
                    while not w.finished:
                        self.cv.wait()
                    self.current = None
        for w in self.workers.values():
            w.thread.join(timeout=5)


class Worker:
    def __init__(self, world: World, wid: int, program, lock_kind, grace):
        self.world = world
        self.wid = wid
        self.program = program
        self.lock_kind = lock_kind
        self.grace = grace
        self.pending = None
        self.finished = False
        self.dead = False
        self.consumed = 0            # log_number_read of the journal storage on top of this backend
        self.backend = None
        self.chunker = lambda n: []  # cut offsets for a buffered write of n bytes
        self.thread = threading.Thread(target=self._run, name=f"w{wid}", daemon=True)

    def _run(self):
        world = self.world
        world.tl.worker = self
        try:
            from optuna.storages.journal import _file as F

            world.yield_point("init")
            lock = (F.JournalFileSymlinkLock if self.lock_kind == "symlink" else F.JournalFileOpenLock)(
                world.path, grace_period=self.grace)
            self.backend = F.JournalFileBackend(world.path, lock_obj=lock)
            for call in self.program:
                world.yield_point("call")          # the call boundary is a schedulable step of its own
                if call[0] == "append":
                    recs = call[1]
                    world.log({"e": "astart", "recs": [r["rid"] for r in recs]})
                    try:
                        self.backend.append_logs(recs)
                        world.log({"e": "aend", "ok": 1, "err": "none"})
                    except Killed:
                        raise
                    except Exception as ex:  # noqa
                        world.log({"e": "aend", "ok": 0, "err": type(ex).__name__})
                else:
                    frm = self.consumed
                    world.log({"e": "rstart", "from": frm})
                    try:
                        out = self.backend.read_logs(frm)
                        self.consumed += len(out)
                        world.log({"e": "rend", "out": [o.get("rid", -1) if isinstance(o, dict) else -1 for o in out],
                                   "err": "none", "cache": self._cache()})
                    except Killed:
                        raise
                    except Exception as ex:  # noqa
                        world.log({"e": "rend", "out": [], "err": type(ex).__name__, "cache": self._cache()})
        except Killed:
            pass
        finally:
            with world.cv:
                self.finished = True
                self.pending = None
                if world.current is self:
                    world.current = None
                world.cv.notify_all()

    def _cache(self):
        return sorted([int(k), int(v)] for k, v in self.backend._log_number_offset.items())


# ---------------------------------------------------------------------------------------------------
# the shims
# ---------------------------------------------------------------------------------------------------
def _pieces(world: World, data: bytes, base_rec_state):
    """Split a delivered chunk into per-record pieces [rid, a, b, n] using the writer's record table."""
    out = []
    recs, pos = base_rec_state      # recs: list of (rid, nbytes); pos: bytes of this buffer already delivered
    off = 0
    start = pos
    end = pos + len(data)
    for rid, n in recs:
        lo, hi = off, off + n
        a, b = max(lo, start), min(hi, end)
        if a < b:
            out.append({"r": rid, "a": a - lo, "b": b - lo, "n": n})
        off = hi
    return out


class AppendFile:
    def __init__(self, world, path):
        self.world, self.path = world, path
        self.buf = b""

    def __enter__(self):
        return self

    def __exit__(self, *a):
        self.close()
        return False

    def write(self, data: bytes):
        self.buf += data
        return len(data)

    def fileno(self):
        return 7

    def flush(self):
        world = self.world
        data, self.buf = self.buf, b""
        if not data:
            return
        # which records does this buffer hold? (lines of the encoded batch)
        recs = []
        for line in data.split(b"\n")[:-1]:
            rid = json.loads(line).get("rid", -1)
            recs.append((rid, len(line) + 1))
        cuts = sorted(set(c for c in world.me().chunker(len(data)) if 0 < c < len(data)))
        pos = 0
        for c in cuts + [len(data)]:
            chunk = data[pos:c]
            world.yield_point("write", len(chunk))
            world.fs.files[self.path] += chunk
            world.log({"e": "write", "pieces": _pieces(world, chunk, (recs, pos))})
            pos = c

    def close(self):
        self.flush()


class ReadFile:
    def __init__(self, world, path):
        self.world, self.path = world, path
        self.pos = 0

    def __enter__(self):
        return self

    def __exit__(self, *a):
        return False

    def seek(self, off):
        self.pos = off
        self.world.log({"e": "seek", "off": off})

    def __iter__(self):
        return self

    def __next__(self):
        world = self.world
        world.yield_point("readline")
        data = world.fs.files[self.path]
        if self.pos >= len(data):
            world.log({"e": "readline", "n": 0, "nl": 0})
            raise StopIteration
        i = data.find(b"\n", self.pos)
        end = len(data) if i < 0 else i + 1
        line = bytes(data[self.pos:end])
        self.pos = end
        world.log({"e": "readline", "n": len(line), "nl": int(i >= 0)})
        return line


class UpdateFile:
    """open(path, "rb+"): seek / read / truncate (used to inspect and drop an unterminated tail)."""

    def __init__(self, world, path):
        self.world, self.path = world, path
        self.pos = 0

    def __enter__(self):
        return self

    def __exit__(self, *a):
        return False

    def seek(self, off, whence=0):
        if whence == 2:
            self.world.yield_point("seek_end")
            self.pos = len(self.world.fs.files[self.path]) + off
            self.world.log({"e": "stat_size", "size": self.pos})
        else:
            self.pos = off
        return self.pos

    def tell(self):
        return self.pos

    def read(self, n=-1):
        self.world.yield_point("read_tail")
        data = self.world.fs.files[self.path]
        end = len(data) if n is None or n < 0 else min(len(data), self.pos + n)
        out = bytes(data[self.pos:end])
        self.pos = end
        self.world.log({"e": "seek", "off": self.pos})
        return out

    def truncate(self, size=None):
        self.world.yield_point("truncate")
        size = self.pos if size is None else size
        del self.world.fs.files[self.path][size:]
        self.world.log({"e": "truncate", "size": size})
        return size


def install(world: World):
    """Rebind the module globals of optuna.storages.journal._file to shims bound to `world`."""
    from optuna.storages.journal import _file as F
    import os as real_os

    fs = world.fs

    def shim_open(path, mode="r"):
        if mode == "ab":
            world.yield_point("open_ab")
            fs.files.setdefault(path, bytearray())
            world.log({"e": "open_ab"})
            return AppendFile(world, path)
        if mode == "wb":
            # create-or-TRUNCATE.  On a missing or empty file it is indistinguishable from the append-open the model knows;
            # on a file that holds bytes it destroys them, which no action of the specification does
            world.yield_point("open_ab")
            had = len(fs.files.get(path, b""))
            fs.files[path] = bytearray()
            world.log({"e": "open_ab"} if had == 0 else {"e": "truncated_by_open", "lost_bytes": had})
            return AppendFile(world, path)
        if mode == "rb":
            world.yield_point("open_rb")
            if path not in fs.files:
                raise FileNotFoundError(errno.ENOENT, "no such file", path)
            world.log({"e": "open_rb"})
            return ReadFile(world, path)
        if mode == "rb+":
            world.yield_point("open_rbp")
            world.log({"e": "open_rb"})
            return UpdateFile(world, path)
        raise ValueError(mode)

    class Path:
        @staticmethod
        def exists(path):
            world.yield_point("exists")
            return path in fs.files

    class StatResult:
        def __init__(self, size, mtime):
            self.st_size, self.st_mtime = size, mtime

    class OS:
        path = Path
        O_CREAT, O_EXCL, O_WRONLY = real_os.O_CREAT, real_os.O_EXCL, real_os.O_WRONLY
        SEEK_SET, SEEK_CUR, SEEK_END = 0, 1, 2

        @staticmethod
        def stat(path):
            if path in fs.locks or path.endswith(F.LOCK_FILE_SUFFIX):
                world.yield_point("stat_lock")
                if path not in fs.locks:
                    world.log({"e": "stat_lock", "gen": 0})
                    raise FileNotFoundError(errno.ENOENT, "no such file", path)
                world.log({"e": "stat_lock", "gen": fs.locks[path]})
                return StatResult(0, float(fs.locks[path]))
            world.yield_point("stat_size")
            world.log({"e": "stat_size", "size": len(fs.files[path])})
            return StatResult(len(fs.files[path]), 0.0)

        @staticmethod
        def symlink(target, link):
            world.yield_point("symlink")
            if link in fs.locks:
                world.log({"e": "lock_try", "ok": 0})
                raise FileExistsError(errno.EEXIST, "exists", link)
            fs.locks[link] = fs.next_gen
            fs.next_gen += 1
            world.log({"e": "lock_try", "ok": 1})

        @staticmethod
        def open(path, flags):
            world.yield_point("open_excl")
            if path in fs.locks:
                world.log({"e": "lock_try", "ok": 0})
                raise FileExistsError(errno.EEXIST, "exists", path)
            fs.locks[path] = fs.next_gen
            fs.next_gen += 1
            world.log({"e": "lock_try", "ok": 1})
            return 9

        @staticmethod
        def close(fd):
            return None

        @staticmethod
        def rename(src, dst):
            world.yield_point("rename")
            if src not in fs.locks:
                world.log({"e": "lock_rename", "ok": 0})
                raise FileNotFoundError(errno.ENOENT, "no such file", src)
            fs.locks[dst] = fs.locks.pop(src)
            world.log({"e": "lock_rename", "ok": 1, "gen": fs.locks[dst]})

        @staticmethod
        def unlink(path):
            world.yield_point("unlink")
            fs.locks.pop(path, None)
            world.log({"e": "unlink"})

        @staticmethod
        def fsync(fd):
            world.yield_point("fsync")
            world.log({"e": "fsync"})

    class Time:
        @staticmethod
        def monotonic():
            return fs.clock.get(world.me().wid, 1000.0)

        @staticmethod
        def sleep(secs):
            world.yield_point("sleep", secs)
            world.log({"e": "sleep"})

    class UUID:
        @staticmethod
        def uuid4():
            fs.uuid_n += 1
            return f"u{fs.uuid_n}"

    saved = (F.os, getattr(F, "open", None), F.time, F.uuid)
    F.os, F.open, F.time, F.uuid = OS, shim_open, Time, UUID

    def restore():
        F.os, F.time, F.uuid = saved[0], saved[2], saved[3]
        if saved[1] is None:
            try:
                del F.open
            except AttributeError:
                pass
        else:
            F.open = saved[1]

    return restore


def record(rid: int, pad: int = 0):
    """A journal record as JournalStorage would write it (op_code, worker_id, payload) carrying its rid."""
    return {"op_code": 4, "worker_id": f"w-{rid // 100}", "rid": rid, "pad": "x" * pad}
