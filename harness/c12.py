"""C12 — best_trial / best_value / best_trials are exactly the optimum of the history.

Spec: specs/Best.tla (admissible answers), BestMC (oracle theorems + |inputs|), BestTrace (conformance).
The harness only enumerates histories, builds each one on REAL storages through the public API
(add_trial / create_new_trial + tell, several arrival orders), asks the real study for best_trial,
best_value, best_trials and the storage for get_best_trial, and writes down the history it reads back
together with the answers as small integers / tokens.  Every answer is judged by TLC.
"""
from __future__ import annotations

import concurrent.futures as cf
import itertools
import math
import multiprocessing
import os
import random
import shutil
import tempfile
import threading
import time

from . import common, tlc

NEG, POS = -1000, 1000
BAD = 7777                       # a value outside the lattice (non-integer, NaN, out of range): never admitted
MIN, MAX = 1, -1
QUERIES = ["bt", "bv", "bts", "sb"]
BACKENDS = ["inmem", "journal", "sqlite", "cached", "grpc"]
NOCONS, FEAS, VIOL = (0, []), (1, [-1, 0]), (1, [0, 1])      # == BestMC.NoCons, FeasCon, ViolCon


# ---------------------------------------------------------------------------------------------
# abstract histories (mirrors BestMC.TrialUniverse; the count is cross-checked against TLC)
# ---------------------------------------------------------------------------------------------
def mk(s, v, k):
    return {"s": s, "v": list(v), "hc": k[0], "c": list(k[1])}


def trial_universe(dim, maxc, infmode):
    coords = list(range(maxc + 1)) + ([NEG] if infmode >= 1 else []) + ([POS] if infmode >= 2 else [])
    vals = list(itertools.product(coords, repeat=dim))
    tempt = [()] + list(itertools.product([NEG, POS], repeat=dim))
    u = [mk("COMPLETE", v, k) for v in vals for k in (NOCONS, FEAS, VIOL)]
    u += [mk("PRUNED", v, k) for v in tempt for k in (NOCONS, FEAS)]
    u += [mk("FAIL", v, NOCONS) for v in tempt]
    u += [mk("RUNNING", (), NOCONS), mk("WAITING", (), NOCONS)]
    return u


INSTANCES = {   # name -> (Dim, MaxN, MaxC, InfMode)   == specs/BestMC_<name>.cfg
    "q1": (1, 3, 1, 2), "q2": (2, 2, 1, 2), "q3": (3, 2, 0, 1),
    "t1": (1, 4, 0, 2), "t2": (2, 3, 0, 2), "t3": (3, 2, 1, 2), "t4": (4, 2, 0, 1),
}


def instance_inputs(name):
    dim, maxn, maxc, infmode = INSTANCES[name]
    u = trial_universe(dim, maxc, infmode)
    dirvecs = list(itertools.product([MIN, MAX], repeat=dim))
    for n in range(0, maxn + 1):
        for hist in itertools.product(u, repeat=n):
            for d in dirvecs:
                yield list(d), list(hist)


def instance_size(name):
    dim, maxn, maxc, infmode = INSTANCES[name]
    u = len(trial_universe(dim, maxc, infmode))
    return sum(u ** n for n in range(maxn + 1)) * 2 ** dim


def random_case(rng, max_dim, max_trials):
    dim = rng.choice([d for d in [1, 1, 2, 2, 3, 4] if d <= max_dim])
    n = rng.randint(2, max_trials)
    span = rng.choice([1, 2, 3])
    inf_p = rng.choice([0.0, 0.15, 0.3])
    constrained = rng.random() < 0.5
    cons_pool = [NOCONS, FEAS, VIOL, (1, [0]), (1, [1]), (1, [0, 2]), (1, []), (1, [-2]), (1, [3, -1]), (1, [2, 1])]

    def val():
        r = rng.random()
        return NEG if r < inf_p / 2 else POS if r < inf_p else rng.randint(-span, span)
    hist = []
    for _ in range(n):
        s = rng.choice(["COMPLETE"] * 6 + ["PRUNED", "FAIL", "RUNNING", "WAITING"])
        k = rng.choice(cons_pool) if constrained and rng.random() < 0.8 else NOCONS
        if s == "COMPLETE":
            v = [val() for _ in range(dim)]
        elif s in ("PRUNED", "FAIL") and rng.random() < 0.6:
            v = [rng.choice([NEG, POS, val()]) for _ in range(dim)]
        else:
            v = []
        if s == "WAITING":
            k = NOCONS
        hist.append(mk(s, v, k))
    return [rng.choice([MIN, MAX]) for _ in range(dim)], hist


# ---------------------------------------------------------------------------------------------
# projection real <-> abstract
# ---------------------------------------------------------------------------------------------
def to_float(x):
    return -math.inf if x == NEG else math.inf if x == POS else float(x)


def to_int(x):
    try:
        x = float(x)
    except (TypeError, ValueError):
        return BAD
    if math.isnan(x):
        return BAD
    if math.isinf(x):
        return POS if x > 0 else NEG
    if x != int(x) or abs(x) > 99:
        return BAD
    return int(x)


def _finish_order(hist, dirs, order, rng):
    idx = [i for i, t in enumerate(hist) if t["s"] in ("COMPLETE", "PRUNED", "FAIL")]
    if order == "asc" or order == "desc":     # by the loss of the first objective, best first / best last
        def key(i):
            v = hist[i]["v"]
            return (dirs[0] * v[0]) if v else 0
        idx.sort(key=key, reverse=(order == "desc"))
    elif order == "rev":
        idx.reverse()
    elif order == "rand":
        rng.shuffle(idx)
    return idx


class Backends:
    """Real storages of one worker process (created lazily, reused for many studies)."""

    def __init__(self, root):
        self.root = root
        self.made = {}
        self.n = 0
        self.servers = []

    def get(self, kind):
        import optuna
        from optuna.storages import InMemoryStorage, JournalStorage, RDBStorage, _CachedStorage
        from optuna.storages.journal import JournalFileBackend

        if kind == "inmem":
            return InMemoryStorage()                      # a fresh one per study: the cache starts empty
        if kind == "journal":
            ent = self.made.get(kind)
            if ent is None or ent[1] >= 150:              # keep the replayed log short
                self.n += 1
                st = JournalStorage(JournalFileBackend(os.path.join(self.root, f"journal-{os.getpid()}-{self.n}.log")))
                ent = [st, 0]
                self.made[kind] = ent
            ent[1] += 1
            return ent[0]
        if kind in self.made:
            return self.made[kind]
        if kind in ("sqlite", "cached"):
            url = "sqlite:///" + os.path.join(self.root, f"{kind}-{os.getpid()}.db")
            st = RDBStorage(url, engine_kwargs={"connect_args": {"timeout": 300}})
            if kind == "cached":                          # what optuna.storages.get_storage(url) returns
                st = _CachedStorage(st)
        elif kind == "grpc":
            from optuna.storages import GrpcStorageProxy
            from optuna.storages._grpc.server import make_server
            import grpc

            # One server per worker process over its own InMemoryStorage.  gRPC binds with SO_REUSEPORT, so two
            # servers could silently share a port: the port is derived from the (unique) pid and the proxy is only
            # used after a probe study created through it is seen in OUR backing storage.
            st = None
            for attempt in range(8):
                port = 21000 + (os.getpid() + attempt * 7919) % 20000
                backing = InMemoryStorage()
                try:
                    server = make_server(backing, "localhost", port)
                except RuntimeError:
                    continue
                th = threading.Thread(target=server.start, daemon=True)
                th.start()
                proxy = GrpcStorageProxy(host="localhost", port=port)
                t0 = time.time()
                while True:
                    try:
                        proxy.get_all_studies()
                        break
                    except grpc.RpcError:
                        if time.time() - t0 > 30:
                            raise
                        time.sleep(0.05)
                probe = f"probe-{os.getpid()}-{attempt}-{time.time_ns()}"
                proxy.create_new_study([optuna.study.StudyDirection.MINIMIZE], probe)
                try:
                    backing.get_study_id_from_name(probe)
                    st = proxy
                    break
                except KeyError:
                    proxy.close()
                    server.stop(None)
            if st is None:
                raise tlc.MachineryError("could not start a private gRPC storage server")
            self.servers.append((server, th, st))
        else:
            raise tlc.MachineryError(f"unknown backend {kind}")
        self.made[kind] = st
        return st

    def close(self):
        for server, th, st in self.servers:
            try:
                st.close()
            except Exception:
                pass
            server.stop(None)
        self.servers = []


ROUTES = ["self_add", "other_add", "self_tell", "other_tell"]


def build_and_observe(bk, case):
    """Run one abstract case on the real code; returns the list of events (what was read back + the answers).

    mode "add" / "tell": the whole history is built, then the study is asked once (one event).
    mode "grow": ONE long-lived Study object is asked repeatedly while the history grows; every trial arrives
    by its own route (add_trial on that Study object, add_trial or tell through a SECOND Study object on the same
    storage, create_new_trial + tell(number) on the first one).  After the trials marked in case["probe"] (and
    at the end) the first Study object is asked again: one event per probe, with the history prefix as read
    back at that moment.  The admissible answers depend on the prefix only, so each event is judged as usual.
    """
    import optuna
    from optuna.trial import FrozenTrial, TrialState, create_trial
    import datetime

    backend, mode, order, dirs, hist = case["backend"], case["mode"], case["order"], case["dirs"], case["h"]
    storage = bk.get(backend)
    if backend == "inmem":
        # the other backends are shared by many studies; a fresh in-memory storage gets 0-2 trials of an unrelated study
        # first, so that trial ids and trial numbers of the study under test differ (decided by the case alone: replayable)
        k = (len(hist) + len(dirs)) % 3
        if k:
            pre = optuna.create_study(storage=storage, direction="maximize")
            for j in range(k):
                pre.add_trial(optuna.trial.create_trial(value=float(50 + j)))
    study = optuna.create_study(storage=storage, directions=["minimize" if d == MIN else "maximize" for d in dirs])
    st, sid = study._storage, study._study_id
    S = {s.name: s for s in TrialState}
    now = datetime.datetime.now()

    def values(t):
        return [to_float(x) for x in t["v"]] if t["v"] else None

    def attrs(t):
        return {"constraints": [float(x) for x in t["c"]]} if t["hc"] else {}

    def add_one(stu, t):
        s = S[t["s"]]
        if s == TrialState.FAIL and t["v"]:
            # add_trial refuses values on a FAIL trial; the storage API accepts such a template
            ft = FrozenTrial(number=-1, trial_id=-1, state=s, value=None, values=values(t), datetime_start=now,
                             datetime_complete=now, params={}, distributions={}, user_attrs={},
                             system_attrs=attrs(t), intermediate_values={})
            st.create_new_trial(sid, template_trial=ft)
        else:
            stu.add_trial(create_trial(state=s, values=values(t), system_attrs=attrs(t)))

    def finish_one(stu, tid, i, t):
        s = S[t["s"]]
        if t["hc"]:
            st.set_trial_system_attr(tid, "constraints", attrs(t)["constraints"])
        if s == TrialState.COMPLETE:
            stu.tell(i, values(t))
        elif not t["v"]:
            stu.tell(i, state=s)
        elif s == TrialState.PRUNED and len(dirs) == 1:
            st.set_trial_intermediate_value(tid, 1, values(t)[0])   # tell() takes the last reported value
            stu.tell(i, state=s)
        else:
            st.set_trial_state_values(tid, s, values(t))

    if mode == "grow":
        other = optuna.load_study(study_name=study.study_name, storage=storage)   # a second Study object
        events = []
        for i, t in enumerate(hist):
            route = case["routes"][i]
            stu = study if route.startswith("self") else other
            if t["s"] == "WAITING":
                stu.add_trial(create_trial(state=TrialState.WAITING))
            elif t["s"] == "RUNNING":
                tid = st.create_new_trial(sid)
                if t["hc"]:
                    st.set_trial_system_attr(tid, "constraints", attrs(t)["constraints"])
            elif route.endswith("add"):
                add_one(stu, t)
            else:
                finish_one(stu, st.create_new_trial(sid), i, t)
            if case["probe"][i] or i == len(hist) - 1:
                ev = observe(study, case)
                ev["step"] = i
                ev["sent"] = hist[:i + 1]
                events.append(ev)
        return events
    if mode == "add":
        for t in hist:
            add_one(study, t)
    else:   # "tell": every trial is created first (number order), then finished in the given arrival order
        ids = []
        for t in hist:
            if t["s"] == "WAITING":
                study.add_trial(create_trial(state=TrialState.WAITING))
                ids.append(None)
            else:
                ids.append(st.create_new_trial(sid))          # RUNNING, as Study.ask creates it
        for i, t in enumerate(hist):
            if t["s"] == "RUNNING" and t["hc"]:
                st.set_trial_system_attr(ids[i], "constraints", attrs(t)["constraints"])
        for i in _finish_order(hist, dirs, order, random.Random(case.get("oseed", 0))):
            finish_one(study, ids[i], i, hist[i])

    return [observe(study, case)]


def _reply(fn, field, empty):
    try:
        return {"k": "ok", field: fn(), "e": ""}
    except Exception as e:  # the class is the observation; TLC decides whether it is admissible
        return {"k": "err", field: empty, "e": type(e).__name__}


def observe(study, case):
    trials = study.get_trials(deepcopy=False)
    h = []
    for i, t in enumerate(trials):
        if t.number != i:
            raise tlc.MachineryError(f"trial numbers are not ordinal: {[x.number for x in trials]}")
        c = t.system_attrs.get("constraints")
        h.append({"s": t.state.name, "v": [to_int(x) for x in (t.values or [])],
                  "hc": 0 if c is None else 1, "c": [to_int(x) for x in (c or [])]})
    ev = {"dirs": list(case["dirs"]), "h": h, "q": list(QUERIES),
          "bt": _reply(lambda: int(study.best_trial.number), "n", -1),
          "bv": _reply(lambda: to_int(study.best_value), "x", 0),
          "bts": _reply(lambda: [int(t.number) for t in study.best_trials], "ns", []),
          "sb": _reply(lambda: int(study._storage.get_best_trial(study._study_id).number), "n", -1),
          "backend": case["backend"], "mode": case["mode"], "order": case["order"], "oseed": case.get("oseed", 0),
          "sent": case["h"], "step": len(case["h"]) - 1}
    return ev


# ---------------------------------------------------------------------------------------------
# worker processes
# ---------------------------------------------------------------------------------------------
_BK = None


def _worker_init(root):
    global _BK
    os.environ["GRPC_VERBOSITY"] = "NONE"
    common.use_repo()
    _BK = Backends(root)
    from multiprocessing import util

    util.Finalize(_BK, _BK.close, exitpriority=10)      # runs when the worker process exits


def _work(cases):
    out = []
    for c in cases:
        t0 = time.process_time()
        evs = build_and_observe(_BK, c)
        evs[0]["ms"] = round((time.process_time() - t0) * 1000, 2)      # CPU time: the machine may be shared
        out.append(evs)
    return out


def run_cases(cases, root, procs=12):
    """Execute the cases on the real code in worker processes; returns the events (a case of mode "grow" yields several)."""
    if not cases:
        return []
    # slow backends first and in small chunks, so that the pool is busy until the end
    def cost_of(c):
        return BACKEND_COST[c["backend"]] * (1 + sum(c["probe"]) if c["mode"] == "grow" else 1)
    order = sorted(range(len(cases)), key=lambda i: -BACKEND_COST[cases[i]["backend"]])
    chunks, cur, cost = [], [], 0.0
    for i in order:
        cur.append(i)
        cost += cost_of(cases[i])
        if cost >= 1500:                       # ~1.5 s of work
            chunks.append(cur)
            cur, cost = [], 0.0
    if cur:
        chunks.append(cur)
    ctxmp = multiprocessing.get_context("spawn")
    events = [None] * len(cases)
    with cf.ProcessPoolExecutor(max_workers=min(procs, len(chunks)), mp_context=ctxmp,
                                initializer=_worker_init, initargs=(root,)) as ex:
        futs = {ex.submit(_work, [cases[i] for i in ch]): ch for ch in chunks}
        for fu in cf.as_completed(futs):
            try:
                res = fu.result()
            except Exception as e:
                raise tlc.MachineryError(f"worker failed while driving optuna: {type(e).__name__}: {e}") from e
            for i, evs in zip(futs[fu], res):
                for ev in evs:
                    ev["case"] = cases[i]
                events[i] = evs
    return [ev for evs in events for ev in evs]


BACKEND_COST = {"inmem": 0.6, "journal": 2.5, "grpc": 20, "sqlite": 65, "cached": 65}     # rough CPU ms per history, for scheduling only


# ---------------------------------------------------------------------------------------------
# case selection (bookkeeping only: which histories go to which backend in which arrival order)
# ---------------------------------------------------------------------------------------------
def n_complete(hist):
    return sum(1 for t in hist if t["s"] == "COMPLETE")


def interesting(dirs, hist):
    """At least two COMPLETE trials: the answer depends on a comparison."""
    return n_complete(hist) >= 2


def case(backend, mode, order, dirs, hist, oseed=0):
    return {"backend": backend, "mode": mode, "order": order, "dirs": dirs, "h": hist, "oseed": oseed}


def grow_case(rng, backend, dirs, hist):
    """The history arrives trial by trial on a long-lived Study object that is asked in between."""
    c = case(backend, "grow", "num", dirs, hist)
    c["routes"] = [rng.choice(ROUTES) for _ in hist]
    c["probe"] = [1 if rng.random() < 0.8 else 0 for _ in hist]
    return c


def random_grow_history(rng, max_dim):
    """Mostly COMPLETE trials, mostly with constraint values: the answer changes while the history grows."""
    dim = rng.choice([d for d in [1, 1, 1, 2, 3, 4] if d <= max_dim])
    n = rng.randint(3, 6)
    constrained = rng.random() < 0.75
    pool = [FEAS, FEAS, VIOL, VIOL, NOCONS, (1, [0]), (1, [2]), (1, [-1, 3])]
    hist = []
    for _ in range(n):
        s = rng.choice(["COMPLETE"] * 8 + ["PRUNED", "FAIL", "RUNNING", "WAITING"])
        k = rng.choice(pool) if constrained and s != "WAITING" else NOCONS
        v = [rng.choice([NEG, POS] + list(range(-3, 4)) * 2) for _ in range(dim)] if s == "COMPLETE" else []
        hist.append(mk(s, v, k))
    return [rng.choice([MIN, MAX]) for _ in range(dim)], hist


def plan_cases(ctx):
    """Which history goes to which backend in which arrival order (seeded; no property logic here).

    in-memory/add_trial: the exhaustive instances (all of q1 and q2, a share of the larger ones);
    in-memory/tell     : a sample of the same histories finished best-first / best-last / shuffled;
    other backends     : seeded samples biased to histories with >= 2 COMPLETE trials; the SQL backends get mostly
                         single-objective histories (their own code path is get_best_trial) because they cost
                         ~60 ms per history.
    """
    rng = ctx.rng
    quick = ctx.quick
    cases = []
    counts = {}
    executed = {}
    insts = ["q1", "q2", "q3"] if quick else ["q1", "q2", "q3", "t1", "t2", "t3", "t4"]
    share = {"q1": 1.0, "q2": 1.0, "q3": 0.15, "t1": 0.5, "t2": 0.25, "t3": 0.1, "t4": 0.1}
    tell_share = {"q1": 0.15, "q2": 0.1, "q3": 0.1, "t1": 0.2, "t2": 0.1, "t3": 0.1, "t4": 0.1}
    if quick:
        other = {"q1": {"journal": 1200, "grpc": 180, "sqlite": 380, "cached": 50},
                 "q2": {"journal": 600, "grpc": 80, "sqlite": 60, "cached": 20},
                 "q3": {"journal": 300, "grpc": 40, "sqlite": 30, "cached": 10}}
        n_rand = {"inmem": 3000, "journal": 800, "grpc": 120, "sqlite": 160, "cached": 30}
    else:
        other = {"q1": {"journal": 6000, "grpc": 1200, "sqlite": 2500, "cached": 400},
                 "t1": {"journal": 6000, "grpc": 1200, "sqlite": 2500, "cached": 400},
                 "q2": {"journal": 3000, "grpc": 500, "sqlite": 400, "cached": 100},
                 "t2": {"journal": 3000, "grpc": 500, "sqlite": 400, "cached": 100},
                 "t3": {"journal": 2000, "grpc": 300, "sqlite": 200, "cached": 50},
                 "t4": {"journal": 2000, "grpc": 300, "sqlite": 200, "cached": 50}}
        n_rand = {"inmem": 60000, "journal": 10000, "grpc": 1500, "sqlite": 2000, "cached": 400}
    orders = ["num", "asc", "desc", "rev", "rand"]
    for name in insts:
        n = 0
        need = sum(other.get(name, {}).values())
        pool, seen = [], 0                          # reservoir sample of the interesting histories
        for dirs, hist in instance_inputs(name):
            n += 1
            full = share[name] >= 1.0 or rng.random() < share[name]
            if full:
                executed[name] = executed.get(name, 0) + 1
                cases.append(case("inmem", "add", "num", dirs, hist))
            if interesting(dirs, hist):
                seen += 1
                if len(pool) < need:
                    pool.append((dirs, hist))
                elif need and rng.random() * seen < need:
                    pool[rng.randrange(need)] = (dirs, hist)
                if full and rng.random() < tell_share[name]:
                    # the same history with its trials finished in another order: the incremental cache sees the
                    # values arrive best-first / best-last
                    cases.append(case("inmem", "tell", rng.choice(["asc", "desc", "rand"]), dirs, hist,
                                      rng.randrange(1 << 30)))
        counts[name] = n
        rng.shuffle(pool)
        for backend, k in other.get(name, {}).items():
            mine, pool = pool[:k], pool[k:]
            for dirs, hist in mine:
                mode = rng.choice(["add", "tell"])
                cases.append(case(backend, mode, "num" if mode == "add" else rng.choice(orders), dirs, hist,
                                  rng.randrange(1 << 30)))
    # longer seeded histories beyond the exhaustive instances, on every backend
    for backend, k in n_rand.items():
        for _ in range(k):
            sql = backend in ("sqlite", "cached")
            dirs, hist = random_case(rng, 1 if sql and rng.random() < 0.7 else 3 if quick else 4, 5 if quick else 7)
            mode = rng.choice(["add", "tell"])
            cases.append(case(backend, mode, "num" if mode == "add" else rng.choice(orders), dirs, hist,
                              rng.randrange(1 << 30)))
    # growing histories: the same Study object is asked after (almost) every arriving trial
    n_grow = {"inmem": 2600, "journal": 300, "grpc": 40, "sqlite": 50, "cached": 10} if quick else \
             {"inmem": 30000, "journal": 4000, "grpc": 500, "sqlite": 600, "cached": 100}
    for backend, k in n_grow.items():
        for _ in range(k):
            dirs, hist = random_grow_history(rng, 3 if quick else 4)
            cases.append(grow_case(rng, backend, dirs, hist))
    return cases, counts, executed


# ---------------------------------------------------------------------------------------------
# judging
# ---------------------------------------------------------------------------------------------
def _public(e):
    return {k: e[k] for k in ("dirs", "h", "q", "bt", "bv", "bts", "sb", "backend", "mode", "order")}


def judge(ctx, events, label="histories"):
    traces = [{"tid": i + 1, "ev": [_public(e)]} for i, e in enumerate(events)]
    v = tlc.validate("BestTrace", "BestTrace", traces, shards=16, timeout=1500)
    ctx.validated(v, label)
    rej = sorted(v.rejected)
    if rej:
        # ask TLC which of the four replies of each rejected event is the inadmissible one
        sub, back = [], {}
        for tid in rej[:40]:
            for q in QUERIES:
                e = dict(_public(events[tid - 1]))
                e["q"] = [q]
                back[len(sub) + 1] = (tid, q)
                sub.append({"tid": len(sub) + 1, "ev": [e]})
        v2 = tlc.validate("BestTrace", "BestTrace", sub, shards=4, timeout=600)
        bad = {}
        for k in v2.rejected:
            tid, q = back[k]
            bad.setdefault(tid, []).append(q)
        names = {"bt": "best_trial", "bv": "best_value", "bts": "best_trials", "sb": "storage.get_best_trial"}
        for tid in rej:
            e = events[tid - 1]
            qs = bad.get(tid, [])
            what = ", ".join(f"{names[q]}={_show(e[q])}" for q in qs) or "event (not diagnosed per reply)"
            if any(x == BAD for t in e["h"] for x in t["v"] + t["c"]):
                what = "a value read back from the study is outside the integer lattice (shown as 7777);" + what
            how = f"{e['backend']}/{e['mode']}/{e['order']}"
            if e["mode"] == "grow":
                how = (f"{e['backend']}/grow: same Study object asked again after trial {e['step']}, arrival routes "
                       f"{e['case']['routes'][:e['step'] + 1]}, earlier reads after trials "
                       f"{[i for i, p in enumerate(e['case']['probe'][:e['step']]) if p]}")
            ctx.violation(f"[{how}] {what} is not admitted by Best.tla for "
                          f"directions={e['dirs']} history={_show_h(e['h'])}",
                          {"event": {k: e[k] for k in e if k not in ("sent", "case")}, "case": e["case"],
                           "step": e["step"], "rejected_replies": qs, "spec": "BestTrace"})
            if len(ctx.violations) >= 10:
                break
    return v


def _show(r):
    if r["k"] == "err":
        return r["e"]
    return str(r.get("n", r.get("x", r.get("ns"))))


def _show_h(h):
    def one(t):
        s = t["s"][0] + (str(t["v"]) if t["v"] else "")
        return s + (f"c{t['c']}" if t["hc"] else "")
    return "<" + " ".join(one(t) for t in h) + ">"


def data_root():
    base = os.environ.get("VERIF_SCRATCH_BASE")
    if not base:
        base = "/dev/shm" if os.path.isdir("/dev/shm") and os.access("/dev/shm", os.W_OK) else tlc.scratch()
    return tempfile.mkdtemp(prefix="verif-c12-", dir=base)


def run(ctx):
    ctx.rule = ("inputs = every history of <=MaxN trials over the BestMC trial universe x every direction vector "
                "(exhaustive instances, count cross-checked against TLC's own Judge count) + seeded longer histories; "
                "each is built on real storages (in-memory, journal file, SQLite RDB, cached RDB, gRPC proxy) by add_trial "
                "or create+tell in several arrival orders; the history read back and the four answers are one event "
                "judged by TLC against Best.tla; distinct = distinct (backend, mode, order, directions, history) with "
                ">= 2 COMPLETE trials")
    cfgs = ["q1", "q2", "q3"] + ([] if ctx.quick else ["t1", "t2", "t3", "t4"])
    # the spec instances are checked by TLC while the worker processes drive optuna
    results, err = {}, []

    def mc():
        try:
            for c in cfgs:
                results[c] = tlc.require_model("BestMC", "BestMC_" + c, must_cover=["AddTrial", "Judge"],
                                               workers=8, timeout=3000)
        except BaseException as e:  # re-raised in the main thread
            err.append(e)
    th = threading.Thread(target=mc)
    th.start()
    root = data_root()
    per_backend, drift = {}, 0
    sel_bt = sel_bts = None
    n_events = 0
    try:
        t0 = time.time()
        cases, counts, executed = plan_cases(ctx)
        print(f"[{ctx.pid}] planned {len(cases)} cases in {time.time() - t0:.1f}s", flush=True)
        batch = 150000
        for lo in range(0, len(cases), batch):
            t1 = time.time()
            events = run_cases(cases[lo:lo + batch], root, procs=12 if ctx.quick else 14)
            print(f"[{ctx.pid}] {len(events)} histories built and queried on the real storages in {time.time() - t1:.1f}s",
                  flush=True)
            for e in events:
                key = f"{e['backend']}|{e['mode']}|{e['order']}|{e['dirs']}|{e['sent']}|{e['case'].get('routes')}|{e['case'].get('probe')}"
                ctx.count_case(key, nontrivial=interesting(e["dirs"], e["sent"]))
                pb = per_backend.setdefault(e["backend"], {"cases": 0, "cpu_s": 0.0})
                pb["cases"] += 1
                pb["cpu_s"] += e.get("ms", 0) / 1000
                if e["h"] != e["sent"]:
                    drift += 1
                    if len(ctx.drift) < 5:
                        ctx.drift.append({"backend": e["backend"], "sent": e["sent"], "read_back": e["h"]})
            if ctx.quick:
                th.join()           # quick: the validation does not compete with the model-checking runs
            v = judge(ctx, events, f"histories {lo + 1}..{lo + len(events)}")
            n_events += len(events)
            for e in events[:: max(1, len(events) // 5)][:5]:
                ctx.sample(_public(e))
            # accepted events to corrupt in the binding self-tests
            for i, e in enumerate(events):
                if (i + 1) not in v.accepted:
                    continue
                if sel_bt is None and e["bt"]["k"] == "ok" and len(e["dirs"]) == 1 and not any(t["hc"] for t in e["h"]) \
                        and len({t["v"][0] for t in e["h"] if t["s"] == "COMPLETE"}) >= 2:
                    sel_bt = _public(e)
                if sel_bts is None and len(e["bts"]["ns"]) >= 2:
                    sel_bts = _public(e)
                if sel_bt and sel_bts:
                    break
            del events
            if len(ctx.violations) >= 10:
                break
    finally:
        th.join()
        shutil.rmtree(root, ignore_errors=True)
    if err:
        raise err[0]
    for c in cfgs:
        r = results[c]
        ctx.model(r, "BestMC_" + c)
        # distinct states = 1 (empty) + histories reached by AddTrial + one judged state per (history, directions);
        # (the per-action coverage numbers are not used: TLC reprints them every minute and they add up)
        dim = INSTANCES[c][0]
        spec_inputs = r.distinct * 2 ** dim // (1 + 2 ** dim)
        if r.distinct % (1 + 2 ** dim) or spec_inputs != instance_size(c) or counts.get(c) != instance_size(c):
            raise tlc.MachineryError(f"instance {c}: spec has {spec_inputs} inputs ({r.distinct} states), harness "
                                     f"enumerates {instance_size(c)} / generated {counts.get(c)}")
    ctx.exhaustive = True
    ctx.notes["exhaustive_instances"] = {c: {"inputs": instance_size(c), "equals_spec_cardinality": True,
                                             "executed_in_memory_via_add_trial": executed.get(c, 0)} for c in counts}
    for pb in per_backend.values():
        pb["cpu_s"] = round(pb["cpu_s"], 1)
    ctx.notes["cases_per_backend"] = per_backend
    ctx.notes["histories_read_back_differently"] = drift
    print(f"[{ctx.pid}] cases per backend: {per_backend}; histories read back differently from what was sent: {drift}",
          flush=True)
    if ctx.violations:
        return
    # binding self-tests: a wrong best trial / a missing front member must be rejected
    if sel_bt is None or sel_bts is None:
        raise tlc.MachineryError("no accepted event suitable for the binding self-tests")

    def corrupt_bt(t):
        e = t["ev"][0]
        best = e["h"][e["bt"]["n"]]["v"][0]
        e["bt"]["n"] = next(i for i, x in enumerate(e["h"]) if x["s"] == "COMPLETE" and x["v"][0] != best)
        e["q"] = ["bt"]
    ctx.binding_selftest("BestTrace", "BestTrace", {"tid": 1, "ev": [sel_bt]}, corrupt_bt, "best_trial -> worse trial")

    def corrupt_bts(t):
        t["ev"][0]["bts"]["ns"] = t["ev"][0]["bts"]["ns"][1:]
    ctx.binding_selftest("BestTrace", "BestTrace", {"tid": 1, "ev": [sel_bts]}, corrupt_bts, "best_trials minus one")
    ctx.assumptions += [
        "objective and constraint values are small integers or +-inf, so the projection to integers is exact",
        "D8: a best-valued trial without constraint values may be returned although a feasible trial exists; only a "
        "violating answer while a feasible COMPLETE trial exists is forbidden, and a feasible answer must be the best feasible one",
        "ValueError is admitted when no trial is COMPLETE, and in a study with recorded constraints when no COMPLETE trial is feasible",
        "D11: storage.get_best_trial on a multi-objective study without COMPLETE trials may raise RuntimeError or ValueError",
        "a study counts as constrained for best_trials once any trial (of any state) carries constraint values; "
        "trials without constraint values are then infeasible (documented in _get_feasible_trials)",
        "optuna.create_study wraps an RDBStorage in _CachedStorage (storages.get_storage), so `sqlite' and `cached' "
        "reach the same code; FAIL trials with values exist only through the storage API (add_trial refuses them)",
        "storages live on tmpfs (/dev/shm) when available: durability is not part of this property",
    ]


def replay(ctx, data):
    common.use_repo()
    root = data_root()
    bk = Backends(root)
    try:
        evs = build_and_observe(bk, data["case"])
        for ev in evs:
            ev["case"] = data["case"]
    finally:
        bk.close()
        shutil.rmtree(root, ignore_errors=True)
    judge(ctx, evs, "replay")
