"""Parser for TLA+ values as TLC prints them (simulate files, dot labels, PrintT output).

int -> int, "s" -> str, TRUE/FALSE -> bool, <<...>> -> list, {...} -> frozenset (of hashable conversions),
[a |-> v, ...] -> dict, (k :> v @@ ...) -> dict, bare identifiers (model values) -> str.
"""
from __future__ import annotations

import re


class ParseError(Exception):
    pass


class _P:
    def __init__(self, s: str):
        self.s = s
        self.i = 0

    def ws(self):
        while self.i < len(self.s) and self.s[self.i] in " \t\r\n":
            self.i += 1

    def peek(self, n=1):
        return self.s[self.i:self.i + n]

    def eat(self, tok):
        self.ws()
        if not self.s.startswith(tok, self.i):
            raise ParseError(f"expected {tok!r} at {self.i}: {self.s[self.i:self.i+40]!r}")
        self.i += len(tok)

    def value(self):
        self.ws()
        c = self.peek()
        if self.peek(2) == "<<":
            self.i += 2
            items = self.items(">>")
            return items
        if c == "{":
            self.i += 1
            items = self.items("}")
            return frozenset(_hashable(x) for x in items)
        if c == "[":
            self.i += 1
            self.ws()
            d = {}
            if self.peek() == "]":
                self.i += 1
                return d
            while True:
                self.ws()
                m = re.compile(r"[A-Za-z_0-9]+").match(self.s, self.i)
                if not m:
                    raise ParseError(f"record field expected at {self.i}")
                k = m.group(0)
                self.i = m.end()
                self.eat("|->")
                d[k] = self.value()
                self.ws()
                if self.peek() == ",":
                    self.i += 1
                    continue
                self.eat("]")
                return d
        if c == "(":
            self.i += 1
            d = {}
            while True:
                k = self.value()
                self.eat(":>")
                v = self.value()
                d[_hashable(k)] = v
                self.ws()
                if self.peek(2) == "@@":
                    self.i += 2
                    continue
                self.eat(")")
                return d
        if c == '"':
            j = self.i + 1
            out = []
            while self.s[j] != '"':
                if self.s[j] == "\\":
                    j += 1
                out.append(self.s[j])
                j += 1
            self.i = j + 1
            return "".join(out)
        m = re.compile(r"-?\d+").match(self.s, self.i)
        if m:
            self.i = m.end()
            # interval a..b
            if self.peek(2) == "..":
                self.i += 2
                hi = self.value()
                return frozenset(range(int(m.group(0)), hi + 1))
            return int(m.group(0))
        m = re.compile(r"[A-Za-z_][A-Za-z_0-9]*").match(self.s, self.i)
        if m:
            self.i = m.end()
            w = m.group(0)
            if w == "TRUE":
                return True
            if w == "FALSE":
                return False
            return w
        raise ParseError(f"cannot parse value at {self.i}: {self.s[self.i:self.i+40]!r}")

    def items(self, close):
        out = []
        self.ws()
        if self.s.startswith(close, self.i):
            self.i += len(close)
            return out
        while True:
            out.append(self.value())
            self.ws()
            if self.peek() == ",":
                self.i += 1
                continue
            self.eat(close)
            return out


def _hashable(x):
    if isinstance(x, list):
        return tuple(_hashable(y) for y in x)
    if isinstance(x, dict):
        return tuple(sorted((_hashable(k), _hashable(v)) for k, v in x.items()))
    if isinstance(x, (set, frozenset)):
        return frozenset(_hashable(y) for y in x)
    return x


def parse(s: str):
    p = _P(s)
    v = p.value()
    p.ws()
    if p.i != len(p.s):
        raise ParseError(f"trailing text at {p.i}: {p.s[p.i:p.i+40]!r}")
    return v


def parse_arglist(s: str) -> list:
    p = _P(s)
    out = []
    p.ws()
    if p.i >= len(p.s):
        return out
    while True:
        out.append(p.value())
        p.ws()
        if p.peek() == ",":
            p.i += 1
            continue
        break
    return out


_CONJ = re.compile(r"^/\\ (\w+) = ", re.M)


def parse_state(text: str) -> dict:
    """`/\\ v1 = value\\n/\\ v2 = value ...` (values may span lines) -> {v1: value, ...}."""
    text = text.strip()
    if not text.startswith("/\\"):
        # single-variable spec prints `v = value`
        m = re.match(r"(\w+) = ", text)
        if not m:
            raise ParseError(f"cannot parse state: {text[:80]!r}")
        return {m.group(1): parse(text[m.end():])}
    ms = list(_CONJ.finditer(text))
    st = {}
    for i, m in enumerate(ms):
        end = ms[i + 1].start() if i + 1 < len(ms) else len(text)
        st[m.group(1)] = parse(text[m.end():end])
    return st
