"""C03 — concurrent use of one study is linearizable.

Specs: LinStorage (linearizability of the Storage contract; TLC searches the linearization points),
Storage (contract), plus the algorithm-level specs of the backends checked elsewhere (JournalFile, CacheSync).
Code: real threads under the line-level deterministic scheduler (H2) on in-memory storage, on JournalStorage
(one object shared by threads; two objects on one journal = two processes), and statement-level interleaving of
several SQLite connections (H4, harness/rdb_sched.py).
"""
from __future__ import annotations

import concurrent.futures as cf
import json
import random

from . import common, storage_driver as sd, tlc
from . import thread_sched as ts

# preemption points: every source line of the storage layer AND of the standard library's copy module, because the storages
# hand out snapshots through copy.copy / copy.deepcopy and a copy running outside the lock is interruptible element by element
FILES = ("optuna/storages/_in_memory.py", "optuna/storages/journal/_storage.py", "optuna/storages/_cached_storage.py",
         "optuna/storages/_base.py", "optuna/storages/_grpc/client.py", "optuna/storages/_grpc/servicer.py")
FILES_COPY = FILES + ("/copy.py",)      # used for the snapshot-reader x multi-write pairs (mode "dense")

DF0 = {"c": "float", "g": 0, "k": 0}
DI0 = {"c": "int", "g": 0, "k": 0}
WAITING_TM = {"has": 1, "state": "WAITING", "values": sd.NONE_V, "params": {}, "ua": {"k1": 1}, "sa": {}, "iv": {},
              "ts": 0, "tc": 0}
SETUP = [
    {"a": "create_study", "name": "A", "dirs": [0]},
    {"a": "create_trial", "s": 1, "tm": {"has": 0}},                 # t1 RUNNING
    {"a": "create_trial", "s": 1, "tm": WAITING_TM},                 # t2 WAITING
    {"a": "create_trial", "s": 1, "tm": {"has": 1, "state": "COMPLETE", "values": [3], "params": {}, "ua": {}, "sa": {},
                                           "iv": {}, "ts": 1, "tc": 2}},   # t3 COMPLETE
]


SQLITE_KINDS = ("rdb_conns", "cached_rdb_threads", "sqlite")


def alphabet(w, kind=None):
    """calls worker w may issue concurrently (names/steps are per worker where the contract leaves overwrites open).
    delete_study is left out on SQLite: ids are reused there after a delete (recorded finding K2), which breaks the
    creation-order numbering of ids that the projection relies on"""
    al = _alphabet(w)
    if kind in SQLITE_KINDS:
        al = [p for p in al if not any(op["a"] == "delete_study" for op in p)]
    return al


def _alphabet(w):
    name = ["x", "y", "z"][w - 1]
    return [
        [{"a": "create_trial", "s": 1, "tm": {"has": 0}}],
        [{"a": "create_trial", "s": 1, "tm": WAITING_TM}],
        [{"a": "create_study", "name": "B", "dirs": [1]}],
        [{"a": "set_state", "t": 2, "state": "RUNNING", "values": sd.NONE_V}],
        [{"a": "set_state", "t": 1, "state": "COMPLETE", "values": [w]}],
        [{"a": "set_param", "t": 1, "name": name, "v": 3, "d": DF0 if w != 2 else DI0}],
        [{"a": "set_iv", "t": 1, "step": str(w), "v": w}],
        [{"a": "set_trial_ua", "t": 1, "key": "k1", "v": w}],
        [{"a": "set_trial_sa", "t": 2, "key": "k2", "v": w}],
        [{"a": "set_study_ua", "s": 1, "key": "k1", "v": w}],
        [{"a": "get_all_trials", "s": 1, "states": ["ALL"], "dc": 1, "as_list": 0}],
        [{"a": "get_all_trials", "s": 1, "states": ["WAITING"], "dc": 0, "as_list": 0}],
        [{"a": "get_n_trials", "s": 1, "state": "ALL"}],
        [{"a": "get_trial", "t": 1}],
        [{"a": "create_trial", "s": 1, "tm": {"has": 0}}, {"a": "set_param", "t": "own", "name": name, "v": 3, "d": DF0}],
        [{"a": "create_trial", "s": 1, "tm": {"has": 0}}, {"a": "set_state", "t": "own", "state": "COMPLETE", "values": [w]}],
        [{"a": "delete_study", "s": 1}],
        [{"a": "get_study_ua", "s": 1}],
        [{"a": "get_best_trial", "s": 1}],
        # two writes of one worker to an EARLIER and then a LATER trial: a reader that is interrupted while it copies the
        # list must not return the second write without the first
        [{"a": "set_trial_ua", "t": 1, "key": "k2", "v": w}, {"a": "set_trial_sa", "t": 2, "key": "k1", "v": w}],
        [{"a": "set_iv", "t": 1, "step": "7", "v": w}, {"a": "set_state", "t": 2, "state": "RUNNING", "values": sd.NONE_V}],
        # as the 16th program, but the LOWER-numbered worker brings the worse value (the preempted worker of a pair is
        # always worker 1: derived state such as the best-trial cache must not depend on who is interrupted)
        [{"a": "create_trial", "s": 1, "tm": {"has": 0}}, {"a": "set_state", "t": "own", "state": "COMPLETE", "values": [3 - w]}],
        # a worker that lists the study and finishes the trial ANOTHER worker is still creating ("next" = the id the next
        # create call will get), then lists again: a creator that comes back with its stale copy must not undo it in a cache
        [{"a": "get_all_trials", "s": 1, "states": ["ALL"], "dc": 1, "as_list": 0},
         {"a": "set_state", "t": "next", "state": "COMPLETE", "values": [w]},
         {"a": "get_all_trials", "s": 1, "states": ["ALL"], "dc": 1, "as_list": 0}],
    ]


def priority_pairs(kind):
    """pairs that are always run with EVERY preemption point, also in the quick tier: snapshot readers x multi-write programs"""
    al = alphabet(1, kind)
    readers = [i for i, p in enumerate(al) if p[0]["a"] in ("get_all_trials", "get_trial", "get_best_trial")]
    multi = [i for i, p in enumerate(al) if len(p) == 2 and not p[0]["a"].startswith("create")]
    pairs = [(r, m) for r in readers for m in multi]
    if kind == "cached_rdb_threads":
        nxt = [i for i, p in enumerate(al) if any(o.get("t") == "next" for o in p)]
        return pairs[:2] + [(0, n) for n in nxt]
    # two workers finishing their own trials with better-than-best values: every preemption point as well
    fin = [i for i, p in enumerate(al) if len(p) == 2 and p[1]["a"] == "set_state" and p[1]["t"] == "own"]
    nxt = [i for i, p in enumerate(al) if any(o.get("t") == "next" for o in p)]
    creators = [i for i, p in enumerate(al) if p[0]["a"] == "create_trial" and p[0]["tm"] == {"has": 0}]
    return pairs + [(a, b) for a in fin for b in fin] + [(c, n) for c in creators[:2] for n in nxt]


_CLOSERS = []


def make_storages(kind, sched):
    """returns (list of storage objects: one per worker, observer)"""
    common.use_repo()
    from optuna.storages import InMemoryStorage, JournalStorage

    if kind == "inmemory":
        s = InMemoryStorage()
        ts.patch_locks(sched, s)
        return [s, s, s], s
    if kind == "cached_rdb_threads":       # threads of one process share one _CachedStorage over SQLite
        import os
        import shutil
        import tempfile

        from optuna.storages import RDBStorage
        from optuna.storages._cached_storage import _CachedStorage

        wd = tempfile.mkdtemp(prefix="c03c-", dir=os.environ.get("VERIF_SCRATCH_BASE", "/var/tmp"))
        first = sd.fresh_rdb(wd, wd)
        first.remove_session()
        first.engine.dispose()
        inner = RDBStorage(f"sqlite:///{wd}/db.sqlite3", engine_kwargs={"connect_args": {"timeout": 0}},
                           skip_compatibility_check=True, skip_table_creation=True)
        s = _CachedStorage(inner)
        ts.patch_locks(sched, s)
        obs = RDBStorage(f"sqlite:///{wd}/db.sqlite3", skip_compatibility_check=True, skip_table_creation=True)

        def close():
            for x in (inner, obs):
                try:
                    x.remove_session()
                    x.engine.dispose()
                except Exception:
                    pass
            shutil.rmtree(wd, ignore_errors=True)
        _CLOSERS.append(close)
        return [s, s, s], obs
    if kind in ("grpc_stub_inmemory", "grpc_stub_journal"):
        # H5(b): a socket-free proxy.  The client's stub calls the REAL servicer method in the calling thread, so client
        # cache, servicer and backend all run under the line-level scheduler (a real server would run them on its own threads)
        import grpc
        from optuna.storages import GrpcStorageProxy
        from optuna.storages._grpc import client as gc
        from optuna.storages._grpc import servicer as gs

        if kind == "grpc_stub_inmemory":
            backend = InMemoryStorage()
        else:
            from .c06 import _backends as _b

            backend = JournalStorage(_b()[0]())
        ts.patch_locks(sched, backend)
        service = gs.OptunaStorageProxyService(backend)
        ts.patch_locks(sched, service)

        class Abort(grpc.RpcError):
            def __init__(self, code, details):
                super().__init__(details)
                self._code, self._details = code, details

            def code(self):
                return self._code

            def details(self):
                return self._details

        class Ctx:
            def abort(self, code, details=""):
                raise Abort(code, details)

        class Stub:
            def __getattr__(self, name):
                method = getattr(service, name)

                def call(request, *a, **k):
                    try:
                        return method(request, Ctx())
                    except Abort:
                        raise
                    except Exception as e:   # an exception class the servicer does not map reaches the client as UNKNOWN
                        raise Abort(grpc.StatusCode.UNKNOWN, f"Exception calling application: {type(e).__name__}: {e}")
                return call

        def proxy():
            p_ = GrpcStorageProxy.__new__(GrpcStorageProxy)
            p_._stub = Stub()
            p_._cache = gc.GrpcClientCache(p_._stub)
            p_._host, p_._port = "stub", 0
            ts.patch_locks(sched, p_._cache)
            ts.patch_locks(sched, p_)
            return p_
        shared = proxy()
        return [shared, shared, proxy()], backend
    from .c06 import _backends

    ListBackend, _ = _backends()
    be = ListBackend()
    if kind == "journal_threads":          # threads of one process share one JournalStorage object
        s = JournalStorage(be)
        ts.patch_locks(sched, s)
        return [s, s, s], s
    if kind == "journal_forked":           # ONE JournalStorage; fork_children() replaces it by forked copies after the set-up
        fork_shims(sched)
        s = JournalStorage(be)
        ts.patch_locks(sched, s)
        return [s, s, s], JournalStorage(be)
    if kind == "journal_procs":            # one JournalStorage object per worker on one journal: separate processes
        ss = [JournalStorage(be) for _ in range(3)]
        for s in ss:
            ts.patch_locks(sched, s)
        obs = JournalStorage(be)
        return ss, obs
    raise ValueError(kind)


def fork_shims(sched):
    """Process identity as the journal module sees it when workers are fork()ed children that run as scheduled threads:
    os.getpid() = a per-worker pid (the parent, i.e. the harness's main thread: 1000), threading.get_ident() = the ident of
    the parent's main thread in every process (fork keeps it)."""
    import os as real_os
    import threading as real_threading

    from optuna.storages.journal import _storage as JS

    class OsShim:
        def __getattr__(self, name):
            return getattr(real_os, name)

        @staticmethod
        def getpid():
            w = sched.current_worker()
            return 1000 if w is None else 5000 + w.wid

    class ThreadingShim:
        def __getattr__(self, name):
            return getattr(real_threading, name)

        @staticmethod
        def get_ident():
            return 77

    old = (JS.os, JS.threading)
    JS.os, JS.threading = OsShim(), ThreadingShim()

    def restore():
        JS.os, JS.threading = old
    _CLOSERS.append(restore)


def fork_children(parent, sched, n=3):
    """What n child processes hold after fork(): the same JournalStorage object (same uuid prefix), each with its own copy
    of the replayed state (fork_shims gives each its process id)."""
    import copy
    import threading as real_threading

    out = []
    for _ in range(n):
        child = copy.copy(parent)
        child._replay_result = copy.deepcopy(parent._replay_result)
        child._thread_lock = real_threading.Lock()
        ts.patch_locks(sched, child)
        out.append(child)
    return out


def execute(kind, programs, choose_factory, sched=None, group=None, files=None):
    """one execution: sequential set-up, then the workers' programs under the scheduler; returns the trace."""
    sched = sched or ts.Scheduler(files or FILES)
    storages, observer = group if group is not None else make_storages(kind, sched)
    rp0 = sd.Replayer(storages[0])
    raw_events = []          # (e, w, op, raw reply or None)
    for op in SETUP:
        ret, raw = rp0.call(op)
        raw_events.append(["start", 0, op, ret])
        raw_events.append(["end", 0, None, None])
    shared = (rp0.rawS, rp0.rawT, rp0.s_of_raw, rp0.t_of_raw)
    if kind == "journal_forked":
        storages = fork_children(storages[0], sched)

    def mk(w, prog, storage):
        rp = sd.Replayer(storage)
        # ids known from the set-up are shared; ids created concurrently are resolved after the run
        rp.rawS, rp.rawT = list(shared[0]), list(shared[1])
        rp.s_of_raw, rp.t_of_raw = dict(shared[2]), dict(shared[3])

        def body(worker):
            try:
                return inner(worker)
            except BaseException as e:  # noqa: a killed worker unwinds here
                if type(e).__name__ != "Killed":
                    raise

        def inner(worker):
            own = None
            for op in prog:
                op = dict(op)
                if op.get("t") == "own":
                    op["t"] = ("raw", own)
                if op.get("t") == "next":
                    op["t"] = ("raw", max(shared[1]) + 1)
                rec = ["start", w, op, None]
                sched.event(rec)
                ret, raw = call_raw(rp, op)
                if getattr(worker, "kill", False):
                    return                      # the worker died inside this call: no reply, nothing more
                if raw is not None and op["a"] == "create_trial":
                    own = raw
                rec[3] = (ret, raw)
                sched.event(["end", w, None, None])
        return body
    for i, prog in enumerate(programs):
        sched.add(mk(i + 1, prog, storages[i]))
    info = sched.run(choose_factory(sched))
    raw_events += sched.log
    closing = []
    for st in list(storages[:len(programs)]) + [observer]:
        if not any(st is x for x in closing):
            closing.append(st)
    t = _project_history(raw_events, shared, observer, sched, len(programs), closing=closing)
    while _CLOSERS:
        _CLOSERS.pop()()
    t.update({"choices": sched.choices, "deadlock": int(info["deadlock"]), "lines": [w.lines for w in sched.workers]})
    return t


def _project_history(raw_events, shared, observer, sched, nprog, closing=None):
    # ---- projection after the run: ids in creation (= raw id) order
    obs = sd.Replayer(observer)
    created_t = sorted(set(shared[1]) | {r[3][1] for r in raw_events if r[0] == "start" and r[1] > 0 and r[3] and
                                          r[2]["a"] == "create_trial" and r[3][1] is not None})
    created_s = sorted(set(shared[0]) | {r[3][1] for r in raw_events if r[0] == "start" and r[1] > 0 and r[3] and
                                          r[2]["a"] == "create_study" and r[3][1] is not None})
    # objects created by a call that never returned (its worker died inside it) are known only from the storage itself
    try:
        for fs in observer.get_all_studies():
            if fs._study_id not in created_s:
                created_s = sorted(set(created_s) | {fs._study_id})
            for ft in observer.get_all_trials(fs._study_id, deepcopy=False):
                if ft._trial_id not in created_t:
                    created_t = sorted(set(created_t) | {ft._trial_id})
    except Exception:
        pass
    t_of_raw = {r: i + 1 for i, r in enumerate(created_t)}
    s_of_raw = {r: i + 1 for i, r in enumerate(created_s)}
    obs.rawT, obs.t_of_raw, obs.rawS, obs.s_of_raw = created_t, t_of_raw, created_s, s_of_raw
    ev = []
    for e, w, op, res in raw_events:
        if e == "end":
            ev.append({"e": "end", "w": w})
            continue
        if w == 0:
            ev.append({"e": "start", "w": 0, "op": op, "ret": res})
            continue
        if res is None:         # the worker never finished this call: it was killed inside it, or dead-locked
            killed = sched is not None and any(getattr(wk, "kill", False) for wk in sched.workers if wk.wid == w)
            ev.append({"e": "start", "w": w, "op": fix_op(op, t_of_raw),
                       "ret": {"k": "err", "v": "Crashed" if killed else "NeverReturned"}})
            continue
        ret, raw = res
        ev.append({"e": "start", "w": w, "op": fix_op(op, t_of_raw), "ret": project(obs, op, ret, raw, s_of_raw, t_of_raw)})
    for e in ev:       # SQLite `database is locked` surfaces as StorageInternalError: the reply Busy (no effect)
        if e["e"] == "start" and e["ret"]["k"] == "err" and str(e["ret"]["v"]).startswith("Unexpected:StorageInternalError"):
            e["ret"] = {"k": "err", "v": "Busy"}
    # closing reads, after every worker has stopped: what the storage objects answer NOW must also be explained by the
    # chosen linearization (derived state such as the best-trial cache or the WAITING cursor is only visible this way)
    for st in ([observer] if closing is None else closing):
        rp = sd.Replayer(st)
        rp.rawT, rp.t_of_raw, rp.rawS, rp.s_of_raw = created_t, t_of_raw, created_s, s_of_raw
        for sidx in range(1, len(created_s) + 1):
            for op in ({"a": "get_best_trial", "s": sidx},
                       {"a": "get_all_trials", "s": sidx, "states": ["WAITING"], "dc": 1},
                       {"a": "get_all_trials", "s": sidx, "states": ["ALL"], "dc": 0}):
                ret, raw = _call_keep(rp, op)
                ret = project(obs, op, ret, raw, s_of_raw, t_of_raw)
                if ret["k"] == "err" and str(ret["v"]).startswith("Unexpected:StorageInternalError"):
                    continue
                ev.append({"e": "start", "w": 0, "op": op, "ret": ret})
                ev.append({"e": "end", "w": 0})
    ev.append({"e": "final", "w": 0, "post": obs.post()})
    return {"workers": list(range(nprog + 1)), "ev": ev, "choices": [], "deadlock": 0, "lines": []}


def fix_op(op, t_of_raw):
    op = dict(op)
    if isinstance(op.get("t"), tuple):
        op["t"] = t_of_raw.get(op["t"][1], 0)
    return op


def call_raw(rp, op):
    """like Replayer.call but keeps real objects for later projection and accepts ('raw', id) trial references"""
    if isinstance(op.get("t"), tuple):
        raw_t = op["t"][1]
        real = rp.T
        rp.T = lambda i: raw_t
        try:
            return _call_keep(rp, {**op, "t": 1})
        finally:
            rp.T = real
    return _call_keep(rp, op)


def _call_keep(rp, op):
    a = op["a"]
    if a in ("get_all_trials", "get_trial", "get_best_trial"):
        from optuna.trial import TrialState

        try:
            if a == "get_trial":
                return {"k": "ok", "v": ("trial", rp.storage.get_trial(rp.T(op["t"])))}, None
            if a == "get_best_trial":
                return {"k": "ok", "v": ("trial", rp.storage.get_best_trial(rp.S(op["s"])))}, None
            states = None if op["states"] == ["ALL"] else tuple(TrialState[s] for s in op["states"])
            return {"k": "ok", "v": ("trials", rp.storage.get_all_trials(rp.S(op["s"]), deepcopy=bool(op.get("dc", 1)),
                                                                         states=states))}, None
        except Exception as e:  # noqa
            n = type(e).__name__
            for cls in type(e).__mro__:
                if cls.__name__ in sd.ERRORS:
                    n = cls.__name__
                    break
            else:
                n = f"Unexpected:{n}:{str(e)[:100]}"
            return {"k": "err", "v": n}, None
    return rp.call(op)


def project(obs, op, ret, raw, s_of_raw, t_of_raw):
    if ret["k"] == "err":
        return ret
    v = ret["v"]
    if op["a"] == "create_trial":
        return {"k": "ok", "v": t_of_raw.get(raw, 0)}
    if op["a"] == "create_study":
        return {"k": "ok", "v": s_of_raw.get(raw, 0)}
    if isinstance(v, tuple) and v[0] == "trial":
        return {"k": "ok", "v": obs.proj_trial(v[1])}
    if isinstance(v, tuple) and v[0] == "trials":
        return {"k": "ok", "v": [obs.proj_trial(t) for t in v[1]]}
    return ret


# ---------------------------------------------------------------------------------------------------
# real operating-system processes (free running): the only place where time is used, and only as end(a) < start(b)
# ---------------------------------------------------------------------------------------------------
def _proc_body(kind, path, storage, maps, w, prog, q):
    import time

    common.use_repo()
    if storage is None:
        from optuna.storages import JournalStorage, RDBStorage
        from optuna.storages.journal import JournalFileBackend

        storage = (JournalStorage(JournalFileBackend(path)) if kind == "journal_fresh"
                   else RDBStorage(f"sqlite:///{path}", skip_compatibility_check=True, skip_table_creation=True))
    rp = sd.Replayer(storage)
    rp.rawS, rp.rawT, rp.s_of_raw, rp.t_of_raw = list(maps[0]), list(maps[1]), dict(maps[2]), dict(maps[3])
    out, own = [], None
    for op in prog:
        op = dict(op)
        if op.get("t") == "own":
            op["t"] = ("raw", own)
        if op.get("t") == "next":
            op["t"] = ("raw", max(maps[1]) + 1)
        t0 = time.monotonic_ns()
        ret, raw = call_raw(rp, op)
        t1 = time.monotonic_ns()
        if raw is not None and op["a"] == "create_trial":
            own = raw
        out.append((w, op, ret, raw, t0, t1))
    q.put(out)


def real_procs_execute(kind, programs, workdir):
    """kind: journal_fork (children inherit ONE JournalStorage object through fork), journal_fresh, sqlite"""
    import multiprocessing as mp
    import os
    import tempfile

    common.use_repo()
    from optuna.storages import JournalStorage
    from optuna.storages.journal import JournalFileBackend

    d = tempfile.mkdtemp(prefix="procs-", dir=workdir)
    if kind == "sqlite":
        first = sd.fresh_rdb(d, workdir)
        path, parent = os.path.join(d, "db.sqlite3"), first
    else:
        path = os.path.join(d, "journal.log")
        parent = JournalStorage(JournalFileBackend(path))
    rp0 = sd.Replayer(parent)
    raw_events = []
    for op in SETUP:
        ret, raw = rp0.call(op)
        raw_events.append(["start", 0, op, ret])
        raw_events.append(["end", 0, None, None])
    maps = (rp0.rawS, rp0.rawT, rp0.s_of_raw, rp0.t_of_raw)
    if kind == "sqlite":
        parent.remove_session()
        parent.engine.dispose()
    ctx = mp.get_context("fork")
    q = ctx.Queue()
    ps = [ctx.Process(target=_proc_body, args=(kind, path, parent if kind == "journal_fork" else None, maps, i + 1, prog, q))
          for i, prog in enumerate(programs)]
    for p_ in ps:
        p_.start()
    recs = []
    for _ in ps:
        recs += q.get(timeout=300)
    for p_ in ps:
        p_.join(timeout=60)
    stamped = []
    for w, op, ret, raw, t0, t1 in recs:
        rec = ["start", w, op, (ret, raw)]
        stamped.append((t0, 0, rec))
        stamped.append((t1, 1, ["end", w, None, None]))
    stamped.sort(key=lambda x: (x[0], x[1]))
    raw_events += [r for _, _, r in stamped]
    if kind == "sqlite":
        from optuna.storages import RDBStorage

        observer = RDBStorage(f"sqlite:///{path}", skip_compatibility_check=True, skip_table_creation=True)
    else:
        observer = JournalStorage(JournalFileBackend(path))
    t = _project_history(raw_events, maps, observer, None, len(programs))
    if kind == "sqlite":
        observer.remove_session()
        observer.engine.dispose()
    return t


# ---------------------------------------------------------------------------------------------------
# schedules
# ---------------------------------------------------------------------------------------------------
def preempt_at(i, first=1):
    """worker `first` runs i steps, then the others run to completion (round robin among the runnable), then `first`"""
    def factory(sched):
        def choose(r, step):
            f = [w for w in r if w.wid == first]
            others = [w for w in r if w.wid != first]
            if step < i and f:
                return f[0]
            return others[0] if others else r[0]
        return choose
    return factory


def random_schedule(seed, switch=0.15):
    def factory(sched):
        rng = random.Random(seed)
        state = {"cur": None}

        def choose(r, step):
            cur = state["cur"]
            if cur is None or cur not in r or rng.random() < switch:
                state["cur"] = rng.choice(r)
            return state["cur"]
        return choose
    return factory


def _pair_task(args):
    kind, ia, ib, mode = args
    if ia >= len(alphabet(1, kind)) or ib >= len(alphabet(2, kind)):
        return []
    A, B = alphabet(1, kind)[ia], alphabet(2, kind)[ib]
    out = []
    # dry run: how many yield points does A have when it runs first?
    files = FILES_COPY if mode == "dense" else FILES
    t = execute(kind, [A, B], preempt_at(10 ** 9), files=files)
    n = t["lines"][0] + 2
    if mode == "all":
        points = range(0, n + 1)
    elif mode.startswith("stride"):     # thorough tier of the slow kinds: every k-th point, phase from the pair
        k = int(mode[6:])
        points = range((ia + ib) % k, n + 1, k)
    elif mode == "dense":      # the copy of a list of trials is hundreds of lines long: about 40 evenly spread points
        points = range(0, n + 1, max(1, n // 40))
    else:
        points = sorted(set(random.Random(ia * 100 + ib).sample(range(0, n + 1), min(n + 1, 8))))
    for i in points:
        t = execute(kind, [A, B], preempt_at(i), files=files)
        t["replay"] = {"family": "pair", "kind": kind, "a": ia, "b": ib, "i": i, "dense": int(mode == "dense")}
        out.append(t)
    return out


# ---------------------------------------------------------------------------------------------------
# reader / writer / reader: THREE workers and TWO preemptions, systematic
# ---------------------------------------------------------------------------------------------------
# Worker 1 (A) and worker 2 (B) each take one snapshot read, worker 3 (W) runs one or two writes.  Schedule (p, q): A runs
# p yield points, W runs to its end, B runs q yield points, A runs to its end, B finishes.  A's read is in flight across the
# whole write and across B's read, which starts only after the write has returned.  Backends that keep client-side state
# (the _CachedStorage trial cache, the gRPC client cache, the journal's replayed state, the in-memory lists) are refreshed by
# A and by B in either order around the write; whatever the code does with the two refreshes, every history is judged by
# LinStorage as all others.  On the gRPC kinds A and B share one client and W is a second client.
RWR_KINDS = ("inmemory", "journal_threads", "cached_rdb_threads", "grpc_stub_inmemory", "grpc_stub_journal")
RWR_READ = [
    [{"a": "get_all_trials", "s": 1, "states": ["ALL"], "dc": 1, "as_list": 0}],
    [{"a": "get_all_trials", "s": 1, "states": ["RUNNING", "WAITING"], "dc": 0, "as_list": 0}],
    [{"a": "get_trial", "t": 1}],
    [{"a": "get_n_trials", "s": 1, "state": "COMPLETE"}],
]
RWR_WRITE = [
    [{"a": "set_state", "t": 1, "state": "COMPLETE", "values": [3]}],
    [{"a": "set_state", "t": 2, "state": "RUNNING", "values": sd.NONE_V}],
    [{"a": "create_trial", "s": 1, "tm": {"has": 0}}, {"a": "set_state", "t": "own", "state": "COMPLETE", "values": [3]}],
    [{"a": "set_trial_ua", "t": 1, "key": "k2", "v": 3}, {"a": "set_trial_sa", "t": 2, "key": "k1", "v": 3}],
    [{"a": "set_iv", "t": 1, "step": "7", "v": 3}, {"a": "set_state", "t": 1, "state": "FAIL", "values": sd.NONE_V}],
]


RWR_GRID_CAP = 6000      # thorough tier: the full (p, q) grid of one triple up to this many schedules, evenly thinned above


def rwr_triples():
    return [(a, w, b) for w in range(len(RWR_WRITE)) for a in range(len(RWR_READ)) for b in range(len(RWR_READ))]


def rwr_schedule(p, q):
    """A = worker 1, B = worker 2, W = worker 3.  A worker that cannot run (it waits for a lock another one holds) is
    passed over: the next phase's worker runs instead, so every (p, q) is a complete schedule"""
    def factory(sched):
        st = {"a": 0, "b": 0}

        def choose(r, step):
            by = {w.wid: w for w in r}
            if st["a"] < p and 1 in by:
                st["a"] += 1
                return by[1]
            if 3 in by:
                return by[3]
            if st["b"] < q and 2 in by:
                st["b"] += 1
                return by[2]
            return by[1] if 1 in by else r[0]
        return choose
    return factory


def rwr_execute(kind, ia, iw, ib, p, q):
    t = execute(kind, [RWR_READ[ia], RWR_READ[ib], RWR_WRITE[iw]], rwr_schedule(p, q))
    t["replay"] = {"family": "rwr", "kind": kind, "a": ia, "w": iw, "b": ib, "p": p, "q": q}
    return t


def _rwr_task(args):
    kind, ia, iw, ib, nq, pstride, seed = args[:7]
    chunk, nchunks = args[7:] or (0, 1)        # a task runs every nchunks-th p of its triple (wall time: SQLite runs are slow)
    # dry run: the numbers of yield points of A (it runs first) and of B (it runs last)
    t = execute(kind, [RWR_READ[ia], RWR_READ[ib], RWR_WRITE[iw]], rwr_schedule(10 ** 9, 10 ** 9))
    na, nb = t["lines"][0] + 2, t["lines"][1] + 2
    rng = random.Random(f"rwr/{kind}/{ia}/{iw}/{ib}/{seed}")
    out = []
    qstride = 1
    if nq is None and (na + 1) * (nb + 1) > RWR_GRID_CAP:      # gRPC calls: several hundred lines each; thin the grid evenly
        pstride = qstride = int(((na + 1) * (nb + 1) / RWR_GRID_CAP) ** 0.5) + 1
    for j, p in enumerate(range(rng.randrange(pstride), na + 1, pstride)):
        qs = (range(rng.randrange(qstride), nb + 1, qstride) if nq is None
              else sorted(rng.sample(range(0, nb + 1), min(nb + 1, nq))))
        if j % nchunks != chunk:
            continue
        for q in qs:
            out.append(rwr_execute(kind, ia, iw, ib, p, q))
    return out


def rwr_tasks(ctx):
    """quick: per kind, both readers = get_all_trials x every write program (3 of the 5, rotating with the seed, on the
    expensive kinds: SQLite and gRPC), plus one other triple picked by the seed; every p (every 3rd, seeded offset, on the gRPC
    kinds, whose calls are several hundred lines long) x 2-3 seeded q.
    thorough: every triple; every (p, q) where both readers are the same call (grids above RWR_GRID_CAP schedules, i.e. the
    gRPC kinds, thinned evenly with a seeded offset), every p x 8 seeded q for the mixed ones"""
    triples = rwr_triples()
    tasks = []
    nw = len(RWR_WRITE)
    for k, kind in enumerate(RWR_KINDS):
        if ctx.quick:
            costly = kind == "cached_rdb_threads" or kind.startswith("grpc")
            nq = 2 if costly else 3
            pstride = 3 if kind.startswith("grpc") else 1
            ws = [(ctx.seed + k + j) % nw for j in range(3)] if costly else range(nw)
            mixed = [t for t in triples if (t[0], t[2]) != (0, 0)]
            chosen = [(0, w, 0) for w in ws] + [mixed[(ctx.seed * 7 + k * 3) % len(mixed)]]
            tasks += [(kind, a, w, b, nq, pstride, ctx.seed) for a, w, b in chosen]
        else:
            tasks += [(kind, a, w, b, None if a == b else 8, 3 if kind.startswith("grpc") and a != b else 1, ctx.seed)
                      for a, w, b in triples]
    nchunks = {"cached_rdb_threads": 4 if ctx.quick else 16, "grpc_stub_inmemory": 2 if ctx.quick else 16,
               "grpc_stub_journal": 2 if ctx.quick else 16}
    tasks = [t + (c, nchunks.get(t[0], 1)) for t in tasks for c in range(nchunks.get(t[0], 1))]
    tasks.sort(key=lambda t: 0 if t[0] == "cached_rdb_threads" else 1 if t[0].startswith("grpc") else 2)   # longest first
    return tasks


def _random_task(args):
    kind, seed, n = args
    rng = random.Random(seed)
    out = []
    for j in range(n):
        nw = rng.choice([2, 2, 3])
        progs = []
        for w in range(1, nw + 1):
            al = alphabet(w, kind)
            p = []
            for entry in rng.sample(al, rng.choice([1, 2])):    # without replacement: no repeated set_param (D10)
                p += entry
            progs.append(p)
        s = rng.getrandbits(30)
        t = execute(kind, progs, random_schedule(s, rng.choice([0.05, 0.2, 0.5])))
        t["replay"] = {"family": "random", "kind": kind, "seed": seed, "index": j}
        out.append(t)
    return out


def _procs_task(args):
    kind, seed, n = args
    import os
    import shutil
    import tempfile

    rng = random.Random(seed)
    workdir = tempfile.mkdtemp(prefix="c03p-", dir=os.environ.get("VERIF_SCRATCH_BASE", "/var/tmp"))
    out = []
    try:
        for j in range(n):
            nw = rng.choice([2, 3, 3])
            progs = []
            for w in range(1, nw + 1):
                p = []
                for entry in rng.sample(alphabet(w, kind), rng.choice([2, 3])):
                    p += entry
                progs.append(p)
            t = real_procs_execute(kind, progs, workdir)
            t["replay"] = {"family": "procs", "kind": "procs_" + kind, "seed": seed, "index": j}
            out.append(t)
    finally:
        shutil.rmtree(workdir, ignore_errors=True)
    return out


def judge(ctx, traces, label):
    for i, t in enumerate(traces):
        t["tid"] = i + 1
        ctx.count_case([t["replay"].get("kind")] + [[e["e"], e["w"], e.get("op", {}).get("a")] for e in t["ev"]],
                       nontrivial=True)
    v = tlc.validate("LinStorage", "LinStorage", [{"tid": t["tid"], "workers": t["workers"], "ev": t["ev"]} for t in traces],
                     shards=16, timeout=2400)
    ctx.validated(v, label)
    from . import rdb_sched as _rs

    torn = _rs.classify_torn_reads(ctx, [traces[tid - 1] for tid in v.rejected
                                         if traces[tid - 1]["replay"].get("kind") in ("cached_rdb_threads", "procs_sqlite")
                                         and not _rs.concurrent_cas(traces[tid - 1])])
    for tid in sorted(v.rejected):
        t = traces[tid - 1]
        i = v.rejected[tid]["reached"]
        calls = [f"w{e['w']}:{e['op']['a']}->{json.dumps(e['ret'])[:80]}" for e in t["ev"] if e["e"] == "start" and e["w"] > 0]
        if id(t) in torn:
            ctx.known_finding(ctx.match_known(_rs.K13_SIG), f"threads of one process on SQLite, e.g. {calls}")
            continue
        if t["replay"].get("kind") in ("cached_rdb_threads", "procs_sqlite"):
            # threads of one process use separate SQLite connections: the recorded finding K1 applies to them as well
            from . import rdb_sched

            f = ctx.match_known(rdb_sched.K1_SIG) if rdb_sched.concurrent_cas(t) else None
            if f is None and rdb_sched.write_races_finish(t):
                f = ctx.match_known(rdb_sched.K14_SIG)
            if f is not None:
                ctx.known_finding(f, f"threads of one process on SQLite, e.g. {calls}")
                continue
        ctx.violation(f"{t['replay'].get('kind')}: no linearization explains the history {calls} "
                      f"(stuck at event #{i}; deadlock={t['deadlock']})",
                      {"replay": t["replay"], "choices": t["choices"], "events": t["ev"]})
        if len(ctx.violations) >= 6:
            break
    return v


KINDS = ["inmemory", "journal_threads", "journal_procs", "cached_rdb_threads", "grpc_stub_inmemory", "grpc_stub_journal"]


def run(ctx):
    ctx.rule = ("real threads, one runnable at a time, preemption at every source line of the storage layer: (1) every "
                "ordered pair of calls of a 16-call alphabet with a single preemption at every line of the first call "
                "(sampled lines in quick), (2) seeded random schedules of 2-3 workers x 1-2 calls; each history of call "
                "starts/ends + the final read-back state is validated by TLC against LinStorage (search over linearization "
                "points); (2b) reader/writer/reader: two snapshot readers and one writer, reader A preempted at every line, the "
                "writer runs to its end, reader B runs q lines, A finishes, B finishes (every (p, q) in thorough, every p x "
                "seeded q in quick); SQLite connections interleaved per SQL statement are in the rdb part; "
                "(3) real OS processes (fork) free-running on "
                "one journal file (one inherited JournalStorage object, or one object each) and on one SQLite file, ordered only "
                "by end(a) < start(b) on the monotonic clock; distinct = distinct histories")
    r = tlc.require_model("InMemLock", "InMemLock_q", must_cover=["CStart", "CReadId", "CBumpId", "CReadLen", "CAppend", "SStart",
                                                                  "SRead", "SWrite"], timeout=600)
    ctx.model(r, "InMemLock (methods are critical sections of one lock)")
    r = tlc.expect_violation("InMemLock", "InMemLock_neg", None, timeout=600)
    ctx.model(r, f"InMemLock_neg (lock removed: expected to violate a corollary; violated {r.violated})")
    r = tlc.expect_violation("WaitQueue", "WaitQueue_sqlite", "ClaimedAtMostOnce", timeout=600)
    ctx.model(r, "WaitQueue_sqlite (SQLite compare-and-set split in SELECT and UPDATE: recorded finding K1 is reachable)")
    n_al = len(alphabet(1))
    tasks = []
    for kind in KINDS:
        for ia in range(n_al):
            for ib in range(n_al):
                if ctx.quick and (ia * 7 + ib * 3 + ctx.seed) % (12 if kind == "cached_rdb_threads" else 8) != 0:
                    continue
                # thorough: every point; on the slow kinds (SQLite inside, gRPC stubs) every 3rd / 2nd point (the pairs
                # of priority_pairs() run with every point in both tiers)
                deep = "stride3" if kind == "cached_rdb_threads" else "stride2" if kind.startswith("grpc_stub") else "all"
                tasks.append((kind, ia, ib, "sample" if ctx.quick else deep))
        for ia, ib in priority_pairs(kind):
            tasks.append((kind, ia, ib, "dense"))
    traces = []
    with cf.ProcessPoolExecutor(max_workers=16) as ex:
        for res in ex.map(_pair_task, tasks, chunksize=4):
            traces += res
        rtasks = [(kind, ctx.seed * 1000 + i, (12 if kind == "cached_rdb_threads" else 40) if ctx.quick else 400)
                  for kind in KINDS for i in range(4)]
        random_results = ex.map(_random_task, rtasks)
        rwr_results = ex.map(_rwr_task, rwr_tasks(ctx))      # submitted together: the pool stays full
        for res in random_results:
            traces += res
        # reader / writer / reader: three workers, two preemptions, systematic
        n0 = len(traces)
        for res in rwr_results:
            traces += res
        ctx.notes["rwr_executions"] = len(traces) - n0
        # real OS processes, free running, ordered only by end(a) < start(b) on one monotonic clock
        ptasks = [(kind, ctx.seed * 31 + i, 6 if ctx.quick else 60) for kind in ("journal_fork", "journal_fresh", "sqlite")
                  for i in range(2 if ctx.quick else 4)]
        for res in ex.map(_procs_task, ptasks):
            traces += res
    ctx.notes["executions"] = len(traces)
    ctx.notes["deadlocks"] = sum(t["deadlock"] for t in traces)
    v = judge(ctx, traces, "threads under the line-level scheduler")
    from . import rdb_sched

    rdb_sched.run_part(ctx)
    for t in traces[:: max(1, len(traces) // 3)][:3]:
        ctx.sample({"kind": t["replay"]["kind"], "events": [e for e in t["ev"] if e["e"] != "final"][-8:]})
    if not ctx.violations:
        good = next(t for t in traces if t["tid"] in v.accepted and
                    sum(1 for e in t["ev"] if e["e"] == "start" and e["w"] > 0 and e["op"]["a"] == "create_trial") >= 2)

        def dup_number(t):
            # both concurrently created trials claim the same id: a lost update
            cs = [e for e in t["ev"] if e["e"] == "start" and e["w"] > 0 and e["op"]["a"] == "create_trial"]
            cs[1]["ret"] = dict(cs[0]["ret"])
        ctx.binding_selftest("LinStorage", "LinStorage", {"tid": 1, "workers": good["workers"], "ev": good["ev"]}, dup_number,
                             "two creates return the same id")
    ctx.assumptions += ["preemption at Python line events (not bytecodes); C-level dict/list operations are atomic under the GIL",
                        "journal 'processes' are separate JournalStorage objects on one atomic append-only list; the file "
                        "backend's own concurrency is C07",
                        "RDB = SQLite; FOR UPDATE row locks of server databases cannot be exercised"]


def replay(ctx, data):
    r = data["replay"]
    if r["family"] == "pair":
        A, B = alphabet(1, r["kind"])[r["a"]], alphabet(2, r["kind"])[r["b"]]
        t = execute(r["kind"], [A, B], preempt_at(r["i"]), files=FILES_COPY if r.get("dense") else FILES)
    elif r["family"] == "rwr":
        t = rwr_execute(r["kind"], r["a"], r["w"], r["b"], r["p"], r["q"])
    elif r["family"] == "random":
        t = _random_task((r["kind"], r["seed"], r["index"] + 1))[r["index"]]
    elif r["family"] == "procs":
        t = _procs_task((r["kind"][len("procs_"):], r["seed"], r["index"] + 1))[r["index"]]
    else:
        from . import rdb_sched

        return rdb_sched.replay(ctx, data)
    t["replay"] = r
    judge(ctx, [t], "replay")
