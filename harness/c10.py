"""C10 — suggested values lie in the declared domain, are stable and are what gets stored.

Spec: specs/Suggest.tla (the five-way decision of Trial._suggest over the exact domains of Domain.tla),
SuggestMC (exhaustive small instance), SuggestTrace (conformance: one trace per trial of a real study).

The harness builds scenarios (declared parameters x sampler x prior history x enqueued values x storage),
runs real studies, and inside the objective calls suggest_* for every declared parameter, calls it again,
and writes down: the token of the declared distribution (read from the real distribution object), the
observation record of every returned value (exact rational arithmetic, distances counted in doubles; see
harness/c11.py obs()), and 1/0 facts about bit-identity of two real values (repeated call, trial.params,
study.trials[i].params read back from the storage, enqueued value).  Which value a call must return and
whether it is a member of the domain is decided by TLC.
"""
from __future__ import annotations

import concurrent.futures as cf
import copy
import json
import math
import multiprocessing as mp
import os
import random
import signal
import tempfile

from . import c11, common, tlc

MC_ACTIONS = ["Reuse", "ReuseIncompatible", "Fixed", "SinglePoint", "Relative", "RelativeIncompatible", "Independent"]
BRANCHES = {"reuse", "fixed", "single", "relative", "independent", "sfixed", "error"}
SAMPLERS = ["random", "tpe", "tpe_mv", "qmc", "gp", "nsga2", "nsga3", "partial", "brute", "grid"]
RELATIVE_CAPABLE = {"tpe_mv", "qmc", "gp", "nsga2", "nsga3", "partial"}


# ----------------------------------------------------------------------------------------------
# parameters: {"kind": "float"|"int"|"cat", "args": {...}, "K": lattice exponent of the tokens}
# ----------------------------------------------------------------------------------------------
def _from_spec(spec, K):
    name, kw = spec
    kind = {"FloatDistribution": "float", "IntDistribution": "int", "CategoricalDistribution": "cat"}[name]
    return {"kind": kind, "args": dict(kw), "K": K}


EXTRA = [
    {"kind": "float", "args": {"low": -1e10, "high": 1e10}, "K": -9},                 # huge
    {"kind": "float", "args": {"low": 1e-10, "high": 2e-10}, "K": 11},                # tiny
    {"kind": "float", "args": {"low": 1e-10, "high": 2e-10, "log": True}, "K": 11},
    {"kind": "float", "args": {"low": 0.0, "high": 1e-20}, "K": 21},                  # whole range below the machine epsilon
    {"kind": "float", "args": {"low": -3e-18, "high": 2e-18}, "K": 19},
    {"kind": "float", "args": {"low": -1e6, "high": -999999.0}, "K": 1},              # narrow, far from 0
    {"kind": "float", "args": {"low": 1.0, "high": 1.0, "log": True}, "K": 1},        # log range [1, 1]
    {"kind": "float", "args": {"low": 1.0, "high": 2.0, "log": True}, "K": 2},        # log range near 1
    {"kind": "float", "args": {"low": 1e-3, "high": 1e3, "log": True}, "K": 3},
    {"kind": "float", "args": {"low": 0.999, "high": 1.001, "log": True}, "K": 4},
    {"kind": "float", "args": {"low": 0.0, "high": 1.0, "step": 0.3}, "K": 2},        # step does not divide the range
    {"kind": "float", "args": {"low": -1.0, "high": 1.0, "step": 0.7}, "K": 2},
    {"kind": "float", "args": {"low": 0.1, "high": 0.7, "step": 0.1}, "K": 2},
    {"kind": "float", "args": {"low": 1000.0, "high": 1001.0, "step": 0.3}, "K": 2},
    {"kind": "float", "args": {"low": 0.0, "high": 100.0, "step": 7.0}, "K": 1},
    {"kind": "int", "args": {"low": -1000000000, "high": 1000000000}, "K": 0},        # huge
    {"kind": "int", "args": {"low": 0, "high": 100, "step": 7}, "K": 0},
    {"kind": "int", "args": {"low": -7, "high": 8, "step": 5}, "K": 0},
    {"kind": "int", "args": {"low": 1, "high": 1, "log": True}, "K": 0},
    {"kind": "int", "args": {"low": 1, "high": 2, "log": True}, "K": 0},
    {"kind": "int", "args": {"low": 1, "high": 200, "log": True}, "K": 0},
    {"kind": "int", "args": {"low": 3, "high": 1000, "log": True}, "K": 0},
    {"kind": "cat", "args": {"choices": [None, True, 2, 0.5, "a"]}, "K": 1},          # mixed types
    {"kind": "cat", "args": {"choices": ["a", "b", "c"]}, "K": 1},
    {"kind": "cat", "args": {"choices": [False, None]}, "K": 1},
    {"kind": "cat", "args": {"choices": ["only"]}, "K": 1},                           # single point
]


def param_pool():
    pool = []
    for k in (0, 1):
        for spec, K in c11.lattice(k, 1):
            if spec[0] in ("FloatDistribution", "IntDistribution"):
                pool.append(_from_spec(spec, K))
    return pool, list(EXTRA)


def dist_of(od, p):
    """The real distribution object suggest_* builds for these arguments."""
    a = p["args"]
    if p["kind"] == "float":
        return od.FloatDistribution(a["low"], a["high"], log=a.get("log", False), step=a.get("step"))
    if p["kind"] == "int":
        return od.IntDistribution(a["low"], a["high"], log=a.get("log", False), step=a.get("step", 1))
    return od.CategoricalDistribution(tuple(a["choices"]))


class TransientStorageError(RuntimeError):
    pass


def call(trial, name, p):
    a = p["args"]
    if p["kind"] == "float":
        return trial.suggest_float(name, a["low"], a["high"], step=a.get("step"), log=a.get("log", False))
    if p["kind"] == "int":
        return trial.suggest_int(name, a["low"], a["high"], step=a.get("step", 1), log=a.get("log", False))
    return trial.suggest_categorical(name, a["choices"])


def grid_size(od, p):
    d = dist_of(od, p)
    if p["kind"] == "cat":
        return len(d.choices)
    if getattr(d, "step", None) is None:
        return None
    return int(round((d.high - d.low) / d.step)) + 1


def widen(p, mode, rng):
    """A compatible declaration of the same name with a different range (prior history / re-declaration)."""
    q = copy.deepcopy(p)
    a = q["args"]
    if p["kind"] == "cat":
        return q
    if mode == "far":            # the range used to be two orders of magnitude wider
        if a.get("log"):
            a["low"], a["high"] = (max(1, a["low"] // 100), a["high"] * 100) if p["kind"] == "int" else (a["low"] / 100.0, a["high"] * 100.0)
        else:
            unit = a.get("step", 1) if p["kind"] == "int" else (a.get("step") or 0.0)
            w = 100 * max(a["high"] - a["low"], unit, 1 if p["kind"] == "int" else 1e-12)
            if a.get("step") is not None:
                w = round(w / a["step"]) * a["step"]
            a["low"], a["high"] = a["low"] - w, a["high"] + w
        return q
    if p["kind"] == "int":
        if a.get("log"):
            a["low"], a["high"] = max(1, a["low"] // 2), a["high"] * 2 + 1
        else:
            w = max(2, (a["high"] - a["low"]) // 2) * a.get("step", 1)
            sh = (a.get("step", 1) // 2) if mode == "misaligned" else 0
            a["low"], a["high"] = a["low"] - w - sh, a["high"] + w
        return q
    lo, hi = a["low"], a["high"]
    if a.get("log"):
        a["low"], a["high"] = lo / 3.0, hi * 3.0
    elif a.get("step") is not None:
        sh = a["step"] / 2 if mode == "misaligned" else 0.0
        a["low"], a["high"] = lo - 2 * a["step"] - sh, hi + 2 * a["step"]
    else:
        w = (hi - lo) if hi > lo else max(abs(lo), 1.0)
        a["low"], a["high"] = lo - w, hi + w
    return q


def redeclare(od, p):
    """A compatible re-declaration of the same name with another range, on the token lattice of p."""
    q = copy.deepcopy(p)
    if p["kind"] == "cat":
        return q
    K = p["K"]
    tok = c11.dtok(dist_of(od, p), K)
    lo, hi, st = tok["lo"], tok["hi"], tok["step"]
    mk = (lambda n: n) if p["kind"] == "int" else (lambda n: c11.lat_float(n, K))
    if tok["log"]:
        q["args"]["high"] = mk(hi * 2 + 1)
    else:
        w = 2 * st if st > 0 else max(hi - lo, 1)
        q["args"]["low"], q["args"]["high"] = mk(lo - w), mk(hi + w)
    return q


def candidate_values(od, p, rng):
    """(in-domain values, out-of-domain values) of the parameter's own Python type, on the token lattice."""
    d = dist_of(od, p)
    if p["kind"] == "cat":
        return list(d.choices), []
    K = p["K"]
    tok = c11.dtok(d, K)
    lo, hi, st = tok["lo"], tok["hi"], tok["step"]
    mk = (lambda n: n) if p["kind"] == "int" else (lambda n: c11.lat_float(n, K))
    if st > 0:
        n = (hi - lo) // st
        ins = sorted({lo, hi, lo + st * (n // 2)})
        outs = [hi + st, lo - st] + ([lo + 1] if st > 1 and lo + 1 <= hi else [])
    else:
        ins = sorted({lo, hi, (lo + hi) // 2})
        outs = [hi + 1, lo - 1] if not tok["log"] else [hi + 1]
    if tok["log"]:          # "all parameters enqueued to the distribution must be positive values" (docstring)
        outs = [n for n in outs if n > 0]
    return [mk(n) for n in ins], [mk(n) for n in outs]


# ----------------------------------------------------------------------------------------------
# scenario generation (pure bookkeeping: what to run)
# ----------------------------------------------------------------------------------------------
def make_scenarios(ctx, od):
    rng = ctx.rng
    pool, extra = param_pool()
    per_sampler = ({"random": 50, "tpe": 50, "tpe_mv": 60, "qmc": 40, "gp": 10, "nsga2": 40, "nsga3": 20, "partial": 30,
                    "brute": 20, "grid": 20} if ctx.quick else
                   {"random": 700, "tpe": 700, "tpe_mv": 800, "qmc": 600, "gp": 120, "nsga2": 500, "nsga3": 300,
                    "partial": 400, "brute": 300, "grid": 300})
    scs = []
    extra_cycle = 0
    for sampler, n in per_sampler.items():
        for i in range(n):
            npar = rng.choice([1, 2, 2, 3])
            params = {}
            for j in range(npar):
                if rng.random() < 0.45:
                    p = extra[extra_cycle % len(extra)]
                    extra_cycle += 1
                else:
                    p = rng.choice(pool)
                params[f"p{j}"] = copy.deepcopy(p)
            if sampler == "brute":       # needs finite grids; keep the tree small
                ok = {}
                for nm, p in params.items():
                    g = grid_size(od, p)
                    if g is not None and g <= 6:
                        ok[nm] = p
                if not ok:
                    ok = {"p0": {"kind": "int", "args": {"low": -2, "high": 3, "step": 2}, "K": 0}}
                params = ok
            if sampler == "gp":          # optim_mixed enumerates the whole grid of a discrete parameter (np.arange): keep it small
                for nm, p in list(params.items()):
                    g = grid_size(od, p)
                    if g is not None and g > 2000:
                        params[nm] = {"kind": "int", "args": {"low": 0, "high": 100, "step": 7}, "K": 0}
            hist = rng.choice(["none", "same", "same", "wider", "misaligned", "far"])
            if sampler in ("brute", "grid"):
                hist = rng.choice(["none", "same"])
            storage = "mem"
            if sampler not in ("nsga2", "nsga3") and rng.random() < (0.10 if ctx.quick else 0.2):
                storage = rng.choice(["sqlite", "journal"])
            sc = {"sampler": sampler, "seed": rng.randrange(2 ** 31), "storage": storage, "params": params,
                  "hist": hist, "n_hist": 0 if hist == "none" else rng.choice([3, 4, 5]), "trials": [], "sid": len(scs)}
            # every 4th scenario (not brute/grid: a repeated suggest changes their bookkeeping): the storage refuses the FIRST
            # write of every parameter once (a transient error); the objective catches it and asks again
            if sampler not in ("brute", "grid") and len(scs) % 4 == 1:
                sc["flaky"] = True
            if sampler == "nsga2":
                sc["crossover"] = rng.choice(["uniform", "blx", "sbx", "vsbx", "undx", "spx"])
            if sampler == "qmc":
                sc["qmc_type"] = rng.choice(["sobol", "halton"])
                sc["scramble"] = rng.random() < 0.5
            if sampler == "partial":
                nm = rng.choice(sorted(params))
                ins, outs = candidate_values(od, params[nm], rng)
                sc["pf"] = {nm: rng.choice(ins if (rng.random() < 0.8 or not outs) else outs)}
                sc["base"] = rng.choice(["tpe_mv", "random"])
            if sampler == "grid":
                g = {}
                for nm, p in params.items():
                    ins, _ = candidate_values(od, p, rng)
                    g[nm] = ins
                sc["grid"] = g
            for t in range(3):
                plan = {"enqueue": None, "redeclare": None, "incompat": None}
                if t == 1 or rng.random() < 0.15:
                    enq = {}
                    for nm, p in params.items():
                        if rng.random() < 0.6 or sampler == "grid":      # GridSampler: all or none (documented ValueError)
                            ins, outs = candidate_values(od, p, rng)
                            if sampler == "brute":                       # its tree rejects values outside the domain
                                outs = []
                            enq[nm] = rng.choice(ins if (rng.random() < 0.65 or not outs) else outs)
                    plan["enqueue"] = enq or None
                if rng.random() < 0.3:
                    nm = rng.choice(sorted(params))
                    plan["redeclare"] = {nm: redeclare(od, params[nm])}
                if rng.random() < 0.25:
                    nm = rng.choice(sorted(params))
                    p = params[nm]
                    other = ({"kind": "int", "args": {"low": 1, "high": 5}, "K": 0} if p["kind"] != "int" else
                             {"kind": "float", "args": {"low": 0.0, "high": 1.0}, "K": 1})
                    if p["kind"] in ("int", "float") and rng.random() < 0.5 and p["args"]["low"] > 0:
                        other = copy.deepcopy(p)                              # same class, other log flag
                        other["args"].pop("step", None)
                        other["args"]["log"] = not p["args"].get("log", False)
                    plan["incompat"] = {nm: other}
                sc["trials"].append(plan)
            scs.append(sc)
    # systematic block: every history-using sampler x narrow domains whose earlier range was far wider
    narrow = [{"kind": "float", "args": {"low": 40.0, "high": 41.0}, "K": 1},
              {"kind": "float", "args": {"low": 0.999, "high": 1.001, "log": True}, "K": 4},
              {"kind": "float", "args": {"low": -1e6, "high": -999999.0}, "K": 1},
              {"kind": "float", "args": {"low": 0.1, "high": 0.7, "step": 0.1}, "K": 2},
              {"kind": "int", "args": {"low": -7, "high": 8, "step": 5}, "K": 0},
              {"kind": "int", "args": {"low": 3, "high": 1000, "log": True}, "K": 0}]
    for sampler in ("random", "tpe", "tpe_mv", "qmc", "gp", "nsga2", "nsga3", "partial"):
        for j, p in enumerate(narrow):
            params = {"p0": copy.deepcopy(p), "p1": copy.deepcopy(narrow[(j + 1) % len(narrow)])}
            sc = {"sampler": sampler, "seed": rng.randrange(2 ** 31), "storage": "mem", "params": params, "hist": "far",
                  "n_hist": 4, "sid": len(scs),
                  "trials": [{"enqueue": None, "redeclare": None, "incompat": None} for _ in range(3)]}
            if sampler == "partial":
                ins, _ = candidate_values(od, params["p1"], rng)
                sc["pf"], sc["base"] = {"p1": ins[0]}, "tpe_mv"
            scs.append(sc)
    # systematic block: narrow continuous domains after an EXTREME, off-centre history (ratio 1e4..1e8, all earlier values
    # far to one side of the new range): the kernels of TPE's estimator then lie tens of thousands of widths outside the
    # interval, where only an exact final clamp keeps the sample inside [low, high].  Several seeds per shape.
    def fl(low, high, K, log=False):
        a = {"low": low, "high": high}
        if log:
            a["log"] = True
        return {"kind": "float", "args": a, "K": K}
    extreme = [(fl(0.0, 1e6, 0), fl(0.1, 0.7, 2)),
               (fl(-1e6, 0.0, 0), fl(0.1, 0.7, 2)),
               (fl(1e3, 1e6, 0), fl(1e-3, 2e-3, 4)),
               (fl(0.0, 1e6, 0), fl(40.0, 41.0, 1)),
               (fl(0.0, 1e8, 0), fl(0.1, 0.7, 2)),
               (fl(-1e6, -1e3, 0), fl(-0.3, 0.2, 2)),
               (fl(1e-6, 1e6, 6, True), fl(1.0, 1.001, 4, True)),
               (fl(1e-3, 1e6, 3, True), fl(1e-3, 1.001e-3, 7, True)),
               (fl(1e2, 1e6, 0, True), fl(1e-3, 2e-3, 4, True))]
    n_seeds = 3 if ctx.quick else 12
    for sampler in ("tpe", "tpe_mv", "partial"):
        for j, (h0, p0) in enumerate(extreme):
            h1, p1 = extreme[(j + 4) % len(extreme)]
            for _ in range(n_seeds):
                sc = {"sampler": sampler, "seed": rng.randrange(2 ** 31), "storage": "mem",
                      "params": {"p0": copy.deepcopy(p0), "p1": copy.deepcopy(p1)},
                      "hist_params": {"p0": copy.deepcopy(h0), "p1": copy.deepcopy(h1)},
                      "hist": "extreme", "n_hist": 14, "sid": len(scs),
                      "trials": [{"enqueue": None, "redeclare": None, "incompat": None} for _ in range(5)]}
                if sampler == "partial":      # p1 fixed by the sampler, p0 sampled independently by the TPE base
                    ins, _ = candidate_values(od, p1, rng)
                    sc["pf"], sc["base"] = {"p1": ins[0]}, rng.choice(["tpe", "tpe_mv"])
                scs.append(sc)
    # systematic block: relative sampling of every sampler that has a relative mode (identical ranges in all earlier
    # trials, enough of them to leave the start-up phase / the first generation)
    plain = [{"kind": "float", "args": {"low": -0.2, "high": 0.3}, "K": 2},
             {"kind": "float", "args": {"low": 0.0, "high": 1.0, "step": 0.3}, "K": 2},
             {"kind": "int", "args": {"low": -2, "high": 3, "step": 2}, "K": 0},
             {"kind": "float", "args": {"low": 1e-3, "high": 1e3, "log": True}, "K": 3},
             {"kind": "int", "args": {"low": 1, "high": 200, "log": True}, "K": 0},
             {"kind": "cat", "args": {"choices": [None, True, 2, 0.5, "a"]}, "K": 1}]
    for sampler in sorted(RELATIVE_CAPABLE):
        for j in range(3):
            params = {f"p{i}": copy.deepcopy(plain[(2 * j + i) % len(plain)]) for i in range(3)}
            sc = {"sampler": sampler, "seed": rng.randrange(2 ** 31), "storage": "mem", "params": params, "hist": "same",
                  "n_hist": 5, "sid": len(scs),
                  "trials": [{"enqueue": None, "redeclare": None, "incompat": None} for _ in range(3)]}
            if sampler == "partial":
                ins, _ = candidate_values(od, params["p2"], rng)
                sc["pf"], sc["base"] = {"p2": ins[0]}, "tpe_mv"
            scs.append(sc)
    return scs


# ----------------------------------------------------------------------------------------------
# running one scenario on the real code
# ----------------------------------------------------------------------------------------------
class _TrialTimeout(BaseException):
    """A trial of the real study did not finish within TRIAL_TIMEOUT_S (BaseException: optuna must not catch it)."""


TRIAL_TIMEOUT_S = 90


def _alarm(signum, frame):
    raise _TrialTimeout()


def same(a, b) -> int:
    """Bit-identity of two real Python values (floats by bit pattern, everything else by type and ==)."""
    if isinstance(a, float) and isinstance(b, float) and not isinstance(a, bool) and not isinstance(b, bool):
        return int(float(a).hex() == float(b).hex())
    return int(type(a) is type(b) and a == b)


def _sampler(optuna, sc, od):
    s, seed = sc["sampler"], sc["seed"]
    S = optuna.samplers
    if s == "random":
        return S.RandomSampler(seed=seed)
    if s == "tpe":
        return S.TPESampler(seed=seed, n_startup_trials=2)
    if s == "tpe_mv":
        return S.TPESampler(seed=seed, n_startup_trials=2, multivariate=True, group=True, constant_liar=True)
    if s == "qmc":
        return S.QMCSampler(seed=seed, qmc_type=sc.get("qmc_type", "sobol"), scramble=sc.get("scramble", False))
    if s == "gp":
        import torch
        torch.set_num_threads(1)
        return S.GPSampler(seed=seed, n_startup_trials=2)
    if s == "nsga2":
        from optuna.samplers import nsgaii
        cx = {"uniform": nsgaii.UniformCrossover, "blx": nsgaii.BLXAlphaCrossover, "sbx": nsgaii.SBXCrossover,
              "vsbx": nsgaii.VSBXCrossover, "undx": nsgaii.UNDXCrossover, "spx": nsgaii.SPXCrossover}[sc.get("crossover", "uniform")]()
        return S.NSGAIISampler(seed=seed, population_size=3, crossover=cx)
    if s == "nsga3":
        return S.NSGAIIISampler(seed=seed, population_size=3)
    if s == "partial":
        base = (S.TPESampler(seed=seed, n_startup_trials=2, multivariate=True) if sc.get("base") == "tpe_mv"
                else S.TPESampler(seed=seed, n_startup_trials=2) if sc.get("base") == "tpe"
                else S.RandomSampler(seed=seed))
        return S.PartialFixedSampler(dict(sc["pf"]), base)
    if s == "brute":
        return S.BruteForceSampler(seed=seed)
    if s == "grid":
        return S.GridSampler({k: list(v) for k, v in sc["grid"].items()}, seed=seed)
    raise tlc.MachineryError(f"unknown sampler {s}")


def run_scenario(sc: dict) -> list:
    """Returns one record per judged trial: {"ev": [...events...], "meta": {...}}."""
    common.use_repo()
    import optuna
    import optuna.distributions as od
    tmp = None
    if sc["storage"] == "sqlite":
        tmp = tempfile.mkdtemp(prefix="c10-", dir=sc.get("scratch") or tlc.scratch())
        url = f"sqlite:///{tmp}/s.db"
        storage = optuna.storages.RDBStorage(url)
        fresh = lambda: optuna.storages.RDBStorage(url)   # noqa
    elif sc["storage"] == "journal":
        from optuna.storages import JournalStorage
        from optuna.storages.journal import JournalFileBackend
        tmp = tempfile.mkdtemp(prefix="c10-", dir=sc.get("scratch") or tlc.scratch())
        path = f"{tmp}/j.log"
        storage = JournalStorage(JournalFileBackend(path))
        fresh = lambda: JournalStorage(JournalFileBackend(path))   # noqa
    else:
        storage = optuna.storages.InMemoryStorage()
        fresh = None
    # GA samplers read their cached parents by trial id as a list position (finding K9, recorded under C09): with another
    # study in the storage they crash before suggesting anything, so they keep a storage of their own here
    common.decoy(storage, 0 if sc["sampler"] in ("nsga2", "nsga3") else sc["seed"] % 3)
    study = optuna.create_study(sampler=_sampler(optuna, sc, od), storage=storage, study_name="s")
    rng = random.Random(sc["seed"] ^ 0x5EED)
    params = sc["params"]
    decl = {nm: dist_of(od, p) for nm, p in params.items()}
    flaky_on = [False]
    if sc.get("flaky"):
        real_set_param = storage.set_trial_param
        refused = set()

        def set_trial_param(trial_id, name, value, dist):
            if flaky_on[0] and (trial_id, name) not in refused:
                refused.add((trial_id, name))
                raise TransientStorageError("scripted transient failure")
            return real_set_param(trial_id, name, value, dist)
        storage.set_trial_param = set_trial_param

    # ---- prior history (not judged): the same names, possibly under different ranges
    def hist_objective(trial):
        for nm, p in params.items():
            if nm in sc.get("hist_params", {}):
                q = sc["hist_params"][nm]
            else:
                q = p if sc["hist"] == "same" or (sc["hist"] != "far" and rng.random() < 0.3) else widen(p, sc["hist"], rng)
            call(trial, nm, q)
        return rng.random()
    out = []
    signal.signal(signal.SIGALRM, _alarm)
    if sc["n_hist"]:
        signal.alarm(TRIAL_TIMEOUT_S)
        try:
            study.optimize(hist_objective, n_trials=sc["n_hist"])
        except _TrialTimeout:
            return [{"ev": [], "meta": {"sid": sc["sid"], "trial": -1, "sampler": sc["sampler"], "storage": sc["storage"],
                                        "timeout": True}}]
        finally:
            signal.alarm(0)

    for plan in sc["trials"]:
        ev = []
        rec = {}

        def objective(trial, plan=plan, ev=ev, rec=rec):
            fixed = plan["enqueue"] or {}
            first = {}
            for nm, p in params.items():
                d, K = decl[nm], p["K"]
                for rep in (0, 1):
                    e = {"a": "suggest", "name": nm, "d": c11.dtok(d, K), "exc": 0, "o": c11._blank("none"), "tp": 0,
                         "same": -1, "fx": -1, "sfx": -1, "rx": -1}
                    try:
                        try:
                            v = call(trial, nm, p)
                        except TransientStorageError:
                            v = call(trial, nm, p)          # what a robust objective does: ask again
                    except Exception as ex:  # noqa: a declared, valid call must not raise
                        e["exc"] = 2
                        rec["exception"] = f"{type(ex).__name__}: {ex}"[:300]
                        ev.append(e)
                        raise
                    e["o"] = c11.obs(v, d, K)
                    e["tp"] = same(trial.params.get(nm, object()), v)
                    if rep == 0:
                        first[nm] = v
                    else:
                        e["same"] = same(first[nm], v)
                    if nm in fixed:
                        e["fx"] = same(fixed[nm], v)
                    if nm in sc.get("pf", {}):
                        e["sfx"] = same(sc["pf"][nm], v)
                    rp = trial._relative_params or {}
                    if nm in rp:
                        e["rx"] = same(rp[nm], v)
                    ev.append(e)
            for nm, q in (plan["redeclare"] or {}).items():      # same name, compatible other range: same value
                d2 = dist_of(od, q)
                v = call(trial, nm, q)
                ev.append({"a": "suggest", "name": nm, "d": c11.dtok(d2, q["K"]), "exc": 0, "o": c11.obs(v, decl[nm], q["K"]),
                           "tp": same(trial.params.get(nm, object()), v), "same": same(first[nm], v),
                           "fx": same(fixed[nm], v) if nm in fixed else -1, "sfx": -1, "rx": -1})
            for nm, q in (plan["incompat"] or {}).items():       # incompatible declaration: ValueError, nothing changes
                d2 = dist_of(od, q)
                e = {"a": "suggest", "name": nm, "d": c11.dtok(d2, q["K"]), "exc": 0, "o": c11._blank("none"), "tp": 0,
                     "same": -1, "fx": -1, "sfx": -1, "rx": -1}
                try:
                    v = call(trial, nm, q)
                    e["o"] = c11.obs(v, d2, q["K"])
                except ValueError:
                    e["exc"] = 1
                ev.append(e)
            rec["received"] = dict(first)
            rec["number"] = trial.number
            rs = trial.relative_search_space
            rp = trial._relative_params or {}
            rec["rs"] = {nm: c11.dtok(rs[nm], params[nm]["K"]) for nm in rs if nm in params}
            rec["rv"] = {nm: c11.obs(rp[nm], decl[nm], params[nm]["K"]) for nm in rp if nm in params and nm in rs}
            return rng.random()

        if plan["enqueue"]:
            study.enqueue_trial(dict(plan["enqueue"]))
        n_before = len(study.trials)
        signal.alarm(TRIAL_TIMEOUT_S)
        flaky_on[0] = True
        try:
            study.optimize(objective, n_trials=1)
        except _TrialTimeout:
            out.append({"ev": [], "meta": {"sid": sc["sid"], "trial": len(out), "sampler": sc["sampler"],
                                           "storage": sc["storage"], "timeout": True}})
            break              # the study is in an unknown state: stop this scenario
        except Exception as ex:  # noqa
            rec.setdefault("exception", f"{type(ex).__name__}: {ex}"[:300])
        finally:
            signal.alarm(0)
            flaky_on[0] = False
        if "received" not in rec and "exception" not in rec:
            continue            # the sampler stopped the study (exhaustive samplers): nothing to judge
        fixed_obs = {nm: c11.obs(v, decl[nm], params[nm]["K"]) for nm, v in (plan["enqueue"] or {}).items() if nm in params}
        sfixed_obs = {nm: c11.obs(v, decl[nm], params[nm]["K"]) for nm, v in sc.get("pf", {}).items() if nm in params}
        begin = {"a": "begin", "fixed": fixed_obs, "sfixed": sfixed_obs, "rs": rec.get("rs", {}), "rv": rec.get("rv", {})}
        tail = []
        if "received" in rec:
            views = [("study", study)]
            if fresh is not None:
                views.append((sc["storage"], optuna.load_study(study_name="s", storage=fresh())))
            for st, view in views:
                ft = view.trials[rec["number"]]
                for nm, v in rec["received"].items():
                    if nm in ft.params:
                        tail.append({"a": "stored", "name": nm, "st": st, "o": c11.obs(ft.params[nm], decl[nm], params[nm]["K"]),
                                     "eq": same(ft.params[nm], v)})
                tail.append({"a": "end", "names": sorted(ft.params)})
                if st == "study" and len(views) > 1:
                    tail.pop()            # one `end` per trace: judged on the freshly loaded view
        out.append({"ev": [begin] + ev + tail,
                    "meta": {"sid": sc["sid"], "trial": len(out), "sampler": sc["sampler"], "storage": sc["storage"],
                             "exception": rec.get("exception"), "n_before": n_before}})
    if tmp:
        import shutil
        shutil.rmtree(tmp, ignore_errors=True)
    return out


def _run_chunk(scs):
    res = []
    for sc in scs:
        try:
            res.append((sc["sid"], run_scenario(sc), None))
        except Exception as ex:  # noqa: harness/machinery problem, reported as such by the parent
            import traceback
            res.append((sc["sid"], [], traceback.format_exc()[-1500:]))
    return res


_THREAD_ENV = ("OMP_NUM_THREADS", "OPENBLAS_NUM_THREADS", "MKL_NUM_THREADS", "NUMEXPR_NUM_THREADS")


def execute(scs, workers=16):
    """Run the scenarios on a pool of freshly spawned interpreters with single-threaded BLAS/OpenMP (16 workers on a
    shared machine must not start 16 threads each); GP scenarios, the slow ones, go first in chunks of their own."""
    for s in scs:
        s["scratch"] = tlc.scratch()          # the parent's per-run directory (removed by the CLI on exit)
    slow = [s for s in scs if s["sampler"] == "gp"]
    rest = [s for s in scs if s["sampler"] != "gp"]
    n_chunks = max(1, len(rest) // 8)
    chunks = [slow[i:i + 2] for i in range(0, len(slow), 2)] + [rest[i::n_chunks] for i in range(n_chunks)]
    results = {}
    saved = {k: os.environ.get(k) for k in _THREAD_ENV}
    for k in _THREAD_ENV:
        os.environ[k] = "1"
    try:
        if len(scs) <= 2:
            for r in _run_chunk(scs):
                results[r[0]] = r
        else:
            with cf.ProcessPoolExecutor(max_workers=workers, mp_context=mp.get_context("spawn")) as ex:
                for res in ex.map(_run_chunk, chunks):
                    for r in res:
                        results[r[0]] = r
    finally:
        for k, v in saved.items():
            if v is None:
                os.environ.pop(k, None)
            else:
                os.environ[k] = v
    traces, metas = [], []
    for sc in scs:
        sid, recs, err = results[sc["sid"]]
        if err:
            raise tlc.MachineryError(f"scenario {json.dumps(sc, default=str)[:600]} failed in the harness:\n{err}")
        for r in recs:
            if r["meta"].get("timeout"):
                TIMEOUTS.append({"scenario": sc, "trial": r["meta"]["trial"]})
                continue
            traces.append({"tid": len(traces) + 1, "ev": r["ev"]})
            metas.append(r["meta"])
    return traces, metas


TIMEOUTS: list = []


def check_timeouts(ctx):
    """A trial that never returned is not a verdict by itself (the machine may be overloaded): machinery failure,
    unless the run already has violations to report."""
    if TIMEOUTS:
        ctx.notes["trials_timed_out"] = len(TIMEOUTS)
        if not ctx.violations:
            t = TIMEOUTS[0]
            raise tlc.MachineryError(f"{len(TIMEOUTS)} trial(s) did not finish within {TRIAL_TIMEOUT_S}s, first: trial "
                                     f"#{t['trial']} of {json.dumps(t['scenario'], default=str)[:700]}")


def judge(ctx, scs, traces, metas, label):
    by_sid = {s["sid"]: s for s in scs}
    v = tlc.validate("SuggestTrace", "SuggestTrace", traces, shards=16, timeout=1500)
    ctx.validated(v, label)
    for tid in sorted(v.rejected):
        t, m = traces[tid - 1], metas[tid - 1]
        i = v.rejected[tid]["reached"]
        e = t["ev"][i - 1] if 1 <= i <= len(t["ev"]) else None
        sc = by_sid[m["sid"]]
        what = (f"sampler {m['sampler']} storage {m['storage']} trial #{m['trial']} of scenario {m['sid']}: event #{i} "
                f"{json.dumps(e)} is not a step of Suggest.tla"
                + (f" (the call raised {m['exception']})" if m.get("exception") else "")
                + f"; declared parameters {json.dumps(sc['params'], default=str)}, history {sc['hist']}x{sc['n_hist']}, "
                  f"plan {json.dumps(sc['trials'][m['trial']] if m['trial'] < len(sc['trials']) else None, default=str)}")
        ctx.violation(what[:1800], {"scenario": sc, "failing_trial": m["trial"], "failing_event": i, "recorded": t["ev"]})
        if len(ctx.violations) >= 8:
            break
    return v


def branch_counts(v, metas):
    per = {}
    for p in v.prints:
        if p and p[0] == "BR":
            m = metas[p[1] - 1]
            d = per.setdefault(m["sampler"], {})
            for b in p[2]:
                d[b] = d.get(b, 0) + 1
    return per


def run(ctx):
    ctx.rule = ("scenarios = declared parameters (decimal lattice of Float/Int domains incl. non-dividing steps and single "
                "points + named extreme shapes + mixed-type categoricals) x 10 built-in sampler configurations x prior "
                "history (none / same ranges / wider / misaligned / 100x wider / 1e4..1e8x wider off-centre ranges, past start-up) x enqueued "
                "values (in and out of range) x storage (in-memory; samples on SQLite and journal file, re-read through a "
                "fresh storage object); every judged trial is one trace validated by TLC against SuggestTrace; distinct = "
                "distinct (sampler, event sequence) traces with at least one sampled value")
    r = tlc.require_model("SuggestMC", "SuggestMC_q", must_cover=MC_ACTIONS, timeout=900)
    ctx.model(r, "SuggestMC")
    r2 = tlc.expect_violation("SuggestMC", "SuggestMC_d7", "D7Reachable", timeout=600)
    ctx.notes["D7_out_of_range_fixed_value_reachable_in_spec"] = r2.violated == "D7Reachable"
    common.use_repo()
    import optuna.distributions as od
    scs = make_scenarios(ctx, od)
    traces, metas = execute(scs)
    for t, m in zip(traces, metas):
        ctx.count_case([m["sampler"]] + t["ev"], nontrivial=any(e["a"] == "suggest" and e["same"] == -1 and e["fx"] == -1
                                                                  for e in t["ev"]))
    v = judge(ctx, scs, traces, metas, "trials")
    check_timeouts(ctx)
    per = branch_counts(v, metas)
    ctx.notes["branches_per_sampler"] = per
    seen = set()
    for d in per.values():
        seen |= set(d)
    if not ctx.violations and not BRANCHES <= seen:
        raise tlc.MachineryError(f"vacuous conformance run: branches never taken: {sorted(BRANCHES - seen)}")
    norel = [s for s in RELATIVE_CAPABLE if not per.get(s, {}).get("relative")]
    if not ctx.violations and norel:
        raise tlc.MachineryError(f"vacuous conformance run: no relative sample was observed for {norel}")
    ctx.notes["traces_per_sampler"] = {s: sum(1 for m in metas if m["sampler"] == s) for s in SAMPLERS}
    ctx.notes["traces_per_storage"] = {s: sum(1 for m in metas if m["storage"] == s) for s in ("mem", "sqlite", "journal")}
    ctx.notes["skipped"] = "CmaEsSampler (package cmaes is not installed)"
    if ctx.violations:
        return              # the verdict is out; self-tests need an accepted batch
    for t, m in list(zip(traces, metas))[:: max(1, len(traces) // 4)][:4]:
        ctx.sample({"sampler": m["sampler"], "storage": m["storage"], "events": t["ev"][:6]})

    # binding self-tests
    def pick(pred):
        return next(t for t in traces if t["tid"] in v.accepted and pred(t))

    def flip_same(t):
        next(e for e in t["ev"] if e["a"] == "suggest" and e["same"] == 1)["same"] = 0

    def flip_stored(t):
        next(e for e in t["ev"] if e["a"] == "stored")["eq"] = 0

    def out_of_domain(t):
        for e in t["ev"]:
            if e["a"] == "suggest" and e["name"] == "p0" and e["d"]["cls"] == "Int" and e["exc"] == 0:
                e["o"]["fl"] = e["o"]["ce"] = e["o"]["near"] = e["d"]["hi"] + e["d"]["step"]
    ctx.binding_selftest("SuggestTrace", "SuggestTrace", pick(lambda t: any(e.get("same") == 1 for e in t["ev"])),
                         flip_same, "repeated call differs")
    ctx.binding_selftest("SuggestTrace", "SuggestTrace", pick(lambda t: any(e["a"] == "stored" for e in t["ev"])),
                         flip_stored, "stored value differs")
    ctx.binding_selftest("SuggestTrace", "SuggestTrace",
                         pick(lambda t: t["ev"][0]["fixed"] == {} and t["ev"][0]["sfixed"] == {} and
                              any(e["a"] == "suggest" and e["name"] == "p0" and e["d"]["cls"] == "Int" and e["exc"] == 0
                                  and e["same"] == -1 for e in t["ev"])),
                         out_of_domain, "value above high")
    ctx.assumptions += [
        "D7: an enqueued / PartialFixedSampler value outside the declared domain is returned as it is (the code warns)",
        "enqueued values have the parameter's own Python type (float for suggest_float, int for suggest_int, a member "
        "of the choices for suggest_categorical); categorical choices are pairwise != in Python",
        "stepped floats: on the grid = within 1e-8 step of a grid point and inside [low, high] (FloatDistribution._contains); "
        "log-scaled floats: up to 4 doubles outside [low, high] are admitted, as the statement allows",
        "equality facts (repeated call, trial.params, stored value, enqueued value) are bit-identity for floats and "
        "type-and-== for everything else",
        "whether TPE/GP/QMC/NSGA arithmetic rounds correctly is observed, not modelled",
        "NSGA-II/III run on in-memory storage only (recorded defect F4: parent cache by trial id on other storages); "
        "CmaEsSampler is skipped (cmaes not installed); RDB = SQLite",
    ]


def replay(ctx, data):
    sc = data["scenario"]
    traces, metas = execute([sc])
    if traces:
        judge(ctx, [sc], traces, metas, "replay")
    check_timeouts(ctx)
