"""Redis journal backend under concurrency (family of C06; spec JournalRedis / JournalRedisTrace).

Several JournalRedisBackend objects (one per worker thread) talk to ONE fakeredis server.  The threads run under the
line-level scheduler with preemption at every source line of optuna/storages/journal/_redis.py; every Redis command the
real code issues is logged by a thin proxy around the client object in the order the server executed it; time.sleep of
the module is a yield point.  TLC replays the commands on the JournalRedis actions (JournalRedisTrace).
"""
from __future__ import annotations

import json
import random

from . import common, tlc

FILES = ("/storages/journal/_redis.py",)
MAX_SLEEPS = 40


class Abandon(BaseException):
    pass


def run_case(case):
    """case: {"hid", "cluster": bool, "progs": {wid: [("append", n) | ("read", from)]}, "seed", "switch", "crash": None | [wid, nth_cmd]}"""
    common.use_repo()
    import fakeredis
    from optuna.storages.journal import _redis as JR
    from . import thread_sched as ts

    sched = ts.Scheduler(FILES)
    server = fakeredis.FakeServer()
    events = []
    counters = {}
    state = {"cmds": {}}

    class Proxy:
        def __init__(self, w):
            self.w = w
            self.r = fakeredis.FakeStrictRedis(server=server)
            self.reading = None

        def _count(self):
            state["cmds"][self.w] = state["cmds"].get(self.w, 0) + 1
            c = case.get("crash")
            if c and c[0] == self.w and state["cmds"][self.w] == c[1]:
                events.append({"e": "crash", "w": self.w})
                me = sched.current_worker()
                me.dead = True
                raise Abandon()

        def setnx(self, key, val):
            self._count()
            r = self.r.setnx(key, val)
            events.append({"e": "setnx", "w": self.w})
            return r

        def eval(self, script, nkeys, prefix, payload):
            self._count()
            self.r.eval(script, nkeys, prefix, payload)
            idx = int(self.r.get(f"{prefix}:log_number"))
            events.append({"e": "eval", "w": self.w, "idx": idx, "rec": json.loads(payload)["rec"]})

        def incr(self, key, n=1):
            self._count()
            idx = self.r.incr(key, n)
            events.append({"e": "incr", "w": self.w, "idx": int(idx)})
            return idx

        def set(self, key, payload):
            self._count()
            self.r.set(key, payload)
            events.append({"e": "set", "w": self.w, "idx": int(key.rsplit(":", 1)[1]), "rec": json.loads(payload)["rec"]})

        def get(self, key):
            v = self.r.get(key)
            if key.endswith(":log_number"):
                events.append({"e": "getmax", "w": self.w, "from": self.reading, "max": -2 if v is None else int(v)})
            else:
                events.append({"e": "get", "w": self.w, "i": int(key.rsplit(":", 1)[1]), "hit": int(v is not None)})
            return v

    class TimeShim:
        @staticmethod
        def sleep(secs):
            me = sched.current_worker()
            if me is not None:
                counters[me.wid] = counters.get(me.wid, 0) + 1
                events.append({"e": "sleep", "w": WID[me.wid]})
                if counters[me.wid] > MAX_SLEEPS:
                    raise Abandon()          # the record will never arrive (its appender is dead): documented blocking
                sched.yield_point(me, "sleep")
    JR.time = TimeShim
    WID = {}

    def mk(w, prog):
        be = JR.JournalRedisBackend("redis://localhost", use_cluster=case["cluster"], prefix="p")
        px = Proxy(w)
        be._redis = px
        nrec = [0]

        def body(worker):
            try:
                for op in prog:
                    if op[0] == "append":
                        recs = []
                        for _ in range(op[1]):
                            nrec[0] += 1
                            recs.append({"rec": [w, nrec[0]], "pad": "x" * 3})
                        be.append_logs(recs)
                        events.append({"e": "done", "w": w})
                    else:
                        px.reading = op[1]
                        had_max = len(events)
                        got = be.read_logs(op[1])
                        absent = any(e["e"] == "getmax" and e["w"] == w and e["max"] == -2 for e in events[had_max:])
                        events.append({"e": "ret0" if absent else "ret", "w": w, "got": [g["rec"] for g in got]})
            except Abandon:
                pass
            except Exception as e:   # the class is the observation: no action of the spec lets append/read raise
                events.append({"e": "raised", "w": w, "exc": type(e).__name__})
        return body
    for i, (w, prog) in enumerate(sorted(case["progs"].items()), 1):
        WID[i] = int(w)
        sched.add(mk(int(w), prog))
    rng = random.Random(case["seed"])
    cur = {"w": None}
    pre = case.get("preempt")

    def choose(r, step):
        if pre is not None:                                  # single preemption of the first worker at point p
            f = [x for x in r if x.wid == 1]
            others = [x for x in r if x.wid != 1]
            if step < pre and f:
                return f[0]
            return others[0] if others else r[0]
        if cur["w"] is None or cur["w"] not in r or rng.random() < case["switch"]:
            cur["w"] = rng.choice(r)
        return cur["w"]
    res = sched.run(choose)
    if res["deadlock"]:
        raise tlc.MachineryError(f"redis journal case {case['hid']} deadlocked")
    for w in sched.workers:
        if w.error is not None:
            raise tlc.MachineryError(f"redis journal case {case['hid']}: worker raised {w.error!r}")
    return {"hid": case["hid"], "cluster": case["cluster"], "ev": events, "lines": [w.lines for w in sched.workers],
            "case": {k: v for k, v in case.items()}}


def gen_cases(rng, n, cluster):
    out = []
    for i in range(n):
        na = rng.choice([1, 2, 2, 3])
        nr = rng.choice([1, 1, 2])
        progs = {}
        for a in range(1, na + 1):
            progs[a] = [("append", rng.choice([1, 1, 2])) for _ in range(rng.choice([1, 2]))]
        for r in range(11, 11 + nr):
            progs[r] = [("read", rng.choice([0, 0, 1, 2])) for _ in range(rng.choice([1, 2, 3]))]
        crash = None
        if cluster and rng.random() < 0.3:
            crash = [rng.randint(1, na), rng.choice([2, 3, 3, 4])]     # 3 = the SET after the first INCR
        out.append({"hid": f"jr{int(cluster)}-{i}", "cluster": cluster, "progs": progs, "seed": rng.getrandbits(30),
                    "switch": rng.choice([0.1, 0.3, 0.6]), "crash": crash})
    return out


def preempt_cases(cluster):
    """an appender (two appends of one record) preempted once at every yield point while a reader reads twice"""
    base = {"cluster": cluster, "progs": {1: [("append", 1), ("append", 2)], 11: [("read", 0), ("read", 1)]}, "seed": 0,
            "switch": 0.0, "crash": None}
    dry = run_case(dict(base, hid="dry", preempt=10 ** 9))
    n = dry["lines"][0] + 2
    return [dict(base, hid=f"jrp{int(cluster)}-{p}", preempt=p) for p in range(0, n + 1)]


def _chunk(cases):
    return [run_case(c) for c in cases]


def run_part(ctx):
    import concurrent.futures as cf

    for cfg, neg in (("JournalRedis_q", False), ("JournalRedis_s", False)) + ((("JournalRedis_t", False),) if not ctx.quick else ()):
        r = tlc.require_model("JournalRedis", cfg, must_cover=["SetNX", "Done", "GetMax", "GetSlot", "Return"] +
                              (["EvalAppend"] if cfg.endswith("_s") else ["Incr", "SetSlot", "Crash"]), timeout=2400)
        ctx.model(r, cfg)
    r = tlc.expect_violation("JournalRedis", "JournalRedis_neg", "ReadsAreContiguous", timeout=600)
    ctx.model(r, "JournalRedis_neg (reader that skips a missing record instead of waiting: expected to violate ReadsAreContiguous)")
    rng = random.Random(ctx.rng.getrandbits(48))
    n = 60 if ctx.quick else 800
    cases = gen_cases(rng, n, True) + gen_cases(rng, n, False) + preempt_cases(True) + preempt_cases(False)
    chunks = [cases[i::16] for i in range(16)]
    traces = []
    with cf.ProcessPoolExecutor(max_workers=16) as ex:
        for res in ex.map(_chunk, chunks):
            traces += res
    waits = sum(1 for t in traces for e in t["ev"] if e["e"] == "get" and e["hit"] == 0)
    ctx.notes["redis_journal"] = {"executions": len(traces), "reader_waits_for_a_record_in_flight": waits,
                                  "crashes": sum(1 for t in traces for e in t["ev"] if e["e"] == "crash")}
    if waits == 0:
        raise tlc.MachineryError("vacuous run: no reader ever met a record in flight (INCR done, SET pending)")
    for i, t in enumerate(traces):
        t["tid"] = i + 1
        ctx.count_case(["redis", t["cluster"]] + [[e["e"], e["w"], e.get("idx", e.get("i"))] for e in t["ev"]],
                       nontrivial=len(t["ev"]) > 6)
    for mode, cfg in ((True, "JournalRedisTrace_cluster"), (False, "JournalRedisTrace_single")):
        sub = [t for t in traces if t["cluster"] == mode]
        v = tlc.validate("JournalRedisTrace", cfg, [{"tid": t["tid"], "ev": t["ev"]} for t in sub], shards=8, timeout=1200)
        ctx.validated(v, f"redis journal backend ({'cluster' if mode else 'standalone'} mode)")
        by = {t["tid"]: t for t in sub}
        for tid in sorted(v.rejected):
            t = by[tid]
            i = v.rejected[tid]["reached"]
            ev = t["ev"][i - 1] if 1 <= i <= len(t["ev"]) else None
            ctx.violation(f"redis journal backend ({'cluster' if mode else 'standalone'}), execution {t['hid']}: command #{i} "
                          f"{json.dumps(ev)} is not what append_logs/read_logs may do here (a reader returned a gap or the "
                          f"wrong records, an index was reused, or an acknowledged record is missing)",
                          {"redis": t["case"], "failing_event": i, "events": t["ev"][: i + 1]})
            if len(ctx.violations) >= 6:
                return
        if mode and not ctx.violations:
            good = next((t for t in sub if t["tid"] in v.accepted and any(e["e"] == "ret" and len(e["got"]) >= 2 for e in t["ev"])), None)
            if good is not None:
                def swap(t):
                    for e in t["ev"]:
                        if e["e"] == "ret" and len(e["got"]) >= 2:
                            e["got"][0], e["got"][1] = e["got"][1], e["got"][0]
                            return
                ctx.binding_selftest("JournalRedisTrace", cfg, {"tid": 1, "ev": good["ev"]}, swap, "two records of a read swapped")
    ctx.assumptions.append("Redis = fakeredis (one server object shared by the clients; every command atomic); cluster mode = "
                           "the code path without the Lua script")


def replay(ctx, data):
    t = run_case(data["redis"])
    t["tid"] = 1
    cfg = "JournalRedisTrace_cluster" if t["cluster"] else "JournalRedisTrace_single"
    v = tlc.validate("JournalRedisTrace", cfg, [{"tid": 1, "ev": t["ev"]}])
    ctx.validated(v, "replay (redis journal)")
    for tid in v.rejected:
        i = v.rejected[tid]["reached"]
        ctx.violation(f"redis journal backend, replay: command #{i} {json.dumps(t['ev'][i - 1]) if 1 <= i <= len(t['ev']) else '?'}",
                      {"redis": t["case"]})
