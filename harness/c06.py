"""C06 — journal replay is deterministic: all workers converge on the same state.

Specs: JournalReplay (Fold over the Storage contract + the batch algorithm), JournalReplayMC (bounded
exhaustive instance incl. a deliberately wrong cursor variant that must fail), JournalReplayTrace.
"""
from __future__ import annotations

import concurrent.futures as cf
import copy
import json
import pickle
import random

from . import common, storage_driver as sd, storage_gen as sg, tlc

MC_COVER = ["Issue", "Sync", "SyncPartial", "SaveSnapshot", "OpenFromSnapshot", "OpenFresh"]


def _backends():
    common.use_repo()
    from optuna.storages.journal._base import BaseJournalBackend, BaseJournalSnapshot

    class ListBackend(BaseJournalBackend, BaseJournalSnapshot):
        """an append-only list with the serialisation of the file backend (JSON) and a snapshot slot"""

        def __init__(self):
            self.lines = []
            self.snap = None

        def read_logs(self, log_number_from):
            return [json.loads(x) for x in self.lines[log_number_from:]]

        def append_logs(self, logs):
            self.lines += [json.dumps(x, separators=(",", ":")) for x in logs]

        def save_snapshot(self, snapshot):
            self.snap = snapshot

        def load_snapshot(self):
            return self.snap

    class NoSnap(BaseJournalBackend):
        """the same log without the snapshot capability: a storage opened on it replays from the start"""

        def __init__(self, inner):
            self.inner = inner

        def read_logs(self, n):
            return self.inner.read_logs(n)

        def append_logs(self, logs):
            return self.inner.append_logs(logs)

    return ListBackend, NoSnap


class Shared:
    """raw <-> creation-order ids, shared by all objects of one history (journal ids are functions of the log)"""

    def __init__(self):
        self.rawS, self.rawT, self.s_of_raw, self.t_of_raw = [], [], {}, {}


def _replayer(storage, shared):
    rp = sd.Replayer(storage)
    rp.rawS, rp.rawT, rp.s_of_raw, rp.t_of_raw = shared.rawS, shared.rawT, shared.s_of_raw, shared.t_of_raw
    return rp


def _view_of_result(rp, result):
    """project a raw JournalStorageReplayResult (no sync happens)"""
    studies = sorted(result.get_all_studies(), key=lambda fs: rp.s_of_raw.get(fs._study_id, 0))
    return {"studies": [rp.proj_study(fs) for fs in studies],
            "trials": [[rp.proj_trial(t) for t in result.get_all_trials(fs._study_id, None)] for fs in studies]}


def run_history(h):
    """h: {"hid", "steps": [...]}; returns the trace events."""
    common.use_repo()
    from optuna.storages import JournalStorage
    from optuna.storages.journal import _storage as JS

    ListBackend, NoSnap = _backends()
    JS.SNAPSHOT_INTERVAL = 2
    import os as real_os

    PID = [1000]
    pid_of = {}

    class OsShim:                      # os.getpid() of the simulated process the object lives in (fork emulation)
        def __getattr__(self, name):
            return getattr(real_os, name)

        @staticmethod
        def getpid():
            return PID[0]
    JS.os = OsShim()

    def enter(o):
        PID[0] = pid_of.get(o, 1000)
    backend = ListBackend()
    shared = Shared()
    objs = {}          # object id -> (kind, thing, identity)
    events = []
    nworkers = h["workers"]
    for w in range(1, nworkers + 1):
        st = JournalStorage(backend)
        objs[w] = ("storage", st, w)
    next_obj = 100
    forks = []
    rps = {w: _replayer(objs[w][1], shared) for w in objs}

    def view(o):
        enter(o)
        kind, thing, _ = objs[o]
        if kind == "storage":
            return rps[o].post(), thing._replay_result.log_number_read
        return _view_of_result(rps[1], thing), thing.log_number_read

    for step in h["steps"]:
        e = step["e"]
        if e == "issue":
            o = step["w"]
            if step.get("fork_pick") is not None and forks:
                o = forks[step["fork_pick"] % len(forks)]
            rp = rps[o]
            op = step["op"]
            if ("s" in op and rp.stale_study(op["s"])) or ("t" in op and rp.stale_trial(op["t"])):
                continue
            enter(o)
            ret, raw = rp.call(op)
            v, k = view(o)
            events.append({"e": "issue", "o": o, "w": o, "op": op, "ret": ret, "k": k, "view": v})
        elif e == "fork":
            # what a child process holds after fork(): the same JournalStorage object (same uuid prefix, same main-thread
            # ident), its own copy of the replayed state, another process id
            import copy
            import threading

            src = step["w"]
            if src not in objs or objs[src][0] != "storage":
                continue
            parent = objs[src][1]
            child = copy.copy(parent)
            child._replay_result = copy.deepcopy(parent._replay_result)
            child._thread_lock = threading.Lock()
            next_obj += 1
            objs[next_obj] = ("storage", child, next_obj)
            pid_of[next_obj] = 2000 + next_obj
            rps[next_obj] = _replayer(child, shared)
            step["_o"] = next_obj
            forks.append(next_obj)
        elif e == "sync":
            o = step["o"]
            if step.get("fork_pick") is not None and forks:
                o = forks[step["fork_pick"] % len(forks)]
            if o not in objs or objs[o][0] != "storage":
                continue
            try:
                v, k = view(o)
                err = "none" if "unreadable" not in v else v["unreadable"].split(":")[0]
            except Exception as ex:  # noqa
                v, k, err = {}, 0, type(ex).__name__
            events.append({"e": "sync", "o": o, "w": objs[o][2], "k": k, "view": v, "err": err})
        elif e == "direct":
            # a raw replay object under the identity of worker `w` (same worker-id prefix and thread), from scratch
            w = step["w"]
            res = JS.JournalStorageReplayResult(objs[w][1]._worker_id_prefix)
            next_obj += 1
            objs[next_obj] = ("result", res, w)
            pid_of[next_obj] = pid_of.get(w, 1000)
            step["_o"] = next_obj
        elif e == "restore":
            # a raw replay object restored from the current snapshot, identity of worker w
            w = step["w"]
            if backend.snap is None:
                continue
            res = pickle.loads(backend.snap)
            res._worker_id_prefix = objs[w][1]._worker_id_prefix
            res._worker_id_to_owned_trial_id = {}
            res._last_created_trial_id_by_this_process = -1
            next_obj += 1
            objs[next_obj] = ("result", res, w)
            pid_of[next_obj] = pid_of.get(w, 1000)
            v, k = view(next_obj)
            events.append({"e": "apply", "o": next_obj, "w": w, "n": k, "k": k, "view": v, "err": "none"})
        elif e == "apply":
            cands = [o for o, (kind, _, _) in objs.items() if kind == "result"]
            if not cands:
                continue
            o = cands[step["pick"] % len(cands)]
            res, w = objs[o][1], objs[o][2]
            unread = backend.read_logs(res.log_number_read)
            n = min(step["n"], len(unread))
            if n == 0:
                continue
            err = "none"
            enter(o)
            try:
                res.apply_logs(unread[:n])
            except Exception as ex:  # the class is the observation
                err = type(ex).__name__
                for cls in type(ex).__mro__:
                    if cls.__name__ in sd.ERRORS:
                        err = cls.__name__
                        break
            v, k = view(o)
            events.append({"e": "apply", "o": o, "w": w, "n": n, "k": k, "view": v, "err": err})
        elif e == "open":
            how = step["how"]
            try:
                st = JournalStorage(backend if how == "snapshot" else NoSnap(backend))
                next_obj += 1
                objs[next_obj] = ("storage", st, next_obj)
                rps[next_obj] = _replayer(st, shared)
                v, k = view(next_obj)
                err = "none"
            except Exception as ex:  # noqa
                v, k, err = {}, 0, type(ex).__name__
            events.append({"e": "open", "o": next_obj, "w": next_obj, "how": how, "k": k, "view": v, "err": err,
                           "snap": int(backend.snap is not None)})
    return {"hid": h["hid"], "ev": events}


# ---------------------------------------------------------------------------------------------------
# threads of one process sharing one JournalStorage, under the line-level scheduler: snapshots taken while
# another thread is inside a call must still be "a log prefix, folded"
# ---------------------------------------------------------------------------------------------------
TH_FILES = ("/storages/journal/_storage.py",)
TH_SETUP = [
    {"a": "create_study", "name": "A", "dirs": [0]},
    {"a": "create_trial", "s": 1, "tm": {"has": 0}},
    {"a": "create_trial", "s": 1, "tm": {"has": 0}},
]


def _th_programs(rng):
    """thread 1 creates trials (every second id saves a snapshot); thread 2 writes to the trials of the set-up"""
    dist = sd.dists()[0][0]
    pool = [
        {"a": "set_trial_ua", "t": 1, "key": sd.KEYS[0], "v": 1},
        {"a": "set_trial_sa", "t": 2, "key": sd.KEYS[1], "v": 2},
        {"a": "set_iv", "t": 1, "step": str(sd.STEPS[0]), "v": sd.FINITE[0]},
        {"a": "set_iv", "t": 2, "step": str(sd.STEPS[1]), "v": sd.FINITE[1]},
        {"a": "set_param", "t": 1, "name": sd.NAMES[0], "v": sd.param_vals_for(dist)[0], "d": dist},
        {"a": "set_state", "t": 2, "state": "COMPLETE", "values": [sd.FINITE[2]]},
        {"a": "set_study_ua", "s": 1, "key": sd.KEYS[0], "v": 3},
    ]
    a = [{"a": "create_trial", "s": 1, "tm": {"has": 0}} for _ in range(rng.choice([1, 2, 3]))]
    b = rng.sample(pool, rng.choice([1, 2, 2, 3]))
    return [a, b]


def run_threaded(case):
    """case: {"hid", "progs": [A, B], "p": int, "q": int}: thread 1 runs p yield points, thread 2 the next q, then thread 1
    to its end, then thread 2.  Returns the trace events (appends in log order, then every snapshot ever saved restored)."""
    common.use_repo()
    from optuna.storages import JournalStorage
    from optuna.storages.journal import _storage as JS
    from . import thread_sched as ts
    import threading

    ListBackend, NoSnap = _backends()
    JS.SNAPSHOT_INTERVAL = 2
    JS.os = __import__("os")
    sched = ts.Scheduler(TH_FILES)
    cur_op = {}
    events = []
    snaps = []

    class Backend(ListBackend):
        def append_logs(self, logs):
            me = sched.current_worker()
            w = me.wid if me is not None else 0
            for _ in logs:
                events.append({"e": "append", "o": 1, "w": w, "op": cur_op[w]})
            super().append_logs(logs)

        def save_snapshot(self, snapshot):
            snaps.append(snapshot)
            super().save_snapshot(snapshot)

    backend = Backend()
    st = JournalStorage(backend)
    ts.patch_locks(sched, st)
    shared = Shared()
    rp0 = _replayer(st, shared)
    for op in TH_SETUP:
        cur_op[0] = op
        rp0.call(op)

    def mk(w, prog):
        rp = _replayer(st, shared)

        def body(worker):
            for op in prog:
                cur_op[w] = op
                rp.call(op)
        return body
    for w, prog in enumerate(case["progs"], 1):
        sched.add(mk(w, prog))
    p, q = case["p"], case["q"]
    cnt = {1: 0, 2: 0}

    def choose(r, step):
        by = {w.wid: w for w in r}
        if cnt[1] < p:
            pick = by.get(1) or r[0]
        elif cnt[2] < q:
            pick = by.get(2) or r[0]
        else:
            pick = by.get(1) or r[0]
        cnt[pick.wid] += 1
        return pick
    res = sched.run(choose)
    if res["deadlock"]:
        raise tlc.MachineryError(f"threaded journal case {case['hid']} deadlocked")
    for w in sched.workers:
        if w.error is not None:
            raise tlc.MachineryError(f"threaded journal case {case['hid']}: worker {w.wid} raised {w.error!r}")
    o = 100
    for sn in snaps:
        res_ = pickle.loads(sn)
        o += 1
        events.append({"e": "apply", "o": o, "w": 1, "n": res_.log_number_read, "k": res_.log_number_read,
                       "view": _view_of_result(rp0, res_), "err": "none"})
    v = rp0.post()
    events.append({"e": "sync", "o": 1, "w": 1, "k": st._replay_result.log_number_read, "view": v, "err": "none"})
    for how in ("snapshot", "fresh"):
        st2 = JournalStorage(backend if how == "snapshot" else NoSnap(backend))
        o += 1
        events.append({"e": "open", "o": o, "w": o, "how": how, "k": st2._replay_result.log_number_read,
                       "view": _replayer(st2, shared).post(), "err": "none", "snap": 1})
    return {"hid": case["hid"], "ev": events, "lines": [w.lines for w in sched.workers], "snaps": len(snaps)}


def _th_chunk(cases):
    return [run_threaded(c) for c in cases]


def threaded_cases(ctx):
    rng = random.Random(ctx.rng.getrandbits(48))
    cases = []
    n_prog = 3 if ctx.quick else 12
    for i in range(n_prog):
        progs = _th_programs(rng)
        dry = run_threaded({"hid": "dry", "progs": progs, "p": 10 ** 9, "q": 10 ** 9})
        na, nb = dry["lines"][0] + 2, dry["lines"][1] + 2
        pts = [(p, q) for p in range(0, na + 1) for q in range(1, nb + 1)]
        if ctx.quick:
            pts = rng.sample(pts, min(len(pts), 260))
        for p, q in pts:
            cases.append({"hid": f"th{i}-{p}-{q}", "progs": progs, "p": p, "q": q})
    return cases


def gen_history(rng: random.Random, hid, n_steps=22):
    workers = rng.choice([2, 2, 3])
    g = sg.Gen(random.Random(rng.getrandbits(40)), max_studies=3, max_trials=6)
    steps = []
    for _ in range(n_steps):
        x = rng.random()
        if x < 0.62:
            op = g.op()
            while op["a"].startswith("get_"):
                op = g.op()
            g.note(op)
            steps.append({"e": "issue", "w": rng.randint(1, workers), "op": op,
                          "fork_pick": rng.randint(0, 3) if rng.random() < 0.3 else None})
        elif x < 0.66:
            steps.append({"e": "fork", "w": rng.randint(1, workers)})
        elif x < 0.72:
            steps.append({"e": "sync", "o": rng.randint(1, workers), "fork_pick": rng.randint(0, 3) if rng.random() < 0.4 else None})
        elif x < 0.78:
            steps.append({"e": "direct", "w": rng.randint(1, workers)})
        elif x < 0.82:
            steps.append({"e": "restore", "w": rng.randint(1, workers)})
        elif x < 0.94:
            steps.append({"e": "apply", "pick": rng.randint(0, 5), "n": rng.choice([1, 1, 2, 3, 5, 50])})
        else:
            steps.append({"e": "open", "how": rng.choice(["snapshot", "fresh"])})
    # drain: every raw object reads to the end in random splits, then a fresh replay of the final log
    for i in range(8):
        steps.append({"e": "apply", "pick": i, "n": rng.choice([1, 2, 50])})
    for i in range(6):
        steps.append({"e": "apply", "pick": i, "n": 50})
    steps.append({"e": "open", "how": "snapshot"})
    steps.append({"e": "open", "how": "fresh"})
    for w in range(1, workers + 1):
        steps.append({"e": "sync", "o": w})
    for i in range(3):
        steps.append({"e": "sync", "o": 1, "fork_pick": i})
    return {"hid": hid, "workers": workers, "steps": steps}


def _chunk(hs):
    return [run_history(h) for h in hs]


def judge(ctx, traces, label):
    for i, t in enumerate(traces):
        t["tid"] = i + 1
        ctx.count_case([[e["e"], e.get("o"), e.get("op", {}).get("a"), e.get("n")] for e in t["ev"]],
                       nontrivial=len(t["ev"]) > 5)
    v = tlc.validate("JournalReplayTrace", "JournalReplayTrace", [{"tid": t["tid"], "ev": t["ev"]} for t in traces],
                     shards=16, timeout=2400)
    ctx.validated(v, label)
    undef = [p for p in v.prints if p and p[0] == "UNDEF"]
    ctx.notes["undefined_calls_truncated"] = len(undef)
    for tid in sorted(v.rejected):
        t = traces[tid - 1]
        i = v.rejected[tid]["reached"]
        ev = t["ev"][i - 1] if 1 <= i <= len(t["ev"]) else None
        short = {k: x for k, x in (ev or {}).items() if k != "view"}
        ctx.violation(f"journal replay history {t['hid']}: event #{i} {json.dumps(short)[:400]} — the object's view is not "
                      f"Fold(first k records), or an error surfaced at a non-issuer / with the wrong class, or a batch was "
                      f"not consumed", {"history": t.get("history"), "failing_event": i, "recorded": ev})
        if len(ctx.violations) >= 6:
            break
    return v


def run(ctx):
    ctx.rule = ("histories of 2-3 real JournalStorage workers on one journal (JSON-serialising list backend with snapshots, "
                "SNAPSHOT_INTERVAL=2), raw replay objects driven with arbitrary batch splits under a worker's identity, "
                "snapshot restores and fresh re-opens; plus two threads sharing one JournalStorage under the line-level "
                "scheduler (thread 1 creates trials and saves snapshots, thread 2 writes; every (p, q) double preemption, "
                "sampled in quick), every snapshot ever saved restored; plus the Redis journal backend (fakeredis, standalone "
                "and cluster code paths, appenders/readers/crashes under the line-level scheduler, every Redis command "
                "replayed on JournalRedis by TLC); after every step the object's projection is validated by TLC "
                "against Fold(log prefix); distinct = distinct event-shape sequences")
    r = tlc.require_model("JournalReplayMC", "JournalReplayMC_q" if ctx.quick else "JournalReplayMC_t", must_cover=MC_COVER,
                          timeout=3000)
    ctx.model(r, "JournalReplayMC")
    r = tlc.expect_violation("JournalReplayMC", "JournalReplayMC_neg", "StateIsFold", timeout=600)
    ctx.model(r, "JournalReplayMC_neg (cursor advanced past an aborted batch: expected to violate StateIsFold)")
    n = 400 if ctx.quick else 5000
    hs = [gen_history(random.Random(ctx.rng.getrandbits(48)), i) for i in range(n)]
    chunks = [hs[i::16] for i in range(16)]
    traces = []
    with cf.ProcessPoolExecutor(max_workers=16) as ex:
        for res, chunk in zip(ex.map(_chunk, chunks), chunks):
            for t, h in zip(res, chunk):
                t["history"] = h
                traces.append(t)
    tcases = threaded_cases(ctx)
    tchunks = [tcases[i::16] for i in range(16)]
    n_snap = 0
    with cf.ProcessPoolExecutor(max_workers=16) as ex:
        for res, chunk in zip(ex.map(_th_chunk, tchunks), tchunks):
            for t, c in zip(res, chunk):
                t["history"] = {"threaded": c}
                n_snap += t["snaps"]
                traces.append(t)
    ctx.notes["threaded_cases"] = len(tcases)
    ctx.notes["threaded_snapshots_restored"] = n_snap
    if n_snap == 0:
        raise tlc.MachineryError("vacuous run: no snapshot was saved in the threaded family")
    v = judge(ctx, traces, "multi-worker journal replay")
    if not ctx.violations:
        from . import jredis

        jredis.run_part(ctx)
    raised = sum(1 for t in traces for e in t["ev"] if e["e"] == "apply" and e["err"] != "none")
    opens = sum(1 for t in traces for e in t["ev"] if e["e"] == "open" and e.get("snap"))
    ctx.notes["issuer_errors_mid_batch"] = raised
    ctx.notes["opens_from_snapshot"] = opens
    if raised == 0 or opens == 0:
        raise tlc.MachineryError("vacuous run: no issuer-side error inside a batch / no snapshot restore was exercised")
    for t in traces[:3]:
        ctx.sample([{k: x for k, x in e.items() if k != "view"} for e in t["ev"][:10]])
    if not ctx.violations:
        good = next(t for t in traces if t["tid"] in v.accepted and any(e["e"] == "apply" and e["view"]["trials"] and
                                                                        any(e["view"]["trials"]) for e in t["ev"]))

        def corrupt(t):
            for e in t["ev"]:
                if e["e"] == "apply" and e["view"]["trials"] and any(e["view"]["trials"]):
                    for tr in e["view"]["trials"]:
                        if tr:
                            tr[0]["number"] += 1
                            return
        ctx.binding_selftest("JournalReplayTrace", "JournalReplayTrace", {"tid": 1, "ev": good["ev"]}, corrupt,
                             "view of a raw replay object altered")
    ctx.assumptions += ["the journal backend is an in-memory list with the file backend's JSON serialisation; the file and "
                        "Redis backends themselves are covered by C01/C05/C07",
                        "append + sync of one call is atomic here (interleavings inside a call belong to C03)"]


def replay(ctx, data):
    if "redis" in data:
        from . import jredis

        return jredis.replay(ctx, data)
    if "threaded" in data["history"]:
        t = run_threaded(data["history"]["threaded"])
        t["history"] = data["history"]
        judge(ctx, [t], "replay")
        return
    t = run_history(data["history"])
    t["history"] = data["history"]
    judge(ctx, [t], "replay")
