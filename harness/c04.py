"""C04 — a queued trial is handed to exactly one worker, with its fixed parameters.

Specs: WaitQueue (algorithm level: list-then-compare-and-set loop, in-memory cursor; exhaustive incl. the SQLite
variant that must fail and a wrong cursor that must fail), WaitQueueTrace (property-level monitor).
"""
from __future__ import annotations

import concurrent.futures as cf
import json
import os
import random
import shutil
import tempfile

from . import common, storage_driver as sd, tlc
from . import thread_sched as ts

FILES = ("optuna/storages/_in_memory.py", "optuna/storages/journal/_storage.py", "optuna/storages/_cached_storage.py",
         "optuna/storages/_base.py", "optuna/study/study.py")
K1_SIG = "sqlite:compare-and-set-not-atomic-across-connections"
# None is a legal categorical choice (and a legal FIXED value: "fixed to None" is not "not fixed")
PARAMS = {"x": ("int", 0, 7), "y": ("float", 0.0, 8.0), "c": ("cat", ["a", "b", None, "c"])}


def tok(name, v):
    if name == "c":
        return PARAMS["c"][1].index(v) if v in PARAMS["c"][1] else -1
    f = float(v) * 4
    return int(f) if f == int(f) and 0 <= f <= 64 else -1000 - (hash(v) % 1000)


def suggest(trial, name):
    kind = PARAMS[name]
    if kind[0] == "int":
        return trial.suggest_int(name, kind[1], kind[2])
    if kind[0] == "float":
        return trial.suggest_float(name, kind[1], kind[2])
    return trial.suggest_categorical(name, kind[1])


def rand_fixed(rng):
    out = {}
    for name in PARAMS:
        if rng.random() < 0.6:
            k = PARAMS[name]
            out[name] = rng.randint(k[1], k[2]) if k[0] == "int" else rng.choice([0.0, 0.25, 1.5, 8.0]) if k[0] == "float" \
                else rng.choice(k[1])
    return out


def proj_fixed(d):
    return {k: tok(k, v) for k, v in (d or {}).items()}


def proj_ua(d):
    return {k: (v if k == "tag" else sd.attr_to_tok(v)) for k, v in (d or {}).items()}


_TAG = [0]


_SCHED = [None]


def ts_worker_id():
    s = _SCHED[0]
    w = s.current_worker() if s is not None else None
    return w.wid if w is not None else 0


class Recorder:
    def __init__(self, study, log):
        self.study, self.log = study, log

    def enqueue(self, rng, how):
        import optuna

        fixed = rand_fixed(rng)
        ua = {k: sd.ATTRS[rng.randrange(len(sd.ATTRS))] for k in sd.KEYS if rng.random() < 0.5}
        _TAG[0] += 1
        tag = _TAG[0] * 10 + (ts_worker_id() or 0)        # identifies THIS queued trial among concurrently created ones
        ua["tag"] = tag
        self.log({"e": "enqueue", "tag": tag, "fixed": proj_fixed(fixed), "ua": proj_ua(ua)})
        import copy

        fixed_arg, ua_arg = copy.deepcopy(fixed), copy.deepcopy(ua)      # the caller's own objects
        if how == "enqueue":
            self.study.enqueue_trial(fixed_arg, user_attrs=ua_arg or None)
        else:
            self.study.add_trial(optuna.trial.create_trial(state=optuna.trial.TrialState.WAITING,
                                                           system_attrs={"fixed_params": fixed_arg}, user_attrs=ua_arg))
        if rng.random() < 0.6:
            # the caller goes on using (and changing) the dicts it passed, e.g. one scratch dict filled in a loop:
            # what was queued is the values at the time of the call
            for k in list(fixed_arg):
                kind = PARAMS[k]
                fixed_arg[k] = (kind[2] if fixed_arg[k] != kind[2] else kind[1]) if kind[0] != "cat" else \
                    [c for c in kind[1] if c != fixed_arg[k]][0]
            for k, v in list(ua_arg.items()):
                if isinstance(v, (list, dict)):
                    v.clear()
                if k != "tag":
                    ua_arg[k] = "changed-later"
        new = [t for t in self.study.get_trials(deepcopy=False) if t.user_attrs.get("tag") == tag]
        for t in new:
            self.log({"e": "enqueued", "tag": tag, "n": t.number})

    def peek(self):
        from optuna.trial import TrialState

        ts_ = self.study.get_trials(deepcopy=False, states=(TrialState.WAITING,))
        self.log({"e": "peek", "tags": [t.user_attrs.get("tag", 0) for t in ts_]})

    def ask_run_tell(self, w, rng, names=None, late_write=False):
        from optuna.exceptions import UpdateFinishedTrialError

        try:
            trial = self.study.ask()
        except UpdateFinishedTrialError:
            # D15: the listed WAITING trial was claimed AND finished by another worker before this worker's
            # compare-and-set; ask() surfaces the storage's error and hands out nothing
            self.log({"e": "ask_raced", "w": w})
            return None
        ft = self.study._storage.get_trial(trial._trial_id)
        tag = ft.user_attrs.get("tag", 0)
        self.log({"e": "ask", "w": w, "n": trial.number, "tag": tag, "fixed": proj_fixed(ft.system_attrs.get("fixed_params")),
                  "ua": proj_ua(ft.user_attrs), "state": ft.state.name})
        for name in (names or list(PARAMS)):
            v = suggest(trial, name)
            self.log({"e": "suggest", "w": w, "n": trial.number, "tag": tag, "name": name, "v": tok(name, v)})
        self.study.tell(trial, 1.0)
        self.log({"e": "tell", "w": w, "n": trial.number})
        if late_write:
            # a write after the trial is finished (e.g. logging after tell): refused at its issuer, and nothing else - in
            # particular no other worker's record that shares a replay batch with it may get lost
            try:
                trial.set_user_attr("late", 1)
            except Exception:  # noqa: UpdateFinishedTrialError, by contract
                pass
        return trial.number


def drain_and_final(study, rec, n_queued):
    from optuna.trial import TrialState

    for _ in range(n_queued + 1):
        try:
            n = rec.ask_run_tell(0, random.Random(0), names=["x"])
        except Exception as e:  # the class is the observation: no action of the spec lets a drain step fail
            rec.log({"e": "error", "w": 0, "err": type(e).__name__ + ":" + str(e)[:100]})
            break
        if n is None:
            break
    waiting = sorted(t.number for t in study.get_trials(deepcopy=False, states=(TrialState.WAITING,)))
    rec.log({"e": "final", "w": 0, "waiting": waiting})


# ---------------------------------------------------------------------------------------------------
def sequential_history(config, seed, workdir):
    common.use_repo()
    import optuna

    rng = random.Random(seed)
    be = sd.Backend(config, workdir)
    try:
        common.decoy(be.storage, seed % 3)
        study = optuna.create_study(storage=be.storage, sampler=optuna.samplers.RandomSampler(seed=seed))
        ev = []
        rec = Recorder(study, ev.append)
        queued = 0
        for _ in range(rng.randint(4, 9)):
            x = rng.random()
            if x < 0.45:
                rec.enqueue(rng, rng.choice(["enqueue", "enqueue", "add"]))
                queued += 1
            elif x < 0.6:
                rec.peek()
            else:
                rec.ask_run_tell(1, rng, names=rng.sample(list(PARAMS), rng.randint(1, 3)))
        drain_and_final(study, rec, queued)
        return {"config": config, "ev": ev, "replay": {"family": "seq", "config": config, "seed": seed}}
    finally:
        be.close()


def concurrent_history(kind, seed, workdir, focus=None):
    """2-3 threads asking (and one enqueueing) concurrently under the line-level scheduler.

    focus = p (an integer): the focused family "an asker meets an enqueuer": the queue holds 0 or 1 trial, worker 1 asks
    twice, worker 2 enqueues one trial (and asks once); worker 1 runs p yield points, then worker 2 runs to its end, then
    worker 1 finishes.  Afterwards the queue is drained as usual: nothing may be left, nothing handed out twice."""
    common.use_repo()
    import optuna
    from . import c03

    rng = random.Random(seed)
    sched = ts.Scheduler(FILES)
    _TAG[0] = 0
    if kind == "rdb_conns":
        from . import rdb_sched

        sched = ts.Scheduler(("optuna/study/study.py",))
        storages, observer, close = rdb_sched.make_group(sched, workdir, n=3)
    elif kind.startswith("grpc_"):
        # three proxies of ONE server with a single worker thread: every request is served by the same server thread
        from optuna.storages import GrpcStorageProxy

        sched = ts.Scheduler(("optuna/study/study.py",))
        be = sd.Backend(kind, workdir)
        storages = [be.storage] + [GrpcStorageProxy(host=be.storage._host, port=be.storage._port) for _ in range(2)]
        observer = storages[0]
        close = be.close
    else:
        storages, observer = c03.make_storages(kind, sched)
        close = lambda: None  # noqa
    _SCHED[0] = sched
    try:
        common.decoy(storages[0], seed % 3)
        s0 = optuna.create_study(storage=storages[0], study_name="q", sampler=optuna.samplers.RandomSampler(seed=seed))
        ev = []
        rec0 = Recorder(s0, ev.append)
        n_pre = rng.randint(1, 3) if focus is None else seed % 2
        for _ in range(n_pre):
            rec0.enqueue(rng, "enqueue")
        queued = [n_pre]
        nw = rng.choice([2, 2, 3]) if focus is None else 2
        if kind == "journal_forked":           # the parent prepared the study; its children inherit the storage object
            storages = c03.fork_children(storages[0], sched)

        def mk(w, storage, enq_too):
            def body(worker):
                study = optuna.load_study(study_name="q", storage=storage, sampler=optuna.samplers.RandomSampler(seed=seed + w))
                rec = Recorder(study, sched.event)
                r = random.Random(seed * 10 + w)
                if enq_too:
                    rec.enqueue(r, "enqueue")
                    queued[0] += 1
                for _ in range(r.choice([1, 2]) if focus is None else (2 if w == 1 else seed // 2 % 2)):
                    try:
                        rec.ask_run_tell(w, r, names=["x", "c"], late_write=r.random() < 0.4)
                    except Exception as e:  # noqa
                        sched.event({"e": "error", "w": w, "err": type(e).__name__ + ":" + str(e)[:100]})
            return body
        for w in range(1, nw + 1):
            sched.add(mk(w, storages[w - 1], enq_too=(w == nw and (focus is not None or rng.random() < 0.5))))
        if focus is None:
            info = sched.run(c03.random_schedule(rng.getrandbits(30), rng.choice([0.1, 0.3, 0.6]))(sched))
        else:
            info = sched.run(c03.preempt_at(focus, first=1)(sched))
        ev += sched.log
        try:
            obs_study = optuna.load_study(study_name="q", storage=observer if kind in ("rdb_conns",) else storages[0])
            drain_and_final(obs_study, Recorder(obs_study, ev.append), queued[0])
        except Exception as e:  # a storage that cannot even be read after the run: an observation, judged by TLC
            ev.append({"e": "error", "w": 0, "err": type(e).__name__ + ":" + str(e)[:100]})
        return {"config": kind, "ev": ev, "deadlock": int(info["deadlock"]), "lines": [w.lines for w in sched.workers],
                "replay": {"family": "conc", "config": kind, "seed": seed, "focus": focus}}
    finally:
        close()
        while c03._CLOSERS:
            c03._CLOSERS.pop()()


def _task(args):
    fam, config, seeds = args
    workdir = tempfile.mkdtemp(prefix="c04-", dir=os.environ.get("VERIF_SCRATCH_BASE", "/var/tmp"))
    try:
        if fam == "focus":
            return [concurrent_history(config, s, workdir, focus=p) for s, p in seeds]
        return [(sequential_history if fam == "seq" else concurrent_history)(config, s, workdir) for s in seeds]
    finally:
        shutil.rmtree(workdir, ignore_errors=True)


def judge(ctx, traces, label):
    for i, t in enumerate(traces):
        t["tid"] = i + 1
        ctx.count_case([t["config"]] + [[e["e"], e.get("w"), e.get("n")] for e in t["ev"]],
                       nontrivial=any(e["e"] == "enqueue" for e in t["ev"]))
    v = tlc.validate("WaitQueueTrace", "WaitQueueTrace", [{"tid": t["tid"], "ev": t["ev"]} for t in traces], shards=16,
                     timeout=2400)
    ctx.validated(v, label)
    k1 = 0
    for tid in sorted(v.rejected):
        t = traces[tid - 1]
        i = v.rejected[tid]["reached"]
        ev = t["ev"][i - 1] if 1 <= i <= len(t["ev"]) else None
        double = ev is not None and ev["e"] == "ask" and any(e["e"] == "ask" and e["n"] == ev["n"] for e in t["ev"][:i - 1])
        f = ctx.match_known(K1_SIG) if (t["config"] == "rdb_conns" and (double or (ev and ev["e"] in ("error", "final")))) else None
        if f is not None:
            k1 += 1
            ctx.known_finding(f, f"queued trial claimed by two SQLite connections, seed={t['replay']['seed']}")
            continue
        ctx.violation(f"queue ({t['config']}): event #{i} {json.dumps(ev)[:300]} — a queued trial was handed out twice, "
                      f"or without its fixed parameters / attributes, or was left in the queue",
                      {"replay": t["replay"], "events": t["ev"][: i + 2]})
        if len(ctx.violations) >= 6:
            break
    ctx.notes["k1_schedules"] = ctx.notes.get("k1_schedules", 0) + k1
    return v


def run(ctx):
    ctx.rule = ("(a) sequential enqueue_trial / add_trial(WAITING) / ask / suggest / tell programs through the real Study API "
                "on nine backend configurations, (b) 2-3 threads asking (one also enqueueing) concurrently under the "
                "line-level scheduler on in-memory and journal storages and under the SQL-statement scheduler on SQLite, "
                "(c) an asker preempted once at every yield point while another thread enqueues (in-memory, journal); "
                "afterwards the queue is drained; every execution validated by TLC against WaitQueueTrace; distinct = "
                "distinct (backend, event sequence) executions with at least one queued trial")
    for cfg, label in (("WaitQueue_q" if ctx.quick else "WaitQueue_t", "atomic compare-and-set"),):
        r = tlc.require_model("WaitQueue", cfg, must_cover=["Enqueue", "ListWaiting", "ClaimAtomic", "CreateNew", "Finish"],
                              timeout=3000)
        ctx.model(r, f"WaitQueue ({label})")
    r = tlc.expect_violation("WaitQueue", "WaitQueue_sqlite", "ClaimedAtMostOnce", timeout=600)
    ctx.model(r, "WaitQueue_sqlite (read and write of the compare-and-set separate: expected double claim, K1)")
    r = tlc.expect_violation("WaitQueue", "WaitQueue_neg", "CursorOK", timeout=600)
    ctx.model(r, "WaitQueue_neg (cursor moved one past the first WAITING trial: expected to fail)")
    n_seq = 24 if ctx.quick else 200
    n_conc = 160 if ctx.quick else 1500
    tasks = []
    for c in sd.CONFIGS:
        n = max(3, n_seq // 3) if c in sd.SLOW else n_seq
        seeds = [ctx.seed * 100000 + i for i in range(n)]
        tasks += [("seq", c, seeds[i::2]) for i in range(2)]
    for kind in ("inmemory", "journal_threads", "journal_procs", "journal_forked", "rdb_conns", "grpc_journal", "grpc_inmemory"):
        n = n_conc // 3 if kind in ("rdb_conns", "grpc_journal", "grpc_inmemory") else n_conc
        seeds = [ctx.seed * 100000 + 5000 + i for i in range(n)]
        tasks += [("conc", kind, seeds[i::4]) for i in range(4)]
    # focused family: single preemption of an asker at every (quick: every k-th) yield point while an enqueuer runs
    n_focus = 0
    for kind in ("inmemory", "journal_threads", "journal_forked"):
        for variant in range(4):                     # queue empty / one trial x enqueuer asks or not
            seed = ctx.seed * 100000 + 9000 + variant
            dry = _task(("focus", kind, [(seed, 10 ** 9)]))[0]
            n = dry["lines"][0] + 2
            pts = list(range(0, n + 1))
            if ctx.quick and len(pts) > 70:
                off = ctx.rng.randrange(0, 3)
                pts = pts[off::max(1, len(pts) // 70)]
            items = [(seed, p) for p in pts]
            n_focus += len(items)
            tasks += [("focus", kind, items[i::4]) for i in range(4)]
    ctx.notes["focused_asker_vs_enqueuer_executions"] = n_focus
    traces = []
    with cf.ProcessPoolExecutor(max_workers=16) as ex:
        for res in ex.map(_task, tasks):
            traces += res
    ctx.notes["deadlocks"] = sum(t.get("deadlock", 0) for t in traces)
    v = judge(ctx, traces, "sequential on 9 backends + concurrent asks")
    for t in traces[:: max(1, len(traces) // 3)][:3]:
        ctx.sample({"config": t["config"], "events": t["ev"][:12]})
    if not ctx.violations:
        good = next(t for t in traces if t["tid"] in v.accepted and
                    any(e["e"] == "suggest" and e["tag"] in {q["tag"] for q in t["ev"] if q["e"] == "enqueue" and "x" in q["fixed"]}
                        and e["name"] == "x" for e in t["ev"]))

        def wrong_value(t):
            qs = {q["tag"]: q for q in t["ev"] if q["e"] == "enqueue" and "x" in q["fixed"]}
            for e in t["ev"]:
                if e["e"] == "suggest" and e["tag"] in qs and e["name"] == "x":
                    e["v"] += 1
                    return

        def twice(t):
            a = next(e for e in t["ev"] if e["e"] == "ask")
            t["ev"].insert(t["ev"].index(a) + 1, dict(a))
        ctx.binding_selftest("WaitQueueTrace", "WaitQueueTrace", {"tid": 1, "ev": good["ev"]}, wrong_value, "fixed value altered")
        ctx.binding_selftest("WaitQueueTrace", "WaitQueueTrace", {"tid": 1, "ev": good["ev"]}, twice, "trial handed out twice")
    ctx.assumptions += ["line-level preemption in the storage layer and Study._pop_waiting_trial_id",
                        "exactly-once is decided as never-twice plus nothing-left-after-draining",
                        "retries (RetryFailedTrialCallback) enter the queue through add_trial and are covered as such; "
                        "the heartbeat side is C19"]


def replay(ctx, data):
    r = data["replay"]
    if r.get("focus") is not None:
        traces = _task(("focus", r["config"], [(r["seed"], r["focus"])]))
    else:
        traces = _task(("seq" if r["family"] == "seq" else "conc", r["config"], [r["seed"]]))
    judge(ctx, traces, "replay")
