"""H1 — sequential replayer: abstract storage histories -> real backend -> projected trace events.

Only generation, execution and projection live here.  Nothing in this file knows what a correct
answer is: replies and read-back states are written down as tokens and judged by TLC (StorageTrace).
"""
from __future__ import annotations

import copy
import datetime
import json
import math
import os
import socket
import tempfile

from . import common

# ---------------------------------------------------------------------------------------------------
# token pools (projection is bit-exact lookup; anything else becomes a token no spec action produces)
# ---------------------------------------------------------------------------------------------------
VALS = {-3: -1e300, -2: -1.5, -1: -5e-324, 0: 0.0, 1: 5e-324, 2: 0.1, 3: 1.0, 4: 1.5, 5: 2.0, 6: 1e300,
        -1000: -math.inf, 1000: math.inf, 9999: math.nan}
FINITE = [-3, -2, -1, 0, 1, 2, 3, 4, 5, 6]
INT_VALS = [0, 3, 5]          # 0.0, 1.0, 2.0
CAT_VALS = [0, 3]             # indices 0.0, 1.0
OTHER_VAL = -77777
NONE_V = [-999]

ATTRS = [1, "a", 1.5, None, True, [1, 2], {"k": [1, {"z": None}]}, "", "ü☃", 1e300, -7, {"a": {}}]
DATES = {1: datetime.datetime(2020, 1, 2, 3, 4, 5, 678901), 2: datetime.datetime(2021, 6, 7, 8, 9, 10, 11)}
KEYS = ["k1", "k2"]
NAMES = ["x", "y"]
STEPS = [0, 1, 7]
STUDY_NAMES = ["A", "B", "auto"]
STATES = ["RUNNING", "COMPLETE", "PRUNED", "FAIL", "WAITING"]
ERRORS = ("KeyError", "DuplicatedStudyError", "UpdateFinishedTrialError", "ValueError", "RuntimeError")


def val_to_tok(x):
    if x is None:
        return OTHER_VAL
    x = float(x)
    if math.isnan(x):
        return 9999
    for t, f in VALS.items():
        if t != 9999 and f == x and math.copysign(1, f) == math.copysign(1, x):
            return t
    return OTHER_VAL


def attr_to_tok(x):
    try:
        s = json.dumps(x, sort_keys=True)
    except Exception:
        return -1
    for i, a in enumerate(ATTRS):
        if json.dumps(a, sort_keys=True) == s and type(a) is type(x):
            return i
    return -1


def dist_pool():
    from optuna.distributions import CategoricalDistribution, FloatDistribution, IntDistribution

    return [
        ({"c": "float", "g": 0, "k": 0}, FloatDistribution(0.0, 1.0)),
        ({"c": "float", "g": 0, "k": 1}, FloatDistribution(-2.0, 2.0, step=0.5)),
        ({"c": "float", "g": 1, "k": 0}, FloatDistribution(1e-3, 1e3, log=True)),
        ({"c": "int", "g": 0, "k": 0}, IntDistribution(0, 10)),
        ({"c": "int", "g": 0, "k": 1}, IntDistribution(-6, 6, step=3)),
        ({"c": "int", "g": 1, "k": 0}, IntDistribution(1, 100, log=True)),
        ({"c": "cat", "g": 0, "k": 0}, CategoricalDistribution(("a", "b"))),
        ({"c": "cat", "g": 0, "k": 1}, CategoricalDistribution((1, 2.5, None, "x"))),
    ]


_DISTS = None


def dists():
    global _DISTS
    if _DISTS is None:
        _DISTS = dist_pool()
    return _DISTS


def dist_of(tok):
    for t, d in dists():
        if t == tok:
            return d
    raise KeyError(tok)


def dist_to_tok(d):
    for t, dd in dists():
        if dd == d and type(dd) is type(d):
            return t
    return {"c": "other", "g": 0, "k": -1}


def param_vals_for(tok):
    """internal representations that are valid for the distribution class (log scale needs positive values)"""
    if tok["c"] == "float":
        return [t for t in FINITE if t > 0] if tok["g"] else FINITE
    if tok["c"] == "int":
        return [3, 5] if tok["g"] else INT_VALS
    return CAT_VALS


def date_to_tok(d):
    if d is None:
        return 0
    for t, dd in DATES.items():
        if dd == d:
            return t
    return 3


# ---------------------------------------------------------------------------------------------------
# backend configurations
# ---------------------------------------------------------------------------------------------------
CONFIGS = ["inmemory", "rdb", "cached_rdb", "journal_file", "journal_file_openlock", "journal_redis",
           "grpc_inmemory", "grpc_rdb", "grpc_journal"]
SLOW = {"rdb", "cached_rdb", "grpc_rdb"}


def _free_port():
    s = socket.socket()
    s.bind(("localhost", 0))
    p = s.getsockname()[1]
    s.close()
    return p


def fresh_rdb(path: str, workdir: str, name: str = "db.sqlite3"):
    """A new, empty SQLite-backed RDBStorage.  The schema is created once per work directory by optuna itself
    and the empty database file is copied afterwards (table creation + alembic stamping cost ~0.3 s)."""
    import shutil

    from optuna.storages import RDBStorage

    tmpl = os.path.join(workdir, "_template.sqlite3")
    if not os.path.exists(tmpl):
        st = RDBStorage(f"sqlite:///{tmpl}.build")
        st.remove_session()
        st.engine.dispose()
        os.replace(f"{tmpl}.build", tmpl)
    f = os.path.join(path, name)
    shutil.copyfile(tmpl, f)
    return RDBStorage(f"sqlite:///{f}", skip_compatibility_check=True, skip_table_creation=True)


class Backend:
    """A storage under test plus whatever has to be shut down afterwards."""

    def __init__(self, config: str, workdir: str):
        common.use_repo()
        import optuna
        from optuna.storages import InMemoryStorage, JournalStorage, RDBStorage
        from optuna.storages._cached_storage import _CachedStorage
        from optuna.storages.journal import JournalFileBackend, JournalFileOpenLock, JournalRedisBackend

        self.config = config
        self.server = None
        self.inner = None
        base = config[5:] if config.startswith("grpc_") else config
        path = tempfile.mkdtemp(prefix=f"{config}-", dir=workdir)
        if base == "inmemory":
            inner = InMemoryStorage()
        elif base == "rdb":
            inner = fresh_rdb(path, workdir)
        elif base == "cached_rdb":
            inner = _CachedStorage(fresh_rdb(path, workdir))
        elif base in ("journal_file", "journal"):
            inner = JournalStorage(JournalFileBackend(f"{path}/journal.log"))
        elif base == "journal_file_openlock":
            f = f"{path}/journal.log"
            inner = JournalStorage(JournalFileBackend(f, lock_obj=JournalFileOpenLock(f)))
        elif base == "journal_redis":
            import fakeredis

            be = JournalRedisBackend("redis://localhost")
            be._redis = fakeredis.FakeStrictRedis()
            inner = JournalStorage(be)
        else:
            raise ValueError(config)
        self.inner = inner
        if config.startswith("grpc_"):
            from concurrent.futures import ThreadPoolExecutor

            from optuna.storages import GrpcStorageProxy
            from optuna.storages._grpc.server import make_server

            # the same wiring as optuna.storages._grpc.server.make_server, but the operating system picks the port
            # atomically (port 0) and SO_REUSEPORT is off: two servers of parallel harness processes can never share a port
            import grpc

            from optuna.storages._grpc import servicer as grpc_servicer
            from optuna.storages._grpc.auto_generated import api_pb2_grpc

            self.server = grpc.server(ThreadPoolExecutor(max_workers=1), options=[("grpc.so_reuseport", 0)])
            api_pb2_grpc.add_StorageServiceServicer_to_server(grpc_servicer.OptunaStorageProxyService(inner), self.server)
            port = self.server.add_insecure_port("localhost:0")
            if not port:
                raise RuntimeError("could not start gRPC server")
            self.server.start()
            self.storage = GrpcStorageProxy(host="localhost", port=port)
        else:
            self.storage = inner

    def close(self):
        try:
            if self.server is not None:
                try:
                    self.storage.close()
                except Exception:
                    pass
                self.server.stop(0).wait()
            if hasattr(self.inner, "remove_session"):
                self.inner.remove_session()
            eng = getattr(self.inner, "engine", None) or getattr(getattr(self.inner, "_backend", None), "engine", None)
            if eng is not None:
                eng.dispose()
        except Exception:
            pass


# ---------------------------------------------------------------------------------------------------
# execution and projection
# ---------------------------------------------------------------------------------------------------
class Replayer:
    def __init__(self, storage):
        self.storage = storage
        self.rawS = []   # raw study id by abstract index-1
        self.rawT = []
        self.s_of_raw = {}
        self.t_of_raw = {}

    # abstract -> raw (0 or unknown index -> an id that was never issued)
    def S(self, i):
        return self.rawS[i - 1] if 1 <= i <= len(self.rawS) else 987654

    def T(self, i):
        return self.rawT[i - 1] if 1 <= i <= len(self.rawT) else 987654

    def stale_study(self, i):
        """the raw id of abstract study i has since been handed out again (id reuse): the call would hit another object"""
        return 1 <= i <= len(self.rawS) and self.s_of_raw.get(self.rawS[i - 1]) != i

    def stale_trial(self, i):
        return 1 <= i <= len(self.rawT) and self.t_of_raw.get(self.rawT[i - 1]) != i

    def proj_trial(self, ft):
        return {
            "id": self.t_of_raw.get(ft._trial_id, 0),
            "number": ft.number,
            "state": ft.state.name,
            "values": NONE_V if ft.values is None else [val_to_tok(v) for v in ft.values],
            "params": {n: {"d": dist_to_tok(ft.distributions.get(n)), "v": self._param_tok(ft, n)} for n in ft.params},
            "ua": {k: attr_to_tok(v) for k, v in ft.user_attrs.items()},
            "sa": {k: attr_to_tok(v) for k, v in ft.system_attrs.items()},
            "iv": {str(k): val_to_tok(v) for k, v in ft.intermediate_values.items()},
            "ts": date_to_tok(ft.datetime_start),
            "tc": date_to_tok(ft.datetime_complete),
        }

    @staticmethod
    def _param_tok(ft, n):
        try:
            return val_to_tok(ft.distributions[n].to_internal_repr(ft.params[n]))
        except Exception:
            return OTHER_VAL

    def proj_study(self, fs):
        from optuna.storages._base import DEFAULT_STUDY_NAME_PREFIX

        name = fs.study_name
        if name.startswith(DEFAULT_STUDY_NAME_PREFIX):
            name = "auto"
        return {"id": self.s_of_raw.get(fs._study_id, 0), "name": name,
                "dirs": [int(d) - 1 if int(d) in (1, 2) else 9 for d in fs.directions],
                "ua": {k: attr_to_tok(v) for k, v in fs.user_attrs.items()},
                "sa": {k: attr_to_tok(v) for k, v in fs.system_attrs.items()}}

    def post(self):
        try:
            return self._post()
        except Exception as e:  # an unreadable storage is an observation, not a harness failure
            return {"unreadable": f"{type(e).__name__}: {str(e)[:200]}"}

    def _post(self):
        studies = sorted(self.storage.get_all_studies(), key=lambda fs: self.s_of_raw.get(fs._study_id, 0))
        return {"studies": [self.proj_study(fs) for fs in studies],
                "trials": [[self.proj_trial(t) for t in self.storage.get_all_trials(fs._study_id)] for fs in studies]}

    def template(self, tm):
        from optuna.trial import FrozenTrial, TrialState

        ds = {n: dist_of(p["d"]) for n, p in tm["params"].items()}
        return FrozenTrial(
            number=0, trial_id=0, state=TrialState[tm["state"]], value=None,
            values=None if tm["values"] == NONE_V else [VALS[v] for v in tm["values"]],
            datetime_start=DATES.get(tm["ts"]), datetime_complete=DATES.get(tm["tc"]),
            params={n: ds[n].to_external_repr(VALS[p["v"]]) for n, p in tm["params"].items()},
            distributions=ds,
            user_attrs={k: copy.deepcopy(ATTRS[v]) for k, v in tm["ua"].items()},
            system_attrs={k: copy.deepcopy(ATTRS[v]) for k, v in tm["sa"].items()},
            intermediate_values={int(k): VALS[v] for k, v in tm["iv"].items()},
        )

    def call(self, op):
        """Execute one abstract op; returns the reply token [k, v] and, for creates, the raw id."""
        from optuna.study import StudyDirection
        from optuna.trial import TrialState

        st = self.storage
        a = op["a"]
        raw = None
        try:
            if a == "create_study":
                dirs = [StudyDirection.MINIMIZE if d == 0 else StudyDirection.MAXIMIZE for d in op["dirs"]]
                raw = st.create_new_study(dirs, None if op["name"] == "auto" else op["name"])
                self.rawS.append(raw)
                self.s_of_raw[raw] = len(self.rawS)
                v = len(self.rawS)
            elif a == "delete_study":
                st.delete_study(self.S(op["s"]))
                v = 0
            elif a in ("set_study_ua", "set_study_sa"):
                f = st.set_study_user_attr if a == "set_study_ua" else st.set_study_system_attr
                f(self.S(op["s"]), op["key"], ATTRS[op["v"]])
                v = 0
            elif a == "get_study_id_from_name":
                v = self.s_of_raw.get(st.get_study_id_from_name(op["name"]), 0)
            elif a == "get_study_name":
                v = st.get_study_name_from_id(self.S(op["s"]))
                from optuna.storages._base import DEFAULT_STUDY_NAME_PREFIX

                if v.startswith(DEFAULT_STUDY_NAME_PREFIX):
                    v = "auto"
            elif a == "get_study_dirs":
                v = [int(d) - 1 if int(d) in (1, 2) else 9 for d in st.get_study_directions(self.S(op["s"]))]
            elif a == "get_study_ua":
                v = {k: attr_to_tok(x) for k, x in st.get_study_user_attrs(self.S(op["s"])).items()}
            elif a == "get_study_sa":
                v = {k: attr_to_tok(x) for k, x in st.get_study_system_attrs(self.S(op["s"])).items()}
            elif a == "get_all_studies":
                v = [self.proj_study(fs) for fs in
                     sorted(st.get_all_studies(), key=lambda fs: self.s_of_raw.get(fs._study_id, 0))]
            elif a == "create_trial":
                tm = op["tm"]
                tmpl = self.template(tm) if tm["has"] else None
                try:
                    raw = st.create_new_trial(self.S(op["s"]), tmpl)
                finally:
                    if tmpl is not None:
                        # the caller keeps using ITS template object (one template reused for several calls is common):
                        # whatever the backend stored or cached must not be an alias of these containers
                        tmpl.user_attrs["edited_after_the_call"] = [1]
                        tmpl.system_attrs["edited_after_the_call"] = {"x": 1}
                        tmpl.intermediate_values[424242] = 0.25
                        tmpl.params["edited_after_the_call"] = 0.5
                        for v in list(tmpl.user_attrs.values()) + list(tmpl.system_attrs.values()):
                            if isinstance(v, list):
                                v.append("edited")
                            elif isinstance(v, dict):
                                v["edited"] = 1
                        if tmpl._values is not None and tmpl._values:
                            tmpl._values[0] = 12345.0
                self.rawT.append(raw)
                self.t_of_raw[raw] = len(self.rawT)
                v = len(self.rawT)
            elif a == "set_param":
                st.set_trial_param(self.T(op["t"]), op["name"], VALS[op["v"]], dist_of(op["d"]))
                v = 0
            elif a == "set_state":
                vals = None if op["values"] == NONE_V else [VALS[x] for x in op["values"]]
                v = bool(st.set_trial_state_values(self.T(op["t"]), TrialState[op["state"]], vals))
            elif a == "set_iv":
                st.set_trial_intermediate_value(self.T(op["t"]), int(op["step"]), VALS[op["v"]])
                v = 0
            elif a in ("set_trial_ua", "set_trial_sa"):
                f = st.set_trial_user_attr if a == "set_trial_ua" else st.set_trial_system_attr
                f(self.T(op["t"]), op["key"], ATTRS[op["v"]])
                v = 0
            elif a == "get_trial":
                v = self.proj_trial(st.get_trial(self.T(op["t"])))
            elif a == "get_all_trials":
                states = None if op["states"] == ["ALL"] else tuple(TrialState[s] for s in op["states"])
                if op.get("as_list") and states is not None:
                    states = list(states)
                v = [self.proj_trial(t) for t in st.get_all_trials(self.S(op["s"]), deepcopy=bool(op.get("dc", 1)),
                                                                   states=states)]
            elif a == "get_n_trials":
                v = st.get_n_trials(self.S(op["s"]), None if op["state"] == "ALL" else TrialState[op["state"]])
            elif a == "get_best_trial":
                v = self.proj_trial(st.get_best_trial(self.S(op["s"])))
            elif a == "get_trial_id_from_number":
                v = self.t_of_raw.get(st.get_trial_id_from_study_id_trial_number(self.S(op["s"]), op["n"]), 0)
            elif a == "get_trial_number":
                v = st.get_trial_number_from_id(self.T(op["t"]))
            elif a == "get_trial_param":
                v = val_to_tok(st.get_trial_param(self.T(op["t"]), op["name"]))
            elif a == "get_trial_params":
                tid = self.T(op["t"])
                ps = st.get_trial_params(tid)
                ft = st.get_trial(tid)
                v = {n: {"d": dist_to_tok(ft.distributions.get(n)),
                         "v": val_to_tok(ft.distributions[n].to_internal_repr(ps[n])) if n in ft.distributions else OTHER_VAL}
                     for n in ps}
            elif a == "get_trial_ua":
                v = {k: attr_to_tok(x) for k, x in st.get_trial_user_attrs(self.T(op["t"])).items()}
            elif a == "get_trial_sa":
                v = {k: attr_to_tok(x) for k, x in st.get_trial_system_attrs(self.T(op["t"])).items()}
            else:
                raise RuntimeError(f"unknown abstract op {a}")
            return {"k": "ok", "v": v}, raw
        except Exception as e:  # the class is the observation
            n = type(e).__name__
            for cls in type(e).__mro__:
                if cls.__name__ in ERRORS:
                    n = cls.__name__
                    break
            else:
                n = f"Unexpected:{n}:{str(e)[:120]}"
            return {"k": "err", "v": n}, None

    def run(self, ops, with_post=True, post_getters=True):
        events = []
        for op in ops:
            # ids that the backend has re-issued cannot be addressed any more (finding K2): skip such pokes
            if ("s" in op and self.stale_study(op["s"])) or ("t" in op and self.stale_trial(op["t"])):
                continue
            ret, raw = self.call(op)
            ev = dict(op)
            ev["ret"] = ret
            if raw is not None:
                ev["raw"] = raw
            is_getter = op["a"].startswith("get_")
            if op["a"] == "create_trial" and ret["k"] == "ok" and with_post:
                # a POINT read of the new trial before any bulk read (the read-back below lists all trials, which
                # refreshes client-side caches): what create_new_trial left in a cache is observed as it is
                ev["p"] = 0
                events.append(ev)
                op2 = {"a": "get_trial", "t": ret["v"]}
                ret2, _ = self.call(op2)
                ev = dict(op2)
                ev["ret"] = ret2
            if with_post and (post_getters or not is_getter or op["a"] == "create_trial"):
                ev["p"] = 1
                ev["post"] = self.post()
            else:
                ev["p"] = 0
            events.append(ev)
        return events


def run_histories(config: str, histories: list, workdir: str | None = None) -> list:
    """Run every history on a fresh backend of the given configuration; returns one trace per history."""
    own = workdir is None
    workdir = workdir or tempfile.mkdtemp(prefix="h1-", dir=os.environ.get("VERIF_SCRATCH_BASE", "/var/tmp"))
    out = []
    try:
        for h in histories:
            be = Backend(config, workdir)
            try:
                rp = Replayer(be.storage)
                ev = rp.run(h["ops"], with_post=True, post_getters=config not in SLOW)
                out.append({"config": config, "hid": h["hid"], "ev": ev})
            finally:
                be.close()
    finally:
        if own:
            import shutil

            shutil.rmtree(workdir, ignore_errors=True)
    return out
