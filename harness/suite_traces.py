"""Traces of the repository's OWN test-suite, validated against the Storage contract (StorageTrace).

`record()` runs selected test files of the repository (from the tree under test) with the recording plugin
harness/suite_recorder.py; `build()` turns the raw events into StorageTrace traces: one trace per backend state
(an in-memory object, a SQLite file, a journal file), ids numbered in creation order, values/attributes/
distributions/dates replaced by per-trace tokens.  Nothing is judged here.

What is deliberately NOT turned into a verdict (the trace is cut there, counted in the evidence):
  * calls that overlap in time (threads) or come from several processes: a sequential trace cannot order them;
  * exceptions that are not one of the contract's error classes (mocks, injected faults of the tests);
  * a backend that was not empty when it was first seen, or an object that was copied/unpickled;
  * raw ids re-issued by SQLite (finding K2): the creation-order numbering is ambiguous afterwards;
  * calls StorageTrace itself declares undefined (UNDEF), as in the generated histories.
"""
from __future__ import annotations

import glob
import json
import math
import os
import subprocess
import sys

from . import common, storage_driver as sd, tlc

QUICK_FILES = ["tests/storages_tests/test_storages.py", "tests/storages_tests/test_cached_storage.py",
               "tests/trial_tests/test_trial.py"]
THOROUGH_FILES = QUICK_FILES + ["tests/study_tests/test_study.py", "tests/study_tests/test_optimize.py",
                                "tests/storages_tests/test_heartbeat.py", "tests/storages_tests/test_callbacks.py",
                                "tests/storages_tests/journal_tests", "tests/study_tests/test_multi_objective.py",
                                "tests/study_tests/test_constrained_optimization.py", "tests/trial_tests/test_trials.py",
                                "tests/samplers_tests/test_brute_force.py", "tests/samplers_tests/test_grid.py",
                                "tests/pruners_tests"]
MAX_EVENTS = 260
ERRORS = sd.ERRORS


def start(files, out, repo=None, workers=8, extra=()):
    """start pytest with the recorder in the tree under test; -> Popen.  The gRPC-parametrised tests are left out:
    optuna.testing binds fixed ports, which collide with any other test run on the machine."""
    repo = repo or os.environ.get("VERIF_REPO") or "/repo"
    os.makedirs(out, exist_ok=True)
    env = dict(os.environ, VERIF_SUITE_OUT=out, PYTHONPATH=f"/verif:{repo}", PYTHONHASHSEED="0", GRPC_VERBOSITY="NONE")
    cmd = [sys.executable, "-m", "pytest", *files, "-q", "-p", "no:cacheprovider", "-p", "harness.suite_recorder",
           "--timeout=900", "--color=no", "-n", str(workers), "-k", "not grpc", *extra]
    return subprocess.Popen(cmd, cwd=repo, env=env, stdout=subprocess.PIPE, stderr=subprocess.STDOUT, text=True)


def finish(proc, timeout=3000):
    try:
        out, _ = proc.communicate(timeout=timeout)
    except subprocess.TimeoutExpired:
        proc.kill()
        raise tlc.MachineryError("the recorded test run did not finish in time")
    lines = out.strip().splitlines()
    return proc.returncode, (lines[-1] if lines else "")


def load(out):
    evs = []
    for f in sorted(glob.glob(os.path.join(out, "*.ndjson"))):
        for line in open(f):
            line = line.strip()
            if line:
                evs.append(json.loads(line))
    return evs


# ---------------------------------------------------------------------------------------------------
# grouping into backend states
# ---------------------------------------------------------------------------------------------------
def group(evs):
    """-> list of {"key", "ev": [...], "cut": reason or None}"""
    by_key = {}
    for e in evs:
        by_key.setdefault(e["key"], []).append(e)
    out = []
    for key, es in by_key.items():
        if key.startswith("tainted:"):
            continue
        if len({e["pid"] for e in es}) > 1:
            out.append({"key": key, "ev": [], "cut": "several processes"})
            continue
        es.sort(key=lambda e: e["s0"])
        file_backed = key.startswith(("rdb:", "journal:"))
        cur = None if file_backed else {"key": key, "ev": [], "cut": None}
        last_end = 0
        for e in es:
            if e["m"] == "__open__":
                if not e["existed"]:
                    if cur is not None:
                        out.append(cur)
                    cur = {"key": key, "ev": [], "cut": None}
                elif cur is None:
                    pass          # opened on a file we never saw being created: not judged until a fresh file appears
                continue
            if cur is None or cur["cut"]:
                continue
            if e["s0"] < last_end:             # overlaps an earlier call
                while cur["ev"] and cur["ev"][-1]["s1"] > e["s0"]:
                    cur["ev"].pop()
                cur["cut"] = "overlapping calls"
                continue
            last_end = max(last_end, e["s1"])
            cur["ev"].append(e)
        if cur is not None:
            out.append(cur)
    return [g for g in out if g["ev"]]


# ---------------------------------------------------------------------------------------------------
# tokens
# ---------------------------------------------------------------------------------------------------
class Cut(Exception):
    pass


class Tokens:
    def __init__(self):
        self.floats = {}       # hex -> float
        self.attrs = {}
        self.dists = {}
        self.tdates = {}

    # pass 1: collect
    def see_float(self, h):
        if h is None or h == "nan":
            return
        if not isinstance(h, str) or h.startswith("bad"):
            raise Cut("unrepresentable number")
        self.floats[h] = float.fromhex(h)

    def finish(self):
        finite = sorted({v for v in self.floats.values() if not math.isinf(v)})
        if len(finite) > 800:
            raise Cut("too many distinct values")
        self.rank = {v: i + 1 for i, v in enumerate(finite)}

    # pass 2: tokens
    def val(self, h):
        if h is None:
            return sd.OTHER_VAL
        if h == "nan":
            return 9999
        v = self.floats[h]
        if math.isinf(v):
            return 1000 if v > 0 else -1000
        return self.rank[v]

    def attr(self, s):
        if s.startswith("unserialisable"):
            raise Cut("unserialisable attribute")
        return self.attrs.setdefault(s, len(self.attrs))

    def dist(self, d):
        if d is None:
            return {"c": "other", "g": 0, "k": -1}
        cls, js = d
        canon = _canon_dist(js)
        if canon is None:
            raise Cut("unknown distribution")
        c, g, ident = canon
        table = self.dists.setdefault((c, g), {})
        return {"c": c, "g": g, "k": table.setdefault(ident, len(table))}

    def tdate(self, iso):
        if iso is None:
            return 0
        return self.tdates.setdefault(iso, 10 + len(self.tdates))

    def date(self, iso):
        if iso is None:
            return 0
        return self.tdates.get(iso, 3)


_DCACHE = {}


def _canon_dist(js):
    if js in _DCACHE:
        return _DCACHE[js]
    from optuna.distributions import (CategoricalDistribution, FloatDistribution, IntDistribution,
                                      _convert_old_distribution_to_new_distribution, distribution_to_json,
                                      json_to_distribution)

    try:
        d = _convert_old_distribution_to_new_distribution(json_to_distribution(js), suppress_warning=True)
    except Exception:
        _DCACHE[js] = None
        return None
    if isinstance(d, FloatDistribution):
        r = ("float", int(bool(d.log)), distribution_to_json(d))
    elif isinstance(d, IntDistribution):
        r = ("int", int(bool(d.log)), distribution_to_json(d))
    elif isinstance(d, CategoricalDistribution):
        r = ("cat", 0, json.dumps(json.loads(distribution_to_json(d))["attributes"]["choices"]))
    else:
        r = None
    _DCACHE[js] = r
    return r


# ---------------------------------------------------------------------------------------------------
# raw events -> StorageTrace events
# ---------------------------------------------------------------------------------------------------
def _walk_floats(tk, e):
    def trial(ft):
        if ft["values"] == "bad":
            raise Cut("unrepresentable values")
        for v in ft["values"] or []:
            tk.see_float(v)
        for n, (d, iv) in ft["params"].items():
            if iv == "bad":
                raise Cut("parameter value outside its distribution")
            tk.see_float(iv)
        for v in ft["iv"].values():
            tk.see_float(v)
    a = e.get("args", {})
    if a.get("template_trial"):
        trial(a["template_trial"])
    for k in ("param_value_internal", "intermediate_value"):
        if k in a:
            tk.see_float(a[k])
    for v in a.get("values") or []:
        tk.see_float(v)
    r = e.get("ret")
    if e["m"] in ("get_trial", "get_best_trial") and isinstance(r, dict):
        trial(r)
    if e["m"] == "get_all_trials" and isinstance(r, list):
        for ft in r:
            trial(ft)
    if e["m"] == "get_trial_param" and "ret" in e:
        tk.see_float(r)


class Builder:
    def __init__(self, g):
        self.g = g
        self.tk = Tokens()
        self.rawS, self.rawT, self.s_of, self.t_of = [], [], {}, {}

    def S(self, raw):
        return self.s_of.get(raw, 0) if isinstance(raw, int) and not isinstance(raw, bool) else 0

    def T(self, raw):
        return self.t_of.get(raw, 0) if isinstance(raw, int) and not isinstance(raw, bool) else 0

    def name(self, n, arg=False):
        from optuna.storages._base import DEFAULT_STUDY_NAME_PREFIX

        if arg and isinstance(n, str) and n.startswith(DEFAULT_STUDY_NAME_PREFIX):
            raise Cut("generated study name passed back as an argument")     # the model calls all of them "auto"
        if n is None or (isinstance(n, str) and n.startswith(DEFAULT_STUDY_NAME_PREFIX)):
            return "auto"
        if not isinstance(n, str) or n == "auto":
            raise Cut("study name outside the model")
        return n

    def dirs(self, ds):
        return [d - 1 if d in (1, 2) else 9 for d in ds]

    def trial(self, ft, template=False):
        tk = self.tk
        date = tk.tdate if template else tk.date
        return {"id": 0 if template else self.T(ft["id"]), "number": ft["number"], "state": ft["state"],
                "values": sd.NONE_V if ft["values"] is None else [tk.val(v) for v in ft["values"]],
                "params": {n: {"d": tk.dist(d), "v": tk.val(iv)} for n, (d, iv) in ft["params"].items()},
                "ua": {k: tk.attr(v) for k, v in ft["ua"].items()}, "sa": {k: tk.attr(v) for k, v in ft["sa"].items()},
                "iv": {k: tk.val(v) for k, v in ft["iv"].items()}, "ts": date(ft["ts"]), "tc": date(ft["tc"])}

    def study(self, fs):
        return {"id": self.S(fs["id"]), "name": self.name(fs["name"]), "dirs": self.dirs(fs["dirs"]),
                "ua": {k: self.tk.attr(v) for k, v in fs["ua"].items()}, "sa": {k: self.tk.attr(v) for k, v in fs["sa"].items()}}

    def reply(self, e):
        """-> ("ok", None) / ("err", class) ; raises Cut for an exception outside the contract"""
        if "exc" not in e:
            return "ok", None
        for c in e["exc"]:
            if c in ERRORS:
                return "err", c
        raise Cut(f"exception outside the contract: {e['exc'][0]}")

    def convert(self, e):
        """-> StorageTrace event, or None to skip a getter the model does not describe"""
        m, a, tk = e["m"], e.get("args", {}), self.tk
        if "unbound" in a or any(isinstance(v, str) and v.startswith("bad:") for v in a.values()):
            if m.startswith("get_"):
                return None
            raise Cut("arguments outside the model")
        k, err = self.reply(e)
        r = e.get("ret")
        ret = {"k": "err", "v": err} if k == "err" else None

        def out(op, v=None):
            op["ret"] = ret if ret is not None else {"k": "ok", "v": v}
            op["p"] = 0
            return op
        if m == "create_new_study":
            op = {"a": "create_study", "name": self.name(a["study_name"], arg=True), "dirs": self.dirs(a["directions"])}
            if any(d == 9 for d in op["dirs"]) or not op["dirs"]:
                raise Cut("directions outside the model")
            if k == "ok":
                if r in self.s_of:
                    raise Cut("raw study id re-issued (K2)")
                self.rawS.append(r)
                self.s_of[r] = len(self.rawS)
                op["raw"] = r
                return out(op, len(self.rawS))
            return out(op)
        if m == "delete_study":
            return out({"a": "delete_study", "s": self.S(a["study_id"])}, 0)
        if m in ("set_study_user_attr", "set_study_system_attr"):
            return out({"a": "set_study_ua" if "user" in m else "set_study_sa", "s": self.S(a["study_id"]), "key": str(a["key"]),
                        "v": tk.attr(a["value"])}, 0)
        if m == "get_study_id_from_name":
            return out({"a": m, "name": self.name(a["study_name"])}, self.S(r) if k == "ok" else None)     # "auto": any of them
        if m == "get_study_name_from_id":
            return out({"a": "get_study_name", "s": self.S(a["study_id"])}, self.name(r) if k == "ok" else None)
        if m == "get_study_directions":
            return out({"a": "get_study_dirs", "s": self.S(a["study_id"])}, self.dirs(r) if k == "ok" else None)
        if m in ("get_study_user_attrs", "get_study_system_attrs"):
            return out({"a": "get_study_ua" if "user" in m else "get_study_sa", "s": self.S(a["study_id"])},
                       {kk: tk.attr(v) for kk, v in r.items()} if k == "ok" else None)
        if m == "get_all_studies":
            return out({"a": m}, sorted((self.study(fs) for fs in r), key=lambda s: s["id"]) if k == "ok" else None)
        if m == "create_new_trial":
            tm = a["template_trial"]
            op = {"a": "create_trial", "s": self.S(a["study_id"]),
                  "tm": {"has": 0} if tm is None else dict(self.trial(tm, template=True), has=1)}
            if tm is not None:
                for f in ("id", "number"):
                    op["tm"].pop(f)
            if k == "ok":
                if r in self.t_of:
                    raise Cut("raw trial id re-issued (K2)")
                self.rawT.append(r)
                self.t_of[r] = len(self.rawT)
                op["raw"] = r
                return out(op, len(self.rawT))
            return out(op)
        if m == "set_trial_param":
            return out({"a": "set_param", "t": self.T(a["trial_id"]), "name": str(a["param_name"]),
                        "v": tk.val(a["param_value_internal"]), "d": tk.dist(a["distribution"])}, 0)
        if m == "get_trial_id_from_study_id_trial_number":
            return out({"a": "get_trial_id_from_number", "s": self.S(a["study_id"]), "n": a["trial_number"]},
                       self.T(r) if k == "ok" else None)
        if m == "get_trial_number_from_id":
            return out({"a": "get_trial_number", "t": self.T(a["trial_id"])}, r)
        if m == "get_trial_param":
            return out({"a": m, "t": self.T(a["trial_id"]), "name": str(a["param_name"])}, tk.val(r) if k == "ok" else None)
        if m == "set_trial_state_values":
            vals = sd.NONE_V if a["values"] is None else [tk.val(v) for v in a["values"]]
            return out({"a": "set_state", "t": self.T(a["trial_id"]), "state": a["state"], "values": vals}, bool(r))
        if m == "set_trial_intermediate_value":
            return out({"a": "set_iv", "t": self.T(a["trial_id"]), "step": str(a["step"]), "v": tk.val(a["intermediate_value"])}, 0)
        if m in ("set_trial_user_attr", "set_trial_system_attr"):
            return out({"a": "set_trial_ua" if "user" in m else "set_trial_sa", "t": self.T(a["trial_id"]), "key": str(a["key"]),
                        "v": tk.attr(a["value"])}, 0)
        if m == "get_trial":
            return out({"a": m, "t": self.T(a["trial_id"])}, self.trial(r) if k == "ok" else None)
        if m == "get_all_trials":
            st = a["states"]
            return out({"a": m, "s": self.S(a["study_id"]), "states": ["ALL"] if st is None else list(st), "dc": int(bool(a["deepcopy"])),
                        "as_list": 0}, [self.trial(t) for t in r] if k == "ok" else None)
        if m == "get_n_trials":
            st = a.get("state")
            if st is not None and not isinstance(st, str):
                return None
            return out({"a": m, "s": self.S(a["study_id"]), "state": "ALL" if st is None else st}, r)
        if m == "get_best_trial":
            return out({"a": m, "s": self.S(a["study_id"])}, self.trial(r) if k == "ok" else None)
        if m in ("get_trial_user_attrs", "get_trial_system_attrs"):
            return out({"a": "get_trial_ua" if "user" in m else "get_trial_sa", "t": self.T(a["trial_id"])},
                       {kk: tk.attr(v) for kk, v in r.items()} if k == "ok" else None)
        if m == "get_trial_params":
            return None
        raise Cut(f"method {m} outside the model")

    def build(self):
        evs = self.g["ev"][:MAX_EVENTS]
        cut = self.g["cut"] or ("event limit" if len(self.g["ev"]) > MAX_EVENTS else None)
        good = []
        try:                                   # pass 1: every number of the trace (tokens are order-preserving ranks)
            for e in evs:
                _walk_floats(self.tk, e)
                good.append(e)
        except Cut as c:
            cut = cut or str(c)
        try:
            self.tk.finish()
        except Cut as c:
            return None, str(c)
        out = []
        for e in good:
            try:
                ev = self.convert(e)
            except Cut as c:
                cut = cut or str(c)
                break
            except (KeyError, TypeError, AttributeError, ValueError) as ex:   # a reply of an unexpected shape
                cut = cut or f"unreadable record: {type(ex).__name__}"
                break
            if ev is not None:
                ev["test"] = e["test"].split("::", 1)[-1][:120]
                ev["nodeid"] = e["test"].replace("::teardown", "")
                ev["cls"] = e["cls"]
                out.append(ev)
        return out, cut


def build(evs):
    """-> (traces, stats)"""
    common.use_repo()
    traces, cuts = [], {}
    for g in group(evs):
        ev, cut = Builder(g).build()
        if cut:
            cuts[cut.split(":")[0]] = cuts.get(cut.split(":")[0], 0) + 1
        if ev:
            traces.append({"key": g["key"], "config": "suite:" + g["ev"][0]["cls"], "hid": g["ev"][0]["test"][:150],
                           "ev": ev, "cut": cut})
    return traces, cuts
