"""H2 — deterministic scheduler for real threads with preemption at every SOURCE LINE of selected files.

Real `threading.Thread` workers run real optuna code; exactly one of them is runnable at any time (a baton
passed by the scheduler).  `sys.settrace` is installed in the worker threads: every `line` event in a frame
whose file is in `files` is a yield point.  Locks of the objects under test are replaced (instance attributes)
by `SchedLock`, so that a worker that would block on a lock held by a preempted worker yields instead of
dead-locking the process; it becomes runnable again when the lock is free.

A schedule is a function `choose(runnable_workers, step_no) -> worker`.  The sequence of choices is recorded and
can be replayed exactly.
"""
from __future__ import annotations

import sys
import threading


class SchedLock:
    """Re-entrant or plain lock whose waiting is visible to the scheduler."""

    def __init__(self, sched: "Scheduler", reentrant: bool):
        self.sched = sched
        self.reentrant = reentrant
        self.owner = None
        self.count = 0

    def acquire(self, blocking=True, timeout=-1):
        me = self.sched.current_worker()
        if me is None:                       # the main thread (set-up / read-back): nobody else is running
            self.owner, self.count = "main", self.count + 1
            return True
        while True:
            if self.owner is None or (self.reentrant and self.owner is me):
                self.owner = me
                self.count += 1
                return True
            if not blocking:
                return False
            me.blocked_on = self
            self.sched.yield_point(me, "lock")
            me.blocked_on = None

    def release(self):
        self.count -= 1
        if self.count <= 0:
            self.owner, self.count = None, 0

    __enter__ = acquire

    def __exit__(self, *a):
        self.release()
        return False

    def locked(self):
        return self.owner is not None


class Worker:
    def __init__(self, wid, fn):
        self.wid = wid
        self.fn = fn
        self.thread = None
        self.waiting = False      # parked at a yield point
        self.finished = False
        self.blocked_on = None
        self.result = None
        self.error = None
        self.lines = 0


class Scheduler:
    def __init__(self, files):
        self.files = tuple(files)
        self.cv = threading.Condition()
        self.workers = []
        self.current = None
        self.tl = threading.local()
        self.choices = []
        self.log = []             # events appended by worker code through .event(); totally ordered

    # ---------------------------------------------------------------- worker side
    def current_worker(self):
        return getattr(self.tl, "worker", None)

    def yield_point(self, w, why):
        with self.cv:
            w.waiting = True
            self.current = None
            self.cv.notify_all()
            while self.current is not w:
                self.cv.wait()
            w.waiting = False

    def _tracer(self, frame, event, arg):
        if event != "call":
            return None
        fn = frame.f_code.co_filename
        if not fn.endswith(self.files):
            return None
        return self._local

    def _local(self, frame, event, arg):
        if event == "line":
            w = self.current_worker()
            if w is not None:
                w.lines += 1
                self.yield_point(w, "line")
        return self._local

    def event(self, ev):
        """record an event in scheduler order (called by worker code while it holds the baton)"""
        self.log.append(ev)

    def _run_worker(self, w):
        self.tl.worker = w
        self.yield_point(w, "start")
        sys.settrace(self._tracer)
        try:
            w.result = w.fn(w)
        except BaseException as e:  # noqa
            w.error = e
        finally:
            sys.settrace(None)
            with self.cv:
                w.finished = True
                if self.current is w:
                    self.current = None
                self.cv.notify_all()

    # ---------------------------------------------------------------- scheduler side
    def add(self, fn):
        w = Worker(len(self.workers) + 1, fn)
        self.workers.append(w)
        return w

    def runnable(self):
        out = []
        for w in self.workers:
            if w.finished or not w.waiting or getattr(w, "dead", False):
                continue
            lk = w.blocked_on
            if lk is not None and not (lk.owner is None or (lk.reentrant and lk.owner is w)):
                continue
            out.append(w)
        return out

    def run(self, choose, max_steps=200000):
        for w in self.workers:
            w.thread = threading.Thread(target=self._run_worker, args=(w,), daemon=True)
            w.thread.start()
        with self.cv:
            while not all(w.waiting or w.finished for w in self.workers):
                self.cv.wait()
        step = 0
        while step < max_steps:
            r = self.runnable()
            if not r:
                break
            w = choose(r, step)
            self.choices.append(w.wid)
            step += 1
            with self.cv:
                self.current = w
                self.cv.notify_all()
                while not ((w.waiting and self.current is None) or w.finished):
                    self.cv.wait()
        deadlock = any(not w.finished and not getattr(w, "dead", False) for w in self.workers)
        for w in self.workers:
            if w.finished:
                w.thread.join(timeout=5)
        return {"steps": step, "deadlock": deadlock}


def patch_locks(sched: Scheduler, obj, names=("_lock", "_thread_lock", "lock")):
    """replace threading locks held as instance attributes by scheduler-aware ones (recursively for wrappers)"""
    seen = set()

    def rec(o, depth):
        if id(o) in seen or depth > 3 or o is None:
            return
        seen.add(id(o))
        d = getattr(o, "__dict__", None)
        if not isinstance(d, dict):
            return
        for k, v in list(d.items()):
            t = type(v).__name__
            if k in names and t in ("RLock", "lock", "_RLock"):
                d[k] = SchedLock(sched, reentrant=(t != "lock"))
            elif k in ("_backend", "_cache", "_replay_result", "_lock_obj"):
                rec(v, depth + 1)
    rec(obj, 0)
