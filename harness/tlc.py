"""Thin runner around TLC (tla2tools 1.8): exhaustive checks, simulation, batched trace validation.

Python never decides a property here: it only starts TLC, and parses what TLC printed
(state counts, per-action coverage, invariant violations, ACC/AT lines of the trace specs).
"""
from __future__ import annotations

import json
import os
import re
import shutil
import subprocess
import tempfile
import time
from dataclasses import dataclass, field
from pathlib import Path

from . import tlaval

SPECS = Path(__file__).resolve().parent.parent / "specs"
JAR = "/opt/veriftools/tla/tla2tools.jar:/opt/veriftools/tla/CommunityModules-deps.jar"


class MachineryError(Exception):
    """TLC crashed / timed out / printed something unparsable.  Exit code 2, never a VIOLATION."""


@dataclass
class ModelResult:
    module: str
    ok: bool
    generated: int = 0
    distinct: int = 0
    depth: int = 0
    coverage: dict = field(default_factory=dict)  # action -> (distinct, total)
    violated: str | None = None  # name of violated invariant/property
    wall_s: float = 0.0
    out: str = ""
    cmd: str = ""


_scratch_root: str | None = None


def scratch() -> str:
    global _scratch_root
    if _scratch_root is None:
        base = os.environ.get("VERIF_SCRATCH_BASE", "/var/tmp")
        _scratch_root = tempfile.mkdtemp(prefix="verif-", dir=base)
    return _scratch_root


def cleanup() -> None:
    global _scratch_root
    if _scratch_root and os.path.isdir(_scratch_root):
        shutil.rmtree(_scratch_root, ignore_errors=True)
    _scratch_root = None


def _java(args, env=None, timeout=600, heap="4g", deque=False, serial=False):
    cmd = ["java", "-XX:+UseSerialGC" if serial else "-XX:+UseParallelGC", f"-Xmx{heap}"]
    if not serial:
        cmd.append("-XX:ParallelGCThreads=8")
    if deque:
        cmd.append("-Dtlc2.tool.queue.IStateQueue=StateDeque")
    cmd.append("-Djava.io.tmpdir=" + scratch())       # TLC leaves an empty tlc-* directory per run in java.io.tmpdir
    cmd += ["-cp", JAR, "tlc2.TLC"] + list(args)
    e = dict(os.environ)
    e.pop("JAVA_TOOL_OPTIONS", None)
    if env:
        e.update(env)
    t0 = time.time()
    try:
        p = subprocess.run(cmd, cwd=str(SPECS), env=e, capture_output=True, text=True, timeout=timeout)
    except subprocess.TimeoutExpired as ex:
        subprocess.run(["pkill", "-f", "tlc2[.]TLC.*" + re.escape(str(args[-1]))], capture_output=True)
        raise MachineryError(f"TLC timeout after {timeout}s: {' '.join(cmd)}") from ex
    return p.stdout + p.stderr, time.time() - t0, " ".join(cmd), p.returncode


_STATS = re.compile(r"(\d+) states generated, (\d+) distinct states found")
_DEPTH = re.compile(r"The depth of the complete state graph search is (\d+)")
_COV = re.compile(r"^<(\w+) line \d+, col \d+ to line \d+, col \d+ of module (\w+)(?: \([\d ]+\))?>: (\d+):(\d+)", re.M)
_VIOL_INV = re.compile(r"Error: Invariant (\w+) is violated")
_VIOL_PROP = re.compile(r"Error: (?:Action|Temporal) propert(?:y|ies) (\w+)? ?(?:is|were) violated")
_VIOL_ACTPROP = re.compile(r"Error: Action property (\w+) is violated")


def parse_stats(out: str):
    m = None
    for m in _STATS.finditer(out):
        pass
    d = None
    for d in _DEPTH.finditer(out):
        pass
    return (int(m.group(1)) if m else 0, int(m.group(2)) if m else 0, int(d.group(1)) if d else 0)


def parse_coverage(out: str, module: str | None = None) -> dict:
    # TLC reprints the statistics periodically on long runs: only the last report counts
    i = out.rfind("The coverage statistics at")
    if i >= 0:
        out = out[i:]
    cov = {}
    for m in _COV.finditer(out):
        name, mod, distinct, total = m.group(1), m.group(2), int(m.group(3)), int(m.group(4))
        if name in ("Init", "Next", "Spec"):
            continue
        a = cov.get(name, (0, 0))
        cov[name] = (a[0] + distinct, a[1] + total)
    return cov


def check_model(module: str, cfg: str | None = None, *, workers: int = 16, timeout: int = 900,
                coverage: bool = True, env: dict | None = None, heap: str = "6g",
                extra: list | None = None) -> ModelResult:
    """Exhaustive TLC run of specs/<module>.tla with specs/<cfg>.cfg."""
    meta = tempfile.mkdtemp(prefix="meta-", dir=scratch())
    args = ["-workers", str(workers), "-metadir", meta, "-noGenerateSpecTE"]
    if coverage:
        args += ["-coverage", "1"]
    if cfg:
        args += ["-config", cfg if cfg.endswith(".cfg") else cfg + ".cfg"]
    args += list(extra or [])
    args += [module + ".tla"]
    out, wall, cmd, rc = _java(args, env=env, timeout=timeout, heap=heap)
    shutil.rmtree(meta, ignore_errors=True)
    gen, dist, depth = parse_stats(out)
    res = ModelResult(module=module, ok=False, generated=gen, distinct=dist, depth=depth,
                      coverage=parse_coverage(out), wall_s=wall, out=out, cmd=cmd)
    m = _VIOL_INV.search(out) or _VIOL_ACTPROP.search(out) or _VIOL_PROP.search(out)
    if m:
        res.violated = m.group(1) or "property"
        return res
    if "Error: Deadlock reached" in out:
        res.violated = "Deadlock"
        return res
    if "Model checking completed. No error has been found" in out:
        res.ok = True
        return res
    raise MachineryError(f"TLC run of {module} neither passed nor reported a violation:\n{out[-3000:]}")


def require_model(module: str, cfg: str | None = None, *, must_cover: list | None = None,
                  allow_uncovered: list | None = None, **kw) -> ModelResult:
    """check_model + the model must pass and every listed action must have been taken (vacuity guard)."""
    r = check_model(module, cfg, **kw)
    if not r.ok:
        raise MachineryError(f"spec instance {module}/{cfg} fails its own properties ({r.violated}); "
                             f"this is a spec-level error, not a verdict about the code:\n{r.out[-3000:]}")
    zero = [a for a, (d, t) in r.coverage.items() if t == 0 and a not in (allow_uncovered or [])]
    if must_cover is not None:
        zero = [a for a in must_cover if r.coverage.get(a, (0, 0))[1] == 0]
    if zero:
        raise MachineryError(f"vacuous model run {module}/{cfg}: actions never taken: {zero}")
    return r


def expect_violation(module: str, cfg: str, invariant: str | None = None, **kw) -> ModelResult:
    """A spec instance that is *expected* to fail (a modelled defect / negative spec test)."""
    r = check_model(module, cfg, coverage=False, **kw)
    if r.ok or (invariant and r.violated != invariant):
        raise MachineryError(f"spec instance {module}/{cfg} was expected to violate {invariant}, got "
                             f"ok={r.ok} violated={r.violated}")
    return r


# ---------------------------------------------------------------------------------------------
# simulation: behaviours out of TLC
# ---------------------------------------------------------------------------------------------

_ACT = re.compile(r"^\\\* <(\w+)(?:\((.*)\))? line \d+, col \d+ to line \d+, col \d+ of module (\w+)>", re.M)


@dataclass
class Step:
    action: str
    args: list
    state: dict


def parse_sim_file(text: str) -> list:
    """One file written by `-simulate file=...`: sequence of  \\* <Action(args) ...>  STATE_n == /\\ v = ..."""
    steps = []
    parts = re.split(r"^STATE_\d+ ==\s*$", text, flags=re.M)
    # parts[0] = header + first action comment ; parts[i] = state text + next action comment
    heads = [parts[0]] + parts[1:]
    pending_action = None
    for i, chunk in enumerate(heads):
        if i > 0:
            # state text runs until the next comment line (or EOF)
            m = re.search(r"^\\\* <", chunk, flags=re.M)
            st_text = chunk[: m.start()] if m else chunk
            st_text = st_text.split("====")[0]
            state = tlaval.parse_state(st_text)
            name, args = pending_action if pending_action else ("Init", [])
            steps.append(Step(name, args, state))
        m = None
        for m in _ACT.finditer(chunk):
            pass
        if m:
            argtxt = m.group(2)
            args = tlaval.parse_arglist(argtxt) if argtxt else []
            pending_action = (m.group(1), args)
        else:
            pending_action = None
    return steps


def simulate(module: str, cfg: str | None, *, num: int, depth: int, seed: int, timeout: int = 300,
             env: dict | None = None) -> list:
    """Returns a list of behaviours; a behaviour is a list of Step(action, args, state)."""
    d = tempfile.mkdtemp(prefix="sim-", dir=scratch())
    meta = tempfile.mkdtemp(prefix="meta-", dir=scratch())
    args = ["-simulate", f"file={d}/tr,num={num}", "-depth", str(depth), "-workers", "1", "-seed", str(seed),
            "-metadir", meta, "-noGenerateSpecTE", "-deadlock"]
    if cfg:
        args += ["-config", cfg if cfg.endswith(".cfg") else cfg + ".cfg"]
    args += [module + ".tla"]
    out, wall, cmd, rc = _java(args, env=env, timeout=timeout)
    files = sorted(Path(d).glob("tr_*"), key=lambda p: [int(x) for x in re.findall(r"\d+", p.name)])
    if not files:
        raise MachineryError(f"simulate of {module} produced no behaviours:\n{out[-2000:]}")
    behs = []
    for f in files:
        behs.append(parse_sim_file(f.read_text()))
    shutil.rmtree(d, ignore_errors=True)
    shutil.rmtree(meta, ignore_errors=True)
    return behs


# ---------------------------------------------------------------------------------------------
# trace validation
# ---------------------------------------------------------------------------------------------

@dataclass
class Validation:
    total: int
    accepted: set
    rejected: dict  # tid -> {"reached": l, "len": n}
    generated: int
    distinct: int
    wall_s: float
    cmd: str
    out: str = ""
    prints: list = field(default_factory=list)  # other <<"TAG", tid, ...>> tuples the trace spec printed


_ACC = re.compile(r'<<"ACC", (-?\d+)>>')
_AT = re.compile(r'<<"AT", (-?\d+), (\d+)>>')
_TAGGED = re.compile(r'^<<"([A-Z0-9_]+)", .*>>\s*$', re.M)


def _tagged(out: str) -> list:
    res = []
    for m in _TAGGED.finditer(out):
        if m.group(1) in ("ACC", "AT"):
            continue
        try:
            res.append(tlaval.parse(m.group(0).strip()))
        except tlaval.ParseError:
            pass
    return res


def _run_trace_tlc(module, cfg, trace_file, timeout, diag=False, deque=True, extra_env=None):
    meta = tempfile.mkdtemp(prefix="meta-", dir=scratch())
    args = ["-workers", "1", "-metadir", meta, "-noGenerateSpecTE", "-config",
            cfg if cfg.endswith(".cfg") else cfg + ".cfg", module + ".tla"]
    env = {"TRACE_FILE": str(trace_file), "VERIF_DIAG": "1" if diag else "0"}
    env.update(extra_env or {})
    out, wall, cmd, rc = _java(args, env=env, timeout=timeout, deque=deque, serial=True, heap="3g")
    shutil.rmtree(meta, ignore_errors=True)
    if "Model checking completed. No error has been found" not in out:
        raise MachineryError(f"trace validation run of {module} failed inside TLC (not a verdict):\n{out[-4000:]}")
    return out, wall, cmd


def _no_null(x):
    """JSON null cannot be read by TLC: an unexpected None in an observation becomes an integer no spec action produces"""
    if x is None:
        return -99999
    if isinstance(x, dict):
        return {k: _no_null(v) for k, v in x.items()}
    if isinstance(x, (list, tuple)):
        return [_no_null(v) for v in x]
    return x


def validate(module: str, cfg: str, traces: list, *, timeout: int = 900, shards: int = 1,
             extra_env: dict | None = None) -> Validation:
    """Validate traces (list of dicts with 'tid' and 'ev') against specs/<module>.tla.

    The trace module prints <<"ACC", tid>> when a trace was consumed to its end; a trace without an
    ACC line is rejected.  Rejected traces are re-run with VERIF_DIAG=1 to learn the furthest event
    matched (<<"AT", tid, l>> lines).
    """
    import concurrent.futures as cf

    if not traces:
        raise MachineryError("validate() called with no traces")
    traces = [_no_null(t) for t in traces]
    tids = [t["tid"] for t in traces]
    if len(set(tids)) != len(tids):
        raise MachineryError("duplicate trace ids")
    d = tempfile.mkdtemp(prefix="tr-", dir=scratch())
    shards = max(1, min(shards, len(traces)))
    files = []
    for s in range(shards):
        part = traces[s::shards]
        f = Path(d) / f"traces{s}.ndjson"
        with open(f, "w") as fh:
            for t in part:
                fh.write(json.dumps(t, separators=(",", ":")) + "\n")
        files.append(f)
    accepted = set()
    gen = dist = 0
    wall = 0.0
    cmd = ""
    outs = []
    prints = []
    t0 = time.time()
    with cf.ThreadPoolExecutor(max_workers=shards) as ex:
        futs = [ex.submit(_run_trace_tlc, module, cfg, f, timeout, False, True, extra_env) for f in files]
        for fu in futs:
            out, w, cmd = fu.result()
            outs.append(out)
            g, dd, _ = parse_stats(out)
            gen += g
            dist += dd
            accepted |= {int(m.group(1)) for m in _ACC.finditer(out)}
            prints += _tagged(out)
    wall = time.time() - t0
    rejected = {}
    rej = [t for t in traces if t["tid"] not in accepted]
    if rej:
        f = Path(d) / "rejected.ndjson"
        with open(f, "w") as fh:
            for t in rej:
                fh.write(json.dumps(t, separators=(",", ":")) + "\n")
        out, w, _ = _run_trace_tlc(module, cfg, f, timeout, True, True, extra_env)
        reach = {}
        for m in _AT.finditer(out):
            tid, l = int(m.group(1)), int(m.group(2))
            reach[tid] = max(reach.get(tid, 0), l)
        for t in rej:
            rejected[t["tid"]] = {"reached": reach.get(t["tid"], 0), "len": len(t["ev"])}
    shutil.rmtree(d, ignore_errors=True)
    return Validation(total=len(traces), accepted=accepted, rejected=rejected, generated=gen,
                      distinct=dist, wall_s=wall, cmd=cmd, out=outs[0][-2000:] if outs else "", prints=prints)
