"""./check <ID> [quick|thorough] [--replay <path>]

exit 0: property held on everything explored (KNOWN-FINDING lines are informational)
exit 1: at least one `VIOLATION property=<id> replay=<path>` line
exit 2: machinery failure (TLC crash/timeout, vacuous model run, binding self-test failed) — not a verdict
"""
from __future__ import annotations

import importlib
import json
import os
import sys
import traceback

from . import common, tlc


def main(argv):
    if not argv:
        print(__doc__)
        return 2
    pid = argv[0].upper()
    tier = os.environ.get("VERIF_TIER", "quick")
    replay = None
    rest = argv[1:]
    i = 0
    while i < len(rest):
        a = rest[i]
        if a in ("quick", "thorough"):
            tier = a
        elif a == "--replay":
            replay = rest[i + 1]
            i += 1
        i += 1
    if tier not in ("quick", "thorough"):
        tier = "quick"
    seed = int(os.environ.get("VERIF_SEED", "0") or 0)
    try:
        common.use_repo()
        mod = importlib.import_module(f"harness.{pid.lower()}")
    except ModuleNotFoundError:
        print(f"no check for {pid}")
        return 2
    ctx = common.Ctx(pid, tier, seed)
    try:
        if replay:
            data = json.loads(open(replay).read())
            mod.replay(ctx, data)
        else:
            mod.run(ctx)
            ctx.write_evidence()
    except tlc.MachineryError as e:
        print(f"[{pid}] MACHINERY FAILURE (exit 2, not a verdict): {e}", file=sys.stderr)
        return 2
    except Exception:
        traceback.print_exc()
        print(f"[{pid}] MACHINERY FAILURE (exit 2, not a verdict): unexpected exception in the harness", file=sys.stderr)
        return 2
    finally:
        tlc.cleanup()
    if ctx.violations:
        return 1
    import time

    print(f"[{pid}] OK tier={tier} seed={seed} states={ctx.states} traces_validated={ctx.traces_validated} "
          f"wall={time.time() - ctx.t0:.1f}s" + (" (replay: evidence not rewritten)" if replay else ""))
    return 0


if __name__ == "__main__":
    sys.exit(main(sys.argv[1:]))
