"""C17 — incrementally inferred search spaces equal a from-scratch computation.

Spec: specs/SearchSpace.tla (property level: Scratch / NeverGrows / GroupsOK; algorithm level: the cursor
scan of IntersectionSearchSpace and the group splitting), SearchSpaceMC (refinement check on a bounded
instance + deliberately wrong variants that must fail), SearchSpaceTrace (conformance).

The harness only produces abstract histories (TLC random walks of SearchSpaceMC/SearchSpaceSim with
Calculate inserted at seeded points, plus a seeded generator that also uses add_trial), runs them on a
real study with the real calculators and writes down what they returned as (name, dist-token) pairs /
name groups.  Every answer is judged by TLC.
"""
from __future__ import annotations

import concurrent.futures as cf

from . import common, tlc

# (name, token) -> how it is suggested.  For one name all tokens are the same kind with the same `log`
# (optuna refuses anything else for a name within a study); "k" is categorical and has a single token.
TABLE = {
    "a": {"d1": ("float", 0.0, 1.0, False, None), "d2": ("float", 0.0, 2.0, False, None),
          "d3": ("float", 0.0, 1.0, False, 0.5)},
    "b": {"d1": ("int", 0, 4, False, 1), "d2": ("int", 0, 8, False, 1), "d3": ("int", 0, 8, False, 2)},
    "c": {"d1": ("float", 1.0, 2.0, True, None), "d2": ("float", 1.0, 3.0, True, None),
          "d3": ("float", 1.0, 4.0, True, None)},
    "k": {"d1": ("cat", ("p", "nan!", "q"))},     # "nan!" = a NEW float("nan") object every time the distribution is built
}
VALUE = {"a": 0.5, "b": 4, "c": 1.5, "k": "p"}  # contained in every distribution of the name
FINISHED = ("COMPLETE", "PRUNED", "FAIL")
MC_ACTIONS = ["Create", "Claim", "Suggest", "Finish", "AddTrial", "Calculate"]


def _dist(name, tok):
    from optuna.distributions import CategoricalDistribution, FloatDistribution, IntDistribution

    d = TABLE[name][tok]
    if d[0] == "float":
        return FloatDistribution(d[1], d[2], log=d[3], step=d[4])
    if d[0] == "int":
        return IntDistribution(d[1], d[2], log=d[3], step=d[4])
    return CategoricalDistribution(_choices(d[1]))


def _choices(cs):
    return tuple(float("nan") if c == "nan!" else c for c in cs)


def _suggest(trial, name, tok):
    d = TABLE[name][tok]
    if d[0] == "float":
        trial.suggest_float(name, d[1], d[2], log=d[3], step=d[4])
    elif d[0] == "int":
        trial.suggest_int(name, d[1], d[2], log=d[3], step=d[4])
    else:
        trial.suggest_categorical(name, list(_choices(d[1])))


def _tokens(space: dict) -> list:
    """dict name -> real distribution, as a sorted list of [name, token]."""
    out = []
    for name, dist in space.items():
        toks = [t for t in TABLE.get(name, {}) if _dist(name, t) == dist]
        if len(toks) != 1:
            raise tlc.MachineryError(f"cannot project distribution {dist!r} of {name!r} to a token")
        out.append([name, toks[0]])
    return sorted(out)


# ---------------------------------------------------------------------------------------------
# running one abstract history on the real code
# ---------------------------------------------------------------------------------------------

def execute(history: list) -> dict:
    """history: list of ops (dicts).  Returns {0: events, 1: events} (include_pruned False / True)."""
    common.use_repo()
    import optuna
    from optuna.search_space import IntersectionSearchSpace, intersection_search_space
    from optuna.search_space.group_decomposed import _GroupDecomposedSearchSpace
    from optuna.trial import TrialState

    st_of = {"COMPLETE": TrialState.COMPLETE, "PRUNED": TrialState.PRUNED, "FAIL": TrialState.FAIL}
    storage = optuna.storages.InMemoryStorage()
    common.decoy(storage, len(history) % 3)
    study = optuna.create_study(storage=storage, sampler=optuna.samplers.RandomSampler(seed=0))
    inc = {ip: IntersectionSearchSpace(include_pruned=bool(ip)) for ip in (0, 1)}
    grp = {ip: _GroupDecomposedSearchSpace(include_pruned=bool(ip)) for ip in (0, 1)}
    live = {}  # number -> Trial
    events = {0: [], 1: []}

    def both(e):
        events[0].append(e)
        events[1].append(e)

    for op in history:
        k = op["op"]
        if k == "create" and op["st"] == "RUNNING":
            waiting = study.get_trials(deepcopy=False, states=(TrialState.WAITING,))
            if not waiting:
                t = study.ask()
            else:
                # ask() that found the queue empty and then lost the race against an enqueue_trial of another
                # worker: the second half of Study.ask
                t = optuna.Trial(study, study._storage.create_new_trial(study._study_id))
            live[t.number] = t
            both({"op": "create", "st": "RUNNING", "num": t.number})
        elif k == "create":
            study.enqueue_trial({n: VALUE[n] for n in op.get("fixed", [])})
            both({"op": "create", "st": "WAITING", "num": study.get_trials(deepcopy=False)[-1].number,
                  "fixed": op.get("fixed", [])})
        elif k == "claim":
            t = study.ask()
            live[t.number] = t
            both({"op": "claim", "t": t.number})
        elif k == "suggest":
            _suggest(live[op["t"]], op["name"], op["dist"])
            both({"op": "suggest", "t": op["t"], "name": op["name"], "dist": op["dist"]})
        elif k == "finish":
            study.tell(live.pop(op["t"]), 1.0 if op["st"] == "COMPLETE" else None, state=st_of[op["st"]])
            both({"op": "finish", "t": op["t"], "st": op["st"]})
        elif k == "add":
            ps = {n: d for n, d in op["params"]}
            study.add_trial(optuna.trial.create_trial(
                state=st_of[op["st"]], value=1.0 if op["st"] == "COMPLETE" else None,
                params={n: VALUE[n] for n in ps}, distributions={n: _dist(n, d) for n, d in ps.items()}))
            both({"op": "add", "st": op["st"], "params": sorted([n, d] for n, d in ps.items()),
                  "num": study.get_trials(deepcopy=False)[-1].number})
        elif k == "calc":
            for ip in (0, 1):
                a = inc[ip].calculate(study)
                g = grp[ip].calculate(study)
                f = intersection_search_space(study.get_trials(deepcopy=False), include_pruned=bool(ip))
                events[ip].append({"op": "calc", "inc": _tokens(a), "fun": _tokens(f),
                                   "groups": [sorted(s.keys()) for s in g.search_spaces],
                                   "cur": int(inc[ip]._cached_trial_number)})
        else:
            raise tlc.MachineryError(f"unknown op {op}")
    return events


# ---------------------------------------------------------------------------------------------
# abstract histories
# ---------------------------------------------------------------------------------------------

def walk_to_history(beh, rng) -> list:
    """A TLC random walk of SearchSpaceMC/SimSpec -> ops, with Calculate inserted at seeded random points."""
    hist = []
    p = rng.choice([0.15, 0.3, 0.5])
    for s in beh:
        if s.action == "Init":
            pass
        elif s.action == "Create":
            hist.append({"op": "create", "st": s.args[0]})
        elif s.action == "Claim":
            hist.append({"op": "claim", "t": s.args[0]})
        elif s.action == "Suggest":
            hist.append({"op": "suggest", "t": s.args[0], "name": s.args[1], "dist": s.args[2]})
        elif s.action == "Finish":
            hist.append({"op": "finish", "t": s.args[0], "st": s.args[1]})
        else:
            raise tlc.MachineryError(f"unexpected action {s.action} in a SimSpec walk")
        if rng.random() < p:
            hist.append({"op": "calc"})
    hist.append({"op": "calc"})
    return hist


def gen_history(rng) -> list:
    """Seeded generator: up to 6 trials, names a/b/c(/k), up to 3 dists, finishing out of creation order,
    enqueued trials claimed late, add_trial of finished trials, Calculate anywhere.  Bookkeeping only (which
    ops are legal next); no expected answers are computed here."""
    max_trials = rng.randint(2, 6)
    names = rng.sample(["a", "b", "c"], rng.randint(1, 3)) + (["k"] if rng.random() < 0.3 else [])
    ndist = rng.randint(1, 3)
    toks = {n: (["d1"] if n == "k" else rng.sample(["d1", "d2", "d3"], ndist)) for n in names}
    p_usual = rng.choice([0.5, 0.8, 1.0])       # a name mostly keeps its usual distribution
    p_calc = rng.choice([0.1, 0.25, 0.4])
    w_state = rng.choice([(6, 2, 2), (3, 4, 2), (4, 1, 4)])
    trials = []  # [state, set(names)]
    hist = []

    def pick_dist(n):
        return toks[n][0] if rng.random() < p_usual else rng.choice(toks[n])

    for _ in range(rng.randint(8, 45)):
        if rng.random() < p_calc:
            hist.append({"op": "calc"})
            continue
        running = [i for i, t in enumerate(trials) if t[0] == "RUNNING"]
        waiting = [i for i, t in enumerate(trials) if t[0] == "WAITING"]
        can_sugg = [i for i in running if len(trials[i][1]) < len(names)]
        ops = []
        if len(trials) < max_trials:
            ops += [("run", 3), ("enq", 2), ("add", 1)]
        if waiting:
            ops.append(("claim", 2))
        if can_sugg:
            ops.append(("suggest", 6))
        if running:
            ops.append(("finish", 3))
        if not ops:
            break
        kind = rng.choices([o for o, _ in ops], [w for _, w in ops])[0]
        if kind == "run":
            trials.append(["RUNNING", set()])
            hist.append({"op": "create", "st": "RUNNING"})
        elif kind == "enq":
            trials.append(["WAITING", set()])
            hist.append({"op": "create", "st": "WAITING", "fixed": [n for n in names if rng.random() < 0.3]})
        elif kind == "add":
            ns = [n for n in names if rng.random() < 0.6]
            st = rng.choices(FINISHED, w_state)[0]
            trials.append([st, set(ns)])
            hist.append({"op": "add", "st": st, "params": [[n, pick_dist(n)] for n in ns]})
        elif kind == "claim":
            trials[min(waiting)][0] = "RUNNING"
            hist.append({"op": "claim", "t": min(waiting)})
        elif kind == "suggest":
            i = rng.choice(can_sugg)
            n = rng.choice([n for n in names if n not in trials[i][1]])
            trials[i][1].add(n)
            hist.append({"op": "suggest", "t": i, "name": n, "dist": pick_dist(n)})
        else:
            i = rng.choice(running)
            trials[i][0] = rng.choices(FINISHED, w_state)[0]
            hist.append({"op": "finish", "t": i, "st": trials[i][0]})
    hist.append({"op": "calc"})
    return hist


def _short(history) -> str:
    out = []
    for o in history:
        k = o["op"]
        out.append({"create": lambda: f"create({o['st']})", "claim": lambda: f"claim({o['t']})",
                    "suggest": lambda: f"suggest({o['t']},{o['name']}:{o['dist']})",
                    "finish": lambda: f"finish({o['t']},{o['st']})",
                    "add": lambda: "add(%s,{%s})" % (o["st"], ",".join(f"{n}:{d}" for n, d in o["params"])),
                    "calc": lambda: "CALC"}[k]())
    return " ".join(out)


# ---------------------------------------------------------------------------------------------
# judging
# ---------------------------------------------------------------------------------------------

def judge(ctx, histories, label, strict_every=4):
    """Execute, validate.  Every `strict_every`-th history is validated a second time as a `strict` trace
    (must also equal the Scan/Split model: cursor value, group order); a strict trace that is rejected while
    its plain twin is accepted is DRIFT of the algorithm model (informational), never a violation."""
    traces, index, twins = [], {}, {}
    for i, h in enumerate(histories):
        evs = execute(h)
        for ip in (0, 1):
            tid = len(traces) + 1
            traces.append({"tid": tid, "ip": ip, "strict": 0, "ev": evs[ip]})
            index[tid] = (h, ip)
            calcs = [e for e in evs[ip] if e["op"] == "calc"]
            ctx.count_case({"h": h, "ip": ip}, nontrivial=any(e["inc"] or len(e["groups"]) > 1 for e in calcs))
            if strict_every and i % strict_every == 0:
                traces.append({"tid": tid + 1, "ip": ip, "strict": 1, "ev": evs[ip]})
                twins[tid + 1] = tid
    v = tlc.validate("SearchSpaceTrace", "SearchSpaceTrace", traces, shards=16)
    # the strict twins are not conformance traces: take them out of the verdict and the counts
    drift = {t: r for t, r in v.rejected.items() if t in twins}
    v.rejected = {t: r for t, r in v.rejected.items() if t not in twins}
    agree = len([t for t in v.accepted if t in twins])
    v.accepted = {t for t in v.accepted if t not in twins}
    v.total -= len(twins)
    ctx.validated(v, label)
    for tid in sorted(v.rejected, key=lambda t: (len(traces[t - 1]["ev"]), t))[:5]:
        h, ip = index[tid]
        at = v.rejected[tid]["reached"]
        ev = traces[tid - 1]["ev"]
        bad = ev[at - 1] if 1 <= at <= len(ev) else None
        ctx.violation(f"include_pruned={bool(ip)}: event {at} {bad} is not admitted by SearchSpace.tla after the "
                      f"history [{_short(h)}]", {"history": h, "ip": ip, "events": ev, "spec": "SearchSpaceTrace"})
    if twins:
        only_model = [t for t in drift if twins[t] in v.accepted]
        ctx.notes.setdefault("algorithm_model_agreement", []).append(
            {"label": label, "strict_traces": len(twins), "agree": agree, "drift": len(only_model)})
        for tid in sorted(only_model)[:5]:
            h, ip = index[twins[tid]]
            ctx.drift.append({"what": "real cursor / group order differs from the Scan/Split model (informational)",
                              "ip": ip, "at": drift[tid]["reached"], "history": _short(h)})
        print(f"[{ctx.pid}] algorithm-model agreement {label}: {agree}/{len(twins)} strict traces (cursor value and "
              f"group order equal the model's)", flush=True)
        if only_model:
            print(f"DRIFT: property={ctx.pid} {len(only_model)} strict traces: the code's cursor value / group order "
                  f"differs from the Scan/Split model while every property holds (informational)", flush=True)
    return v, [t for t in traces if not t["strict"]]


def run(ctx):
    ctx.rule = ("a case = one history (ask/enqueue/claim/suggest/tell in any order, add_trial, Calculate at "
                "arbitrary points) x include_pruned, executed on a real study with long-lived calculators; "
                "histories = TLC random walks of SearchSpaceMC/SimSpec (<=6 trials, 3 names, 3 dists) + seeded "
                "generator; every Calculate answer is judged by TLC against SearchSpace.tla; distinct = distinct "
                "(history, include_pruned) with a non-empty intersection or >= 2 groups at some Calculate")
    # E1 (runs in a second thread, concurrently with E2/E3): the transcribed cursor algorithm / group splitting
    # refine the property level in every history of the bounded instance; and negative spec tests: a wrong
    # cursor comparison, WAITING not treated as unfinished, groups not split must each violate their property.
    cfg = "SearchSpaceMC_q" if ctx.quick else "SearchSpaceMC_t"

    def model_part():
        r = tlc.require_model("SearchSpaceMC", cfg, must_cover=MC_ACTIONS, timeout=3600)
        neg = {}
        for variant, prop in (("ge", "IncrementalEqualsScratch"), ("waiting", "IncrementalEqualsScratch"),
                              ("nosplit", "GroupsArePartition")):
            b = tlc.expect_violation("SearchSpaceMC", f"SearchSpaceMC_bad_{variant}", prop)
            neg[variant] = {"violates": b.violated, "wall_s": round(b.wall_s, 1)}
        return r, neg

    tlc.scratch()  # create the scratch root before a second thread may ask for it
    pool = cf.ThreadPoolExecutor(max_workers=1)
    model_future = pool.submit(model_part)

    try:
        # E2: histories
        n_walks, n_gen = (400, 1000) if ctx.quick else (2000, 10000)
        walks = tlc.simulate("SearchSpaceMC", "SearchSpaceSim", num=n_walks, depth=45, seed=ctx.seed + 1, timeout=900)
        histories = [walk_to_history(b, ctx.rng) for b in walks]
        histories += [gen_history(ctx.rng) for _ in range(n_gen)]
        ctx.notes["histories"] = {"tlc_walks": len(walks), "generated": n_gen}

        # E3
        v, traces = judge(ctx, histories, "histories")
        for t in traces[:: max(1, len(traces) // 4)][:4]:
            ctx.sample({"ip": t["ip"], "ev": t["ev"][:14]})
    finally:
        cf.wait([model_future])  # never leave a TLC run behind, whatever happened above
        pool.shutdown()

    r, neg = model_future.result()
    ctx.model(r, cfg)
    ctx.exhaustive = False
    ctx.notes["exhaustive_part"] = (f"{cfg}: every history of the bounded instance at model level (refinement of the "
                                    "property level by the transcribed algorithms); conformance histories are sampled")
    ctx.notes["model_level_negative_tests"] = neg
    print(f"[{ctx.pid}] wrong variants rejected by the model: {neg}", flush=True)

    # binding self-tests: a wrong intersection and merged groups must be rejected
    def has_inc(t):
        return any(e["op"] == "calc" and e["inc"] for e in t["ev"])

    def has_groups(t):
        return any(e["op"] == "calc" and len(e["groups"]) > 1 for e in t["ev"])

    def drop_pair(t):
        e = [e for e in t["ev"] if e["op"] == "calc" and e["inc"]][-1]
        e["inc"] = e["inc"][1:]

    def merge_groups(t):
        e = [e for e in t["ev"] if e["op"] == "calc" and len(e["groups"]) > 1][-1]
        e["groups"] = [sorted(sum(e["groups"], []))]
    for pred, corrupt, label in ((has_inc, drop_pair, "inc minus one pair"), (has_groups, merge_groups, "groups merged")):
        if v.rejected:
            break  # a verdict exists already; the self-tests only guard against a vacuous pass
        acc = next((t for t in traces if pred(t)), None)
        if acc is None:
            raise tlc.MachineryError(f"no accepted trace to run the binding self-test '{label}' on")
        ctx.binding_selftest("SearchSpaceTrace", "SearchSpaceTrace", acc, corrupt, label)
    ctx.assumptions += [
        "eligible trials = COMPLETE, and PRUNED iff include_pruned (documented behaviour of both calculators); the "
        "group properties are stated over those trials, FAIL trials are ignored by design",
        "a RUNNING trial created while a WAITING one exists (ask() losing the race against a concurrent "
        "enqueue_trial) is produced with the second half of Study.ask: storage.create_new_trial + Trial(study, id); "
        "every other step uses the public API (ask, enqueue_trial, suggest_*, tell, add_trial)",
        "distribution tokens are ranges/steps of one kind per name (optuna refuses a different kind or log for a "
        "name within a study); in-memory storage, one calculator object per include_pruned for the whole history",
        "the empty search space is what every function returns while no trial is eligible; 'established' = the "
        "previous Calculate saw at least one eligible trial",
    ]


def replay(ctx, data):
    evs = execute(data["history"])
    ip = int(data["ip"])
    trace = {"tid": 1, "ip": ip, "strict": 0, "ev": evs[ip]}
    v = tlc.validate("SearchSpaceTrace", "SearchSpaceTrace", [trace])
    ctx.validated(v, "replay")
    if v.rejected:
        at = v.rejected[1]["reached"]
        bad = trace["ev"][at - 1] if 1 <= at <= len(trace["ev"]) else None
        ctx.violation(f"include_pruned={bool(ip)}: event {at} {bad} is not admitted by SearchSpace.tla after the "
                      f"history [{_short(data['history'])}]",
                      {"history": data["history"], "ip": ip, "events": trace["ev"], "spec": "SearchSpaceTrace"})
