"""Direction B for the journal file: TLC behaviours of JournalFile(MC) stepped through the REAL code.

For every step of a behaviour the worker named by the action is released for exactly the shim calls that action
stands for; the kind of the call the real code is about to make must be the kind the specification says
(control-flow conformance), and after the step the lock file, the file's piece sequence and — at the end of a
read — the returned records and cached offsets are compared with the specification state.  A disagreement is
DRIFT (the algorithm-level model no longer describes the code); the recorded execution is still judged by the
property-level trace specification afterwards.
"""
from __future__ import annotations

from . import common
from . import jfile_shim as sh

# spec action -> the shim calls it may consist of, in order; '*' = repeat while pending
KINDS = {
    "AStart": [("call",)],
    "TryLock": [("symlink", "open_excl")],
    "StatLock": [("stat_lock",)],
    "Sleep": [("sleep",)],
    "TakeoverRename": [("rename",), ("unlink", None)],
    "DropTail": [("open_rbp",), ("seek_end",), ("read_tail", "*"), ("truncate", None)],
    "WritePiece": [("open_ab", None), ("write",)],
    "ReleaseRename": [("fsync", None), ("rename",), ("unlink", None)],
    "OpenRead": [("call",), ("open_rb",), ("stat_size",)],
    "ReadLine": [("readline",)],
}


class Drift(Exception):
    pass


def fget(f, key):
    """TLC prints a function with domain 1..n as a sequence"""
    return f[key - 1] if isinstance(f, list) else f[key]


def replay(behaviour, consts, lock_kind="symlink", tid=0):
    """behaviour: list of tlc.Step; consts: dict with Writers, Readers, NAppends, NChunks, NReads."""
    common.use_repo()
    world = sh.World()
    restore = sh.install(world)
    nchunks = consts["NChunks"]
    drift = None
    steps_done = 0
    try:
        for w in consts["Writers"]:
            prog = [("append", [sh.record(w * 100 + k, 2 * k)]) for k in range(consts["NAppends"], 0, -1)]
            wk = world.add_worker(w, prog, lock_kind=lock_kind)
            wk.chunker = lambda n, c=nchunks: [n * i // c for i in range(1, c)]
        for r in consts["Readers"]:
            world.add_worker(r, [("read",)] * consts["NReads"], lock_kind=lock_kind)
        world.start()
        # backend construction (exists / create-if-missing) happens before the behaviour starts
        for w in world.workers.values():
            while w.pending is not None and w.pending[0] in ("init", "exists", "open_ab"):
                world.grant(w)
        try:
            for step in behaviour[1:]:
                act, args = step.action, step.args
                w = world.workers[args[0]] if args else None
                if act == "Crash":
                    world.kill(w)
                elif act in ("ReturnLogs", "RaiseDecode"):
                    pass
                else:
                    if act == "StatLock" and fget(step.state["pc"], args[0]) == "tk_rename":
                        world.fs.clock[w.wid] = world.fs.clock.get(w.wid, 1000.0) + w.grace + 1   # its grace period has run out
                        world.events.append({"e": "tick", "w": w.wid})
                    _do(world, w, act)
                _compare(world, step, consts)
                steps_done += 1
        except Drift as d:
            drift = {"step": steps_done + 1, "action": f"{behaviour[steps_done + 1].action}{behaviour[steps_done + 1].args}",
                     "why": str(d)}
        # let everything still alive run to completion (round robin) so the trace is complete for validation
        guard = 0
        while world.runnable() and guard < 3000:
            for w in list(world.runnable()):
                world.grant(w)
                guard += 1
        world.shutdown()
        return {"tid": tid, "workers": sorted(world.workers), "ev": list(world.events), "lock": lock_kind,
                "drift": drift, "spec_steps": len(behaviour) - 1, "matched_steps": steps_done}
    finally:
        restore()


def _in_call(world, w):
    """has this worker already begun an append/read call? (init-time open_ab must not be confused with append's)"""
    for e in reversed(world.events):
        if e.get("w") == w.wid and e["e"] in ("astart", "rstart"):
            return True
    return False


def _do(world, w, act):
    for spec in KINDS[act]:
        kinds, mode = (spec[:-1], spec[-1]) if spec[-1] in (None, "*") else (spec, "1")
        if w.finished or w.pending is None:
            if mode in (None, "*"):
                continue
            raise Drift(f"{act}: worker {w.wid} has no pending call, expected {kinds}")
        k = w.pending[0]
        if mode == "1":
            if k not in kinds:
                raise Drift(f"{act}: worker {w.wid} is about to call {k}, the specification expects {kinds}")
            world.grant(w)
        elif mode is None:
            if k in kinds:
                world.grant(w)
        else:
            while w.pending is not None and w.pending[0] in kinds:
                world.grant(w)


def _file_pieces(world):
    """the file as a sequence of (rid, chunk-index) derived from the recorded write/truncate events"""
    out = []
    for e in world.events:
        if e["e"] == "write":
            for p in e["pieces"]:
                out.append([p["r"], p["a"], p["b"], p["n"]])
        elif e["e"] == "truncate":
            size, acc, keep = e["size"], 0, []
            for p in out:
                ln = p[2] - p[1]
                if acc + ln <= size:
                    keep.append(p)
                    acc += ln
                else:
                    break
            out = keep
    return out


def _compare(world, step, consts):
    st = step.state
    lock_exists = any(p.endswith(".lock") for p in world.fs.locks)
    if lock_exists != (st["lockGen"] != 0):
        raise Drift(f"lock file exists={lock_exists}, specification lockGen={st['lockGen']}")
    real = [p[0] for p in _file_pieces(world)]
    spec = [(p["r"] // 10) * 100 + p["r"] % 10 for p in st["file"]]
    if real != spec:
        raise Drift(f"file pieces {real} differ from the specification's {spec}")
    if step.action in ("ReturnLogs", "RaiseDecode"):
        w = step.args[0]
        ends = [e for e in world.events if e.get("w") == w and e["e"] == "rend"]
        if not ends:
            raise Drift(f"{step.action}: read call of worker {w} has not returned")
        last = ends[-1]
        if step.action == "RaiseDecode":
            if last["err"] == "none":
                raise Drift("specification raises a decode error, the code returned")
        else:
            want = [(r // 10) * 100 + r % 10 for r in fget(st["rd"], w)["out"]]
            if last["err"] != "none" or last["out"] != want:
                raise Drift(f"read returned {last['out']} err={last['err']}, specification {want}")
            keys = sorted(k for k, _ in last["cache"])
            offs = fget(st["offs"], w)
            skeys = sorted(offs.keys()) if isinstance(offs, dict) else list(range(len(offs)))
            if keys != skeys:
                raise Drift(f"cached record numbers {keys} differ from the specification's {skeys}")
