"""C11 — distributions and parameter values round-trip through every encoding.

Spec: specs/Domain.tla (exact decimal-lattice semantics of the domains), DomainMC (theorems about the
oracle + |Inputs|), DomainTrace (conformance).  This module only enumerates the lattice, calls the real
optuna code and writes down what it returned as exact tokens (scaled integers obtained with
fractions.Fraction, distances counted in doubles); every answer is judged by TLC.

The projection functions (`dtok`, `obs`) are shared with harness/c10.py.
"""
from __future__ import annotations

import itertools
import json
import math
import struct
import zlib
from fractions import Fraction

from . import common, tlc

OFF = 1999999999          # "not a lattice number": no spec operator admits it
CAP = 1000000000          # distances are capped (TLC integers are 32 bit)
PAIR_FLAGS = list(itertools.product([1, 0], repeat=3))         # (transform_log, transform_step, transform_0_1)
BOX_FLAGS = PAIR_FLAGS


# ----------------------------------------------------------------------------------------------
# projection: real values -> exact tokens
# ----------------------------------------------------------------------------------------------
def ford(x: float) -> int:
    """Position of a double in the total order of doubles (adjacent doubles differ by 1)."""
    b = struct.unpack("<q", struct.pack("<d", float(x)))[0]
    return b if b >= 0 else -(b & 0x7FFFFFFFFFFFFFFF)


def ulps(a: float, b: float) -> int:
    return min(CAP, abs(ford(a) - ford(b)))


def _unit(k: int) -> Fraction:
    return Fraction(1, 10 ** k) if k >= 0 else Fraction(10 ** (-k))


def lat_float(n: int, k: int) -> float:
    """The double a user gets by writing the lattice number n * 10^-k as a literal."""
    return float(n * _unit(k))


def num_token(x, k: int) -> int:
    """Exact lattice coordinate of a real number (int or float) in units of 10^-k, or OFF."""
    if x is None:
        return 0
    if isinstance(x, bool) or not isinstance(x, (int, float)):
        return OFF
    if isinstance(x, float) and not math.isfinite(x):
        return OFF
    q = Fraction(x) / _unit(k)
    n = round(q)
    if abs(n) >= OFF:
        return OFF
    if isinstance(x, int):
        return n if q == n else OFF
    return n if lat_float(n, k) == x else OFF


_STR_IDS = {}


def choice_token(c) -> dict:
    if c is None:
        return {"t": "none", "v": 0}
    if isinstance(c, bool):
        return {"t": "bool", "v": 10 * int(c)}
    if isinstance(c, int):
        return {"t": "int", "v": num_token(c, 1)}
    if isinstance(c, float):
        if math.isnan(c):
            return {"t": "nan", "v": 0}
        return {"t": "float", "v": num_token(c, 1)}
    if isinstance(c, str):
        return {"t": "str", "v": zlib.crc32(c.encode()) % 1000000}
    return {"t": "other", "v": 0}


def dtok(d, k: int) -> dict:
    """Token of a real distribution object (all attributes read from the object)."""
    name = type(d).__name__
    cls = name[: -len("Distribution")] if name.endswith("Distribution") else name
    if cls == "Categorical":
        return {"cls": "Cat", "lo": 0, "hi": 0, "step": 0, "log": 0, "ch": [choice_token(c) for c in d.choices]}
    step = getattr(d, "step", None)
    return {"cls": cls, "lo": num_token(d.low, k), "hi": num_token(d.high, k),
            "step": 0 if step is None else num_token(step, k), "log": int(bool(d.log)), "ch": []}


ERR_D = {"cls": "Error", "lo": 0, "hi": 0, "step": 0, "log": 0, "ch": []}


def _blank(ty: str) -> dict:
    return {"ty": ty, "fl": 0, "ce": 0, "near": 0, "dev": 0, "bl": 0, "ab": 0, "ix": 0}


def strict_index(choices, v) -> int:
    """1-based position of v among the choices, same type and equal (nan matches nan); 0 if none."""
    for i, c in enumerate(choices):
        if c is v:
            return i + 1
    for i, c in enumerate(choices):
        if type(c) is type(v) and (c == v or (isinstance(c, float) and math.isnan(c) and math.isnan(v))):
            return i + 1
    return 0


def obs(v, d, k: int) -> dict:
    """Observation record of a real value v with respect to the real distribution d (units 10^-k)."""
    if type(d).__name__ == "CategoricalDistribution":
        o = _blank("cat")
        o["ix"] = strict_index(d.choices, v)
        return o
    if isinstance(v, bool):
        return _blank("bool")
    if isinstance(v, int):
        o = _blank("int")
        q = Fraction(v) / _unit(k)
        fl, ce = math.floor(q), math.ceil(q)
    elif isinstance(v, float):
        if not math.isfinite(v):
            return _blank("nonfinite")
        o = _blank("float")
        q = Fraction(v) / _unit(k)
        n0 = math.floor(q)
        fl = max(n for n in (n0 - 1, n0, n0 + 1) if lat_float(n, k) <= v)
        ce = min(n for n in (n0 - 1, n0, n0 + 1, n0 + 2) if lat_float(n, k) >= v)
    else:
        return _blank("other:" + type(v).__name__)
    if abs(fl) >= OFF or abs(ce) >= OFF:
        return _blank("huge")
    o["fl"], o["ce"] = fl, ce
    if fl == ce:
        o["near"] = fl
    else:
        near = fl if q - fl <= ce - q else ce
        step = getattr(d, "step", None)
        su = Fraction(step) / _unit(k) if step else Fraction(1)
        o["near"] = near
        o["dev"] = min(CAP, max(1, math.ceil(abs(q - near) / su * 10 ** 9)))
    lo, hi = float(d.low), float(d.high)
    if isinstance(v, float):
        o["bl"] = ulps(v, lo) if v < lo else 0
        o["ab"] = ulps(v, hi) if v > hi else 0
    return o


# ----------------------------------------------------------------------------------------------
# recipes: JSON-able descriptions of one case; make_event() executes one on the real code
# ----------------------------------------------------------------------------------------------
def _mods():
    common.use_repo()
    import numpy as np
    import optuna.distributions as od
    from optuna._transform import _SearchSpaceTransform
    return np, od, _SearchSpaceTransform


def build(od, spec):
    """spec = [class name, kwargs] -> real distribution object (exception propagates)."""
    name, kw = spec
    kw = dict(kw)
    if "choices" in kw:
        kw["choices"] = tuple(kw["choices"])
    return getattr(od, name)(**kw)


def _raw_token(spec, k):
    """Token of the constructor ARGUMENTS (before any adjustment by the constructor)."""
    name, kw = spec
    cls = name[: -len("Distribution")]
    if cls == "Categorical":
        return {"cls": "Cat", "lo": 0, "hi": 0, "step": 0, "log": 0, "ch": [choice_token(c) for c in kw["choices"]]}
    step = kw.get("step", kw.get("q"))
    if cls in ("Int", "IntUniform", "IntLogUniform") and step is None:
        step = 1
    log = {"LogUniform": 1, "IntLogUniform": 1}.get(cls, int(bool(kw.get("log", False))))
    return {"cls": cls, "lo": num_token(kw["low"], k), "hi": num_token(kw["high"], k),
            "step": 0 if step is None else num_token(step, k), "log": log, "ch": []}


def _json_rt(od, d):
    return od.json_to_distribution(od.distribution_to_json(d))


def _value(d, vs):
    """Recipe value -> real value: ["c", i] = i-th choice of d, otherwise the number itself."""
    if isinstance(vs, list):
        c = d.choices[vs[1]]
        # a float choice is passed as a fresh, equal object (a user's value is never the stored object; for
        # nan this is the case `_categorical_choice_equal` exists for)
        return c * 1.0 if isinstance(c, float) else c
    return vs


def _scale_ulps(d, a, b) -> int:
    sc = max(abs(float(d.low)), abs(float(d.high)))
    if a == b:
        return 0
    if sc == 0.0:
        return CAP
    return min(CAP, math.ceil(abs(Fraction(a) - Fraction(b)) / Fraction(math.ulp(sc))))


def make_event(r: dict) -> dict:
    """Execute recipe r on the real code; returns the event for DomainTrace (ints and strings only)."""
    np, od, SST = _mods()
    op = r["op"]
    k = r.get("k", 0)
    if op == "high":
        try:
            d = build(od, r["dist"])
            tok = dtok(d, k)
        except Exception:  # noqa
            tok = ERR_D
        return {"op": op, "raw": _raw_token(r["dist"], k), "d": tok}
    if op == "compat":
        d1, d2 = build(od, r["d1"]), build(od, r["d2"])

        def ans(a, b):
            try:
                od.check_distribution_compatibility(a, b)
                return 0
            except ValueError:
                return 1
            except Exception:  # noqa
                return -1
        try:
            ret2 = ans(_json_rt(od, d1), _json_rt(od, d2))
        except Exception:  # noqa
            ret2 = -1
        return {"op": op, "d1": dtok(d1, r["k1"]), "d2": dtok(d2, r["k2"]), "ret": ans(d1, d2), "ret2": ret2}
    if op in ("trans", "box"):
        ds = [build(od, s) for s in r["dists"]]
        space = {f"p{i}": d for i, d in enumerate(ds)}
        tl, ts, t01 = r["flags"]
        ev = {"op": op, "tl": tl, "ts": ts, "t01": t01, "items": []}
        try:
            tr = SST(space, bool(tl), bool(ts), bool(t01))
            if op == "trans":
                params = {f"p{i}": _value(d, v) for i, (d, v) in enumerate(zip(ds, r["values"]))}
                back = tr.untransform(tr.transform(params))
                for i, d in enumerate(ds):
                    v, b = params[f"p{i}"], back[f"p{i}"]
                    isf = isinstance(v, float) and isinstance(b, float) and hasattr(d, "low")
                    ev["items"].append({"d": dtok(d, r["ks"][i]), "o": obs(v, d, r["ks"][i]), "back": obs(b, d, r["ks"][i]),
                                        "ul": ulps(v, b) if isf else 0, "sul": _scale_ulps(d, v, b) if isf else 0})
            else:
                bounds = tr.bounds
                pt = np.array([bounds[j][0] + (bounds[j][1] - bounds[j][0]) * float(t) if t not in (0, 1)
                               else bounds[j][int(t)] for j, t in enumerate(r["point"])], dtype=float)
                got = tr.untransform(pt)
                for i, d in enumerate(ds):
                    ev["items"].append({"d": dtok(d, r["ks"][i]), "got": obs(got[f"p{i}"], d, r["ks"][i])})
        except Exception as e:  # noqa
            ev["items"] = [{"d": ERR_D, "o": _blank("error"), "back": _blank("error"), "got": _blank("error"),
                            "ul": 0, "sul": 0}]
            ev["exc"] = type(e).__name__
        return ev
    d = build(od, r["dist"])
    tok = dtok(d, k)
    if op == "rt":
        try:
            r1 = _json_rt(od, d)
            r2 = _json_rt(od, r1)
            t1, t2, eq1, eq2 = dtok(r1, k), dtok(r2, k), int(r1 == d), int(r2 == r1)
            # the caller owns what it parsed and may change it; a LATER round trip of the untouched original must still
            # give the original (parsed results are not shared)
            for obj in (r1, r2):
                for attr, val in (("high", getattr(obj, "low", None)), ("choices", tuple(getattr(obj, "choices", ())[:1])),
                                  ("step", None), ("log", not getattr(obj, "log", False))):
                    try:
                        if hasattr(obj, attr):
                            setattr(obj, attr, val)
                    except Exception:  # noqa
                        pass
            r3 = _json_rt(od, d)
            if not (r3 == d):
                t1, eq1 = dtok(r3, k), 0
            return {"op": op, "d": tok, "r1": t1, "r2": t2, "eq1": eq1, "eq2": eq2}
        except Exception:  # noqa
            return {"op": op, "d": tok, "r1": ERR_D, "r2": ERR_D, "eq1": 0, "eq2": 0}
    if op == "single":
        try:
            return {"op": op, "d": tok, "ret": int(bool(d.single()))}
        except Exception:  # noqa
            return {"op": op, "d": tok, "ret": -1}
    if op == "contains":
        if tok["cls"] == "Cat":          # the internal representation of a choice is its index
            iv = r["value"]
            o = _blank("cat")
            o["ix"] = int(iv) + 1
        else:
            v = r["value"]
            iv = float(v)                # to_internal_repr of the numeric kinds
            o = obs(v, d, k)
        try:
            ret = int(bool(d._contains(iv)))
        except Exception:  # noqa
            ret = -1
        try:
            ret2 = int(bool(_json_rt(od, d)._contains(iv)))
        except Exception:  # noqa
            ret2 = -1
        return {"op": op, "d": tok, "o": o, "ret": ret, "ret2": ret2}
    if op == "repr":
        v = _value(d, r["value"])
        o = obs(v, d, k)
        if isinstance(r["value"], list):
            o["ix"] = r["value"][1] + 1       # the choice that was passed in, by position
        try:
            back = obs(d.to_external_repr(d.to_internal_repr(v)), d, k)
        except Exception:  # noqa
            back = _blank("error")
        return {"op": op, "d": tok, "o": o, "back": back}
    raise tlc.MachineryError(f"unknown recipe {r}")


# ----------------------------------------------------------------------------------------------
# the lattice (mirrors DomainMC_q.cfg; its cardinality is compared with TLC's PickA count)
# ----------------------------------------------------------------------------------------------
B_RANGE = range(-2, 4)
F_MUL, F_STEPS, I_STEPS = 10, (3, 5, 10, 20, 70), (1, 2, 3, 7)
POOL = [None, True, 1, 1.0, 0.5, "a", float("nan")]


def lattice(k: int, max_ch: int):
    """Yield (spec, K) for every input of DomainMC whose float unit is 10^-(k+1); ints/categoricals only for k = 0."""
    K = k + 1
    f = lambda n: lat_float(n, K)   # noqa
    for lo, hi in itertools.product(B_RANGE, repeat=2):
        if lo > hi:
            continue
        L, H = f(F_MUL * lo), f(F_MUL * hi)
        yield ["FloatDistribution", {"low": L, "high": H}], K
        yield ["UniformDistribution", {"low": L, "high": H}], K
        for s in F_STEPS:
            yield ["FloatDistribution", {"low": L, "high": H, "step": f(s)}], K
            yield ["DiscreteUniformDistribution", {"low": L, "high": H, "q": f(s)}], K
        if lo > 0:
            yield ["FloatDistribution", {"low": L, "high": H, "log": True}], K
            yield ["LogUniformDistribution", {"low": L, "high": H}], K
    if k != 0:
        return
    for lo, hi in itertools.product(B_RANGE, repeat=2):
        if lo > hi:
            continue
        for s in I_STEPS:
            yield ["IntDistribution", {"low": lo, "high": hi, "step": s}], 0
            yield ["IntUniformDistribution", {"low": lo, "high": hi, "step": s}], 0
        if lo >= 1:
            yield ["IntDistribution", {"low": lo, "high": hi, "log": True}], 0
            yield ["IntLogUniformDistribution", {"low": lo, "high": hi}], 0
    for n in range(1, max_ch + 1):
        for ch in itertools.product(POOL, repeat=n):
            yield ["CategoricalDistribution", {"choices": list(ch)}], 1


# distributions outside the lattice instance: the shapes the statements name (log ranges near 1, wide log ranges,
# tiny ranges, steps that do not divide the range, larger grids).  (spec, K)
EXTRA = [
    (["FloatDistribution", {"low": 1.0, "high": 1.0, "log": True}], 1),
    (["FloatDistribution", {"low": 1.0, "high": 2.0, "log": True}], 1),
    (["FloatDistribution", {"low": 1e-3, "high": 1e3, "log": True}], 3),
    (["FloatDistribution", {"low": 0.01, "high": 0.03, "log": True}], 3),
    (["FloatDistribution", {"low": 0.5, "high": 1.5, "log": True}], 2),
    (["FloatDistribution", {"low": 1e-6, "high": 1.0, "log": True}], 6),
    (["LogUniformDistribution", {"low": 1e-3, "high": 1e3}], 3),
    (["FloatDistribution", {"low": -1e6, "high": 1e6}], 0),
    (["FloatDistribution", {"low": 1e-6, "high": 2e-6}], 7),
    (["FloatDistribution", {"low": -0.25, "high": 0.75}], 3),
    (["FloatDistribution", {"low": 0.0, "high": 100.0, "step": 7.0}], 1),
    (["FloatDistribution", {"low": -1.0, "high": 1.0, "step": 0.01}], 3),
    (["FloatDistribution", {"low": 0.1, "high": 0.7, "step": 0.1}], 2),
    (["FloatDistribution", {"low": 1000.0, "high": 1001.0, "step": 0.3}], 2),
    (["DiscreteUniformDistribution", {"low": 0.05, "high": 0.95, "q": 0.15}], 3),
    # the low end has MORE decimals than the step (grid points are low + i*step, not multiples of step)
    (["FloatDistribution", {"low": 0.25, "high": 2.25, "step": 0.5}], 2),
    (["FloatDistribution", {"low": 0.05, "high": 0.95, "step": 0.1}], 2),
    (["FloatDistribution", {"low": 0.125, "high": 1.125, "step": 0.25}], 3),
    (["DiscreteUniformDistribution", {"low": -0.375, "high": 0.625, "q": 0.5}], 3),
    # fine grids (1e5 - 2e5 points): a value a tenth of a step off the grid is NOT contained, however large (high-low)/step is
    (["FloatDistribution", {"low": 0.0, "high": 100.0, "step": 0.001}], 4),
    (["FloatDistribution", {"low": -50.0, "high": 50.0, "step": 0.0005}], 4),
    (["FloatDistribution", {"low": 10.0, "high": 2010.0, "step": 0.02}], 3),
    (["IntDistribution", {"low": 1, "high": 1, "log": True}], 0),
    (["IntDistribution", {"low": 1, "high": 2, "log": True}], 0),
    (["IntDistribution", {"low": 1, "high": 200, "log": True}], 0),
    (["IntDistribution", {"low": 2, "high": 1000, "log": True}], 0),
    (["IntLogUniformDistribution", {"low": 1, "high": 64}], 0),
    (["IntDistribution", {"low": 0, "high": 100, "step": 7}], 0),
    (["IntDistribution", {"low": -1000000, "high": 1000000, "step": 1}], 0),
    (["IntDistribution", {"low": -7, "high": 8, "step": 5}], 0),
    (["IntUniformDistribution", {"low": 10, "high": 20, "step": 3}], 0),
    (["CategoricalDistribution", {"choices": [None, False, 2, 0.5, "a", "b"]}], 1),
    (["CategoricalDistribution", {"choices": ["x"]}], 1),
    (["CategoricalDistribution", {"choices": [True, 1, 1.0]}], 1),     # == identifies them: documented (NOTE in to_internal_repr)
    (["CategoricalDistribution", {"choices": [float("nan"), 1.5, "nan"]}], 1),
]


def _spread(xs, n):
    xs = list(xs)
    if len(xs) <= n:
        return xs
    idx = sorted({round(i * (len(xs) - 1) / (n - 1)) for i in range(n)})
    return [xs[i] for i in idx]


def values_for(od, spec, K, rng, n_max=7):
    """(member values, near-miss values) of the distribution as real Python values on the lattice 10^-K."""
    d = build(od, spec)
    if spec[0] == "CategoricalDistribution":
        return [["c", i] for i in range(len(d.choices))], [-1, len(d.choices)]
    tok = dtok(d, K)
    lo, hi, st = tok["lo"], tok["hi"], tok["step"]
    if OFF in (lo, hi, st):
        return [], []
    is_int = tok["cls"].startswith("Int")
    mk = (lambda n: n) if is_int else (lambda n: lat_float(n, K))
    if st > 0:
        grid = _spread(range(lo, hi + 1, st), n_max)
        miss = {lo - st, hi + st, lo - 1, hi + 1}
        for g in grid[:3] + grid[-2:]:
            miss |= {g + 1, g - 1}
            if st % 2 == 0:
                miss.add(g + st // 2)
        miss = sorted(m for m in miss if not (lo <= m <= hi and (m - lo) % st == 0))
    else:
        grid = _spread(range(lo, hi + 1), n_max)
        miss = [lo - 1, hi + 1, lo - 10, hi + 10]
    return [mk(n) for n in grid], [mk(n) for n in miss]


def recipes_for(od, spec, K, rng, quick):
    """All single-distribution recipes for one lattice input."""
    out = [{"op": "high", "dist": spec, "k": K}, {"op": "rt", "dist": spec, "k": K}, {"op": "single", "dist": spec, "k": K}]
    # the deprecated classes are subclasses the transform treats by isinstance: two flag combinations in the quick tier
    modern = spec[0] in ("FloatDistribution", "IntDistribution", "CategoricalDistribution")
    with_flags = PAIR_FLAGS if (modern or not quick) else [(1, 1, 0), (0, 0, 1)]
    members, misses = values_for(od, spec, K, rng)
    d = build(od, spec)
    for v in members:
        if spec[0] != "CategoricalDistribution":
            out.append({"op": "contains", "dist": spec, "k": K, "value": v})
        else:
            out.append({"op": "contains", "dist": spec, "k": K, "value": v[1]})
        out.append({"op": "repr", "dist": spec, "k": K, "value": v})
    for v in misses:
        out.append({"op": "contains", "dist": spec, "k": K, "value": v})
    is_log_float = spec[0] in ("FloatDistribution", "LogUniformDistribution") and d.log
    tvals = list(members)
    if is_log_float and d.low < d.high:      # off-lattice interior points: only the ulp bounds apply
        tvals += [math.exp(rng.uniform(math.log(d.low), math.log(d.high))) for _ in range(3)]
        tvals = [min(max(v, d.low), d.high) for v in tvals]
    for fl in with_flags:
        for v in (tvals if not quick else _spread(tvals, 5)):
            out.append({"op": "trans", "dists": [spec], "ks": [K], "flags": list(fl), "values": [v]})
    tok = dtok(d, K)
    for fl in with_flags:
        if tok["cls"] == "Cat":          # one-hot block: corners of the unit cube (ties included) and interior points
            n = len(d.choices)
            pts = [[0] * n, [1] * n] + [[int(i == j) for i in range(n)] for j in range(n)]
            pts += [[rng.random() for _ in range(n)] for _ in range(1 if quick else 3)]
            for p in pts:
                out.append({"op": "box", "dists": [spec], "ks": [K], "flags": list(fl), "point": p})
            continue
        pts = [0, 1, 0.5] + [rng.random() for _ in range(1 if quick else 6)]
        if tok["step"] > 0 and tok["hi"] > tok["lo"] and OFF not in (tok["lo"], tok["hi"], tok["step"]):
            n = (tok["hi"] - tok["lo"]) // tok["step"] + 1       # cell boundaries: exact half steps
            pts += [Fraction(j, n) for j in sorted({1, n // 2, n - 1}) if 0 < j < n]
        for p in pts:
            out.append({"op": "box", "dists": [spec], "ks": [K], "flags": list(fl),
                        "point": [p if p in (0, 1) else float(p)]})
    return out


def compat_reps(k_float=1):
    f = lambda n: lat_float(n, k_float)   # noqa
    reps = []
    for hi in (1, 3):
        reps += [(["FloatDistribution", {"low": f(10), "high": f(10 * hi)}], k_float),
                 (["FloatDistribution", {"low": f(10), "high": f(10 * hi), "step": f(5)}], k_float),
                 (["FloatDistribution", {"low": f(10), "high": f(10 * hi), "log": True}], k_float),
                 (["UniformDistribution", {"low": f(10), "high": f(10 * hi)}], k_float),
                 (["LogUniformDistribution", {"low": f(10), "high": f(10 * hi)}], k_float),
                 (["DiscreteUniformDistribution", {"low": f(10), "high": f(10 * hi), "q": f(3)}], k_float),
                 (["IntDistribution", {"low": 1, "high": hi, "step": 1}], 0),
                 (["IntDistribution", {"low": 1, "high": hi, "step": 2}], 0),
                 (["IntDistribution", {"low": 1, "high": hi, "log": True}], 0),
                 (["IntUniformDistribution", {"low": 1, "high": hi, "step": 1}], 0),
                 (["IntLogUniformDistribution", {"low": 1, "high": hi}], 0)]
    for ch in ([None], [True], [1], [1.0], [0.5], ["a"], [float("nan")], [True, "a"], [1, "a"], ["a", 1], [None, 0.5],
               [float("nan"), "a"], [1.0, "a"], ["a", "b"], [0.5, None]):
        reps.append((["CategoricalDistribution", {"choices": ch}], 1))
    return reps


def build_recipes(ctx):
    np, od, SST = _mods()
    rng = ctx.rng
    recipes = []
    counts = {}
    pool = []
    ks = (0, 1, 2)
    for k in ks:
        n = 0
        for spec, K in lattice(k, 2 if ctx.quick else 3):
            n += 1
            pool.append((spec, K))
            recipes += recipes_for(od, spec, K, rng, ctx.quick)
        counts[k] = n
    # per-k instance = the float part of that k + the (k-independent) int and categorical part
    rest = counts[0] - counts[1]
    inst = {f"k{k}": counts[k] + (rest if k else 0) for k in ks}
    for spec, K in EXTRA:
        pool.append((spec, K))
        recipes += recipes_for(od, spec, K, rng, False)
    # compatibility: every ordered pair of representatives + seeded pairs of arbitrary lattice inputs
    reps = compat_reps()
    for (s1, k1), (s2, k2) in itertools.product(reps, repeat=2):
        recipes.append({"op": "compat", "d1": s1, "d2": s2, "k1": k1, "k2": k2})
    for _ in range(400 if ctx.quick else 4000):
        (s1, k1), (s2, k2) = rng.choice(pool), rng.choice(pool)
        recipes.append({"op": "compat", "d1": s1, "d2": s2, "k1": k1, "k2": k2})
    # mixed search spaces (2-4 parameters, categorical one-hot blocks in between)
    for _ in range(300 if ctx.quick else 3000):
        n = rng.randint(2, 4)
        chosen = [rng.choice(pool) for _ in range(n)]
        specs, Ks = [c[0] for c in chosen], [c[1] for c in chosen]
        fl = list(rng.choice(PAIR_FLAGS))
        vals = []
        for s, K in chosen:
            mem, _ = values_for(od, s, K, rng)
            vals.append(rng.choice(mem))
        recipes.append({"op": "trans", "dists": specs, "ks": Ks, "flags": fl, "values": vals})
        fb = list(rng.choice(BOX_FLAGS))
        dim = sum(len(s[1]["choices"]) if s[0] == "CategoricalDistribution" else 1 for s in specs)
        recipes.append({"op": "box", "dists": specs, "ks": Ks, "flags": fb,
                        "point": [rng.choice([0, 1, 0.5, rng.random()]) for _ in range(dim)]})
    return recipes, inst


def _make_chunk(rs):
    return [make_event(r) for r in rs]


def make_events(recipes, workers=16):
    if len(recipes) < 2000:
        return _make_chunk(recipes)
    import concurrent.futures as cf
    import multiprocessing as mp
    n = max(500, len(recipes) // (workers * 4))
    chunks = [recipes[i:i + n] for i in range(0, len(recipes), n)]
    out = []
    with cf.ProcessPoolExecutor(max_workers=workers, mp_context=mp.get_context("fork")) as ex:
        for res in ex.map(_make_chunk, chunks):
            out += res
    return out


def judge(ctx, recipes, events, label):
    traces = [{"tid": i + 1, "ev": [e]} for i, e in enumerate(events)]
    v = tlc.validate("DomainTrace", "DomainTrace", traces, shards=16, timeout=1500)
    ctx.validated(v, label)
    for tid in sorted(v.rejected):
        r, e = recipes[tid - 1], events[tid - 1]
        ctx.violation(f"{e['op']}: the real code's answer is not admitted by Domain.tla for {json.dumps(r, default=str)}; "
                      f"recorded {json.dumps(e)}"[:1800], {"recipe": r, "event": e, "spec": "DomainTrace"})
        if len(ctx.violations) >= 10:
            break
    return v


def _nontrivial(r):
    return r["op"] not in ("high", "single")


def run(ctx):
    ctx.rule = ("inputs = every constructor-argument tuple of the DomainMC lattice (Float/Int/Categorical + the five "
                "deprecated classes) at three decimal scales + named extra shapes; per input: JSON round trip (twice), "
                "adjusted high, single(), _contains on grid values and near misses (before/after a round trip), "
                "external->internal->external, transform->untransform under all 8 flag combinations, points of the "
                "transformed box; compatibility on all pairs of representatives; mixed 2-4 parameter spaces; each real "
                "answer is one event judged by TLC against Domain.tla; distinct = distinct (recipe, answer) events "
                "other than high/single")
    r = tlc.require_model("DomainMC", "DomainMC_q" if ctx.quick else "DomainMC_t", must_cover=["PickA", "PickB", "PickC"],
                          timeout=1800)
    ctx.model(r, "DomainMC")
    spec_inputs = r.coverage["PickA"][0]
    recipes, inst = build_recipes(ctx)
    for name, n in inst.items():
        if n != spec_inputs:
            raise tlc.MachineryError(f"harness enumerated {n} lattice inputs for {name}, DomainMC has {spec_inputs}")
    ctx.exhaustive = True
    ctx.notes["exhaustive_instances"] = {kk: {"inputs": n, "equals_spec_cardinality": True} for kk, n in inst.items()}
    events = make_events(recipes)
    for rc, e in zip(recipes, events):
        ctx.count_case([rc, e], nontrivial=_nontrivial(rc))
    v = judge(ctx, recipes, events, "distributions/transform")
    per = {}
    for i, e in enumerate(events):
        a = per.setdefault(e["op"], [0, 0])
        a[0] += 1
        a[1] += (i + 1) in v.accepted
    ctx.notes["per_op"] = {kk: {"events": a, "accepted": b} for kk, (a, b) in per.items()}
    inexact = sum(1 for e in events if e["op"] == "trans" for it in e["items"]
                  if it["d"]["step"] > 0 and it["d"]["cls"] in ("Float", "DiscreteUniform") and it["back"]["dev"] > 0)
    ctx.notes["stepped_float_round_trips_not_bit_identical"] = inexact
    ctx.notes["D14_round_trips_of_high_one_double_below"] = sum(
        1 for e in events if e["op"] == "trans" and e["t01"] == 0 for it in e["items"]
        if it["d"]["cls"] in ("Float", "Uniform") and it["d"]["step"] == 0 and it["d"]["log"] == 0
        and it["o"]["fl"] == it["d"]["hi"] and it["ul"] == 1)
    seen = set()
    for rc, e in zip(recipes, events):
        if e["op"] not in seen and len(seen) < 5 and e["op"] in ("rt", "contains", "trans", "box", "compat"):
            seen.add(e["op"])
            ctx.sample({"recipe": rc, "event": e})
    if ctx.violations:
        return              # the verdict is out; self-tests need an accepted batch
    # binding self-tests: a wrong answer of each family must be rejected
    def first(op, pred=lambda e: True):
        return next(e for i, e in enumerate(events) if e["op"] == op and (i + 1) in v.accepted and pred(e))

    def flip_single(t):
        t["ev"][0]["ret"] = 1 - t["ev"][0]["ret"]

    def bump_high(t):
        t["ev"][0]["d"]["hi"] += t["ev"][0]["d"]["step"]

    def drop_step(t):
        t["ev"][0]["r1"]["step"] = 0

    def above(t):
        it = t["ev"][0]["items"][0]
        it["got"]["fl"] = it["got"]["ce"] = it["got"]["near"] = it["d"]["hi"] + 1
    ctx.binding_selftest("DomainTrace", "DomainTrace", {"tid": 1, "ev": [first("rt", lambda e: e["d"]["step"] > 1)]},
                         drop_step, "round trip drops step")
    ctx.binding_selftest("DomainTrace", "DomainTrace",
                         {"tid": 1, "ev": [first("box", lambda e: e["items"][0]["d"]["cls"] == "Float"
                                                 and e["items"][0]["d"]["log"] == 0)]}, above, "box point above high")
    if not ctx.quick:
        ctx.binding_selftest("DomainTrace", "DomainTrace", {"tid": 1, "ev": [first("single")]}, flip_single, "single flipped")
        ctx.binding_selftest("DomainTrace", "DomainTrace", {"tid": 1, "ev": [first("high", lambda e: e["d"]["step"] > 0)]},
                             bump_high, "high + step")
    ctx.assumptions += [
        "numbers are decimal-lattice values (|x| <= 1e6, at most 7 decimals) given as the nearest double; a value is "
        "'on the lattice' iff it is bit-identical to the double nearest to the lattice number",
        "stepped floats: a value counts as the grid point it is nearest to if it lies within 1e-8 step of it and inside "
        "[low, high] (the tolerance FloatDistribution._contains documents); bit-identity of stepped-float round trips is "
        "counted (stepped_float_round_trips_not_bit_identical) but not demanded",
        "log-scaled floats: only 'within 4 doubles' is decided (accuracy of log/exp is outside a TLA+ model)",
        "D14: the inverse transform maps exactly-high of a non-single continuous float to the double below high",
        "D15: with transform_0_1 continuous floats return within 4 doubles of the magnitude of the range",
        "deprecated classes round-trip through JSON to the same deprecated class (json_to_distribution looks the class "
        "up by name); conversion to the modern classes happens elsewhere (storages) and is not part of this check",
        "categorical choices that are == (True, 1, 1.0) are identified, as the NOTE in to_internal_repr documents",
    ]


def replay(ctx, data):
    rc = data["recipe"]
    e = make_event(rc)
    judge(ctx, [rc], [e], "replay")
