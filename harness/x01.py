"""X01 (extra, not one of the listed properties): the retry middleware of artifact stores, optuna/artifacts/_backoff.py.

Spec: specs/Backoff.tla (intended behaviour + the as-is variant of `remove`), BackoffTrace.  Every call kind x every
backend outcome script of length max_retries+1 is run on the real Backoff over a scripted backend with time.sleep recorded;
TLC validates the recorded calls against the as-is model (must accept everything: binding) and against the intended model
(rejections are printed as OBSERVATION lines: they are outside the listed properties, so never a VIOLATION).
"""
from __future__ import annotations

import io
import itertools

from . import common, tlc

MAXR = 3


def run_calls():
    common.use_repo()
    from optuna.artifacts import Backoff
    from optuna.artifacts import _backoff as B
    from optuna.artifacts.exceptions import ArtifactNotFound

    import logging

    logging.getLogger("optuna.artifacts._backoff").disabled = True      # every scripted failure is logged with a traceback
    out = []
    for op in ("open_reader", "write", "remove"):
        for script in itertools.product(["ok", "notfound", "error"], repeat=MAXR + 1):
            calls = [0]
            delays = []

            class Backend:
                def _do(self, *a):
                    calls[0] += 1
                    o = script[calls[0] - 1] if calls[0] <= len(script) else "error"
                    if o == "notfound":
                        raise ArtifactNotFound("scripted")
                    if o == "error":
                        raise OSError("scripted")
                    return io.BytesIO(b"x")
                open_reader = write = remove = _do

            class Time:
                @staticmethod
                def sleep(s):
                    delays.append(s)
            real_time = B.time
            B.time = Time
            try:
                bo = Backoff(Backend(), max_retries=MAXR, multiplier=2, min_delay=1, max_delay=1000)
                try:
                    if op == "write":
                        bo.write("a", io.BytesIO(b"x"))
                    else:
                        getattr(bo, op)("a")
                    result = "ok"
                except ArtifactNotFound:
                    result = "notfound"
                except OSError:
                    result = "error"
            finally:
                B.time = real_time
            idx = []
            for d in delays:          # delay = 2**i exactly (min_delay 1, multiplier 2): the schedule index is its log2
                i = int(d).bit_length() - 1
                idx.append(i if float(2 ** i) == float(d) else 99)
            out.append({"op": op, "script": list(script), "attempts": calls[0], "sleeps": idx, "result": result})
    return out


def run(ctx):
    ctx.rule = ("every call kind x every outcome script of length max_retries+1 on the real Backoff middleware over a scripted "
                "backend (sleep recorded); validated by TLC against the as-is and the intended model")
    r = tlc.require_model("Backoff", "Backoff_q", must_cover=["Attempt"])
    ctx.model(r, "Backoff_q (intended behaviour)")
    r = tlc.expect_violation("Backoff", "Backoff_n", "StopsAtFirstSuccess")
    ctx.model(r, "Backoff_n (remove as it is written today: expected to violate StopsAtFirstSuccess)")
    calls = run_calls()
    traces = [{"tid": i + 1, "ev": [c]} for i, c in enumerate(calls)]
    for t in traces:
        ctx.count_case(t["ev"], nontrivial=True)
    v = tlc.validate("BackoffTrace", "BackoffTrace_asis", traces)
    ctx.validated(v, "as-is model")
    for tid in sorted(v.rejected)[:5]:
        ctx.violation(f"Backoff: recorded call {calls[tid - 1]} is not a behaviour of the as-is model (model or harness out of date)",
                      {"call": calls[tid - 1]})
    v2 = tlc.validate("BackoffTrace", "BackoffTrace_intended", traces)
    ctx.validated(v2, "intended model")
    obs = [calls[tid - 1] for tid in sorted(v2.rejected)]
    ctx.notes["observations_outside_listed_properties"] = {
        "count": len(obs), "what": "Backoff.remove has no break after a successful attempt: it sleeps, calls the backend again and "
                                    "finally raises ArtifactNotFound (FileSystem store) although the artifact was removed",
        "examples": obs[:3]}
    if obs:
        print(f"OBSERVATION (outside the listed properties): {len(obs)} recorded calls differ from the intended Backoff model, "
              f"all of kind {sorted({o['op'] for o in obs})}; first: {obs[0]}", flush=True)
    if any(o["op"] != "remove" for o in obs):
        ctx.violation("Backoff: a call other than remove differs from the intended model", {"call": next(o for o in obs if o["op"] != "remove")})


def replay(ctx, data):
    run(ctx)
