"""C05 — acknowledged writes survive a crash and an interrupted write is all-or-nothing (journal file part,
SQLite part: see rdb_crash).

Specs: JournalLog, JournalFile (+Crash, grace-period takeover, DropTail), JournalFileMC, JournalFileTrace.
"""
from __future__ import annotations

from . import tlc
from . import jfile_check as jc

COVER = ["AStart", "TryLock", "StatLock", "Sleep", "TakeoverRename", "DropTail", "WritePiece", "ReleaseRename", "Crash",
         "OpenRead", "ReadLine", "ReturnLogs"]


def run(ctx):
    ctx.rule = ("a writer dies at any system call of append_logs (lock create, open, every write piece — cut at every "
                "byte offset of the record —, fsync, rename, unlink), then survivors take the stale lock over after the grace "
                "period, append and read, and a fresh reader opens the file: (B) TLC -simulate behaviours of JournalFileMC "
                "with Crash replayed step by step on the real code, (A) seeded random crash schedules, (C) one execution "
                "per byte offset (small records: every offset; records of 4-9 KiB: offsets around the block boundaries, also after "
                "complete records of the same writer); all validated by TLC against JournalFileTrace; distinct = distinct executions")
    r = tlc.require_model("JournalFileMC", "JournalFileMC_c05q", must_cover=COVER, timeout=3000)
    ctx.model(r, "JournalFileMC_c05q")
    if not ctx.quick:
        r = tlc.require_model("JournalFileMC", "JournalFileMC_c05t", must_cover=COVER, timeout=3000)
        ctx.model(r, "JournalFileMC_c05t")
    # the pre-repair design (no DropTail) must fail, and the recorded finding K4 must be reachable in the design
    r = tlc.expect_violation("JournalFileMC", "JournalFileMC_f5", "NoBadObservation", timeout=600)
    ctx.model(r, "JournalFileMC_f5 (pre-repair design, expected to violate NoBadObservation)")
    r = tlc.expect_violation("JournalFileMC", "JournalFileMC_k4", "K4Unreachable", timeout=600)
    ctx.model(r, "JournalFileMC_k4 (recorded finding K4 reachable: expected to violate K4Unreachable)")
    traces = jc.replay_family(ctx, "c05q", 100 if ctx.quick else 800)
    traces += jc.replay_family(ctx, "c05t", 150 if ctx.quick else 1500)
    n = 40 if ctx.quick else 500
    tasks = [(ctx.seed * 100 + 50 + i, n, True, shape) for i, shape in
             enumerate([(2, 1, 2, 2), (3, 1, 2, 2), (3, 1, 2, 2), (3, 2, 3, 2)] * (1 if ctx.quick else 3))]
    traces += jc.pool_map(jc._random_chunk, tasks)
    cuts = list(range(0, 70)) + ["fsync", "rename", "unlink", "symlink", "open_rbp", "open_ab"]
    # records larger than one 4 KiB block, torn anywhere (also after complete records of the same writer)
    big = [(c, pad, pre) for pad in (4200, 9000) for pre in (0, 1)
           for c in ([1, 60, 4000, 4095, 4096, 4097, 4100, pad - 1, pad, pad + 40] if ctx.quick else
                     list(range(1, pad + 60, 97)) + [4095, 4096, 4097, 8191, 8192, 8193])]
    cuts += [x for x in big if x[0] < x[1] + 60]
    traces += jc.pool_map(jc._cut_chunk, [(ctx.seed, cuts[i::8]) for i in range(8)])
    v = jc.judge(ctx, traces, "crash + takeover + survivors", allow_k4=True)
    from . import rdb_sched

    rdb_sched.run_crash_part(ctx)
    if not ctx.violations:
        rdb_sched.run_init_crash_part(ctx)
    for t in traces[:: max(1, len(traces) // 3)][:3]:
        ctx.sample({"lock": t["lock"], "events": t["ev"][:25]})
    if not ctx.violations:
        jc.selftest(ctx, traces, v)
    ctx.assumptions += [
        "process death = the worker never takes another step; the page cache survives (fsync is not the subject)",
        "the grace period is longer than any live critical section: the virtual clock passes it only for a dead owner's lock",
        "file-system semantics are those of the shim",
    ]


def replay(ctx, data):
    if data.get("replay", {}).get("family") in ("rdb-crash", "rdb-init-crash"):
        from . import rdb_sched

        return rdb_sched.replay(ctx, data)
    traces = jc.rerun(data)
    jc.judge(ctx, traces, "replay", allow_k4=True)
