"""C15 — hypervolume, non-domination rank and hypervolume subset selection are exact.

Spec: specs/Pareto.tla (oracle), ParetoMC (oracle theorems + |Inputs|), ParetoTrace (conformance).
The harness only enumerates lattice inputs, calls the real kernels and writes down their answers
as integers; every answer is judged by TLC.
"""
from __future__ import annotations

import itertools
import math

from . import common, tlc

NEG, POS, INF_VOL = -1000, 1000, -1
NANPEN = 9999


def _f(x):
    return -math.inf if x == NEG else math.inf if x == POS else float(x)


def _kernels():
    common.use_repo()
    import numpy as np
    from optuna._hypervolume import compute_hypervolume
    from optuna._hypervolume.hssp import _solve_hssp
    from optuna.study._multi_objective import _fast_non_domination_rank, _is_pareto_front

    def arr(pts):
        return np.array([[_f(c) for c in p] for p in pts], dtype=float)

    def hv(pts, ref, assume_pareto=False):
        try:
            v = compute_hypervolume(arr(pts), np.array([_f(c) for c in ref]), assume_pareto=assume_pareto)
        except Exception as e:  # noqa
            return -4, repr(e)
        v = float(v)
        if math.isnan(v):
            return -3, "nan"
        if math.isinf(v):
            return (INF_VOL, "inf") if v > 0 else (-5, "-inf")
        if v != int(v) or abs(v) > 10**6:
            return -2, repr(v)
        return int(v), repr(v)

    def rank(pts, pen, nb):
        try:
            p = None if not pen else np.array([math.nan if x == NANPEN else float(x) for x in pen])
            r = _fast_non_domination_rank(arr(pts), penalty=p, n_below=(nb or None))
            return [int(x) for x in r]
        except Exception as e:  # noqa
            return [-4]

    def front(pts):
        try:
            return [int(bool(x)) for x in _is_pareto_front(arr(pts), assume_unique_lexsorted=False)]
        except Exception:
            return [-4]

    def hssp(pts, ref, k):
        try:
            r = _solve_hssp(arr(pts), np.arange(len(pts)), k, np.array([_f(c) for c in ref]))
            return [int(x) + 1 for x in r]
        except Exception:
            return [-4]

    def hssp_plain(pts, ref, k):
        """two objectives, large integer coordinates: no +-inf sentinels (1000 is an ordinary coordinate here)"""
        try:
            r = _solve_hssp(np.array(pts, dtype=float), np.arange(len(pts)), k, np.array(ref, dtype=float))
            return [int(x) + 1 for x in r]
        except Exception:
            return [-4]
    hssp.plain = hssp_plain
    return hv, rank, front, hssp


def lattice_inputs(dim, maxn, maxc, with_inf):
    coord = list(range(maxc + 1)) + ([NEG] if with_inf else [])
    rcoord = list(range(maxc + 2)) + ([POS] if with_inf else [])
    pts_all = list(itertools.product(coord, repeat=dim))
    refs = list(itertools.product(rcoord, repeat=dim))
    for n in range(1, maxn + 1):
        for seq in itertools.product(pts_all, repeat=n):
            yield [list(p) for p in seq], [r for r in refs if all(all(p[i] <= r[i] for i in range(dim)) for p in seq)]


def _is_front(pts):
    def dom(p, q):
        return all(a <= b for a, b in zip(p, q)) and p != q
    return all(not dom(q, p) for p in pts for q in pts) and len({tuple(p) for p in pts}) == len(pts)


def build_events(ctx, hv, rank, front, hssp):
    events = []
    exhaustive_counts = {}

    def add(e):
        events.append(e)
        ctx.count_case(e, nontrivial=len(e["pts"]) > 1)

    insts = [("q2", 2, 2, 2, True), ("q3", 3, 2, 1, True)]
    if not ctx.quick:
        insts += [("t2", 2, 3, 2, True)]
    for name, dim, maxn, maxc, winf in insts:
        n_inputs = 0
        for pts, refs in lattice_inputs(dim, maxn, maxc, winf):
            # ref-independent kernels
            add({"op": "front", "pts": pts, "ret": front(pts)})
            for nb in range(0, len(pts) + 1):
                add({"op": "rank", "pts": pts, "pen": [], "nb": nb, "ret": rank(pts, [], nb)})
            if name in ("q2",) or (name == "t2" and len(pts) == 3 and ctx.rng.random() < 0.1):
                for pen in itertools.product([NANPEN, -1, 0, 1, 2], repeat=len(pts)):
                    for nb in ([0] if len(pts) < 2 else [0, 1]):
                        add({"op": "rank", "pts": pts, "pen": list(pen), "nb": nb, "ret": rank(pts, list(pen), nb)})
            for ref in refs:
                n_inputs += 1
                r, raw = hv(pts, ref)
                add({"op": "hv", "pts": pts, "ref": list(ref), "ret": r, "raw": raw})
                if _is_front(pts) and len(pts) > 1:
                    r, raw = hv(pts, ref, assume_pareto=True)
                    add({"op": "hv", "pts": pts, "ref": list(ref), "ret": r, "raw": raw, "ap": 1})
                if name != "q3" or ctx.rng.random() < 0.25 or not ctx.quick:
                    for k in range(1, len(pts) + 1):
                        add({"op": "hssp", "pts": pts, "ref": list(ref), "k": k, "ret": hssp(pts, ref, k)})
        exhaustive_counts[name] = n_inputs

    # seeded random cases beyond the exhaustive instances: 1-5 dimensions, up to 7 points, ties, infinities
    rng = ctx.rng
    n_rand = 1500 if ctx.quick else 20000
    for _ in range(n_rand):
        dim = rng.choice([1, 2, 2, 3, 3, 3, 4, 5])
        n = rng.randint(1, 7 if dim <= 3 else 5)
        maxc = rng.choice([1, 2, 3]) if dim >= 4 else rng.choice([2, 3, 4])
        inf_p = rng.choice([0.0, 0.0, 0.1])

        def c():
            return NEG if rng.random() < inf_p else rng.randint(0, maxc)
        mode = rng.random()
        pts = [[c() for _ in range(dim)] for _ in range(n)]
        if mode < 0.35:  # mutually non-dominated set (what the samplers pass to HSSP)
            pts = [p for i, p in enumerate(pts)
                   if not any((all(a <= b for a, b in zip(q, p)) and q != p) or (q == p and j < i)
                              for j, q in enumerate(pts))]
            n = len(pts)
        ref = []
        for i in range(dim):
            m = max(p[i] for p in pts)
            m = max(m, 0)
            ref.append(POS if rng.random() < inf_p else m + rng.choice([0, 1, 1]))
        r, raw = hv(pts, ref)
        add({"op": "hv", "pts": pts, "ref": ref, "ret": r, "raw": raw})
        if n > 1:
            k = rng.randint(1, n)
            add({"op": "hssp", "pts": pts, "ref": ref, "k": k, "ret": hssp(pts, ref, k)})
        pen = [] if rng.random() < 0.5 else [rng.choice([NANPEN, -1, 0, 0, 1, 2, 3]) for _ in range(n)]
        nb = rng.choice([0, 0, rng.randint(1, n)])
        add({"op": "rank", "pts": pts, "pen": pen, "nb": nb, "ret": rank(pts, pen, nb)})
        add({"op": "front", "pts": pts, "ret": front(pts)})
    # subset selection on arbitrary and mutually non-dominated sets in >= 3 dimensions (the greedy + lazy-update path):
    # this is the input shape the samplers produce, and where a wrong skip in the lazy bound shows.
    n_front = 14000 if ctx.quick else 120000
    made = 0
    while made < n_front:
        dim = rng.choice([3, 3, 3, 4])
        n = rng.randint(3, 6)
        cand = [[rng.randint(0, 4) for _ in range(dim)] for _ in range(n + 3)]
        if rng.random() < 0.3:
            pts = []
            for p in cand:
                if len(pts) < n and not any(all(a <= b for a, b in zip(q, p)) or all(a <= b for a, b in zip(p, q))
                                            for q in pts):
                    pts.append(p)
        else:  # arbitrary sets: dominated points and duplicates included
            pts = cand[:n]
        if len(pts) < 3:
            continue
        ref = [5] * dim
        for k in range(2, len(pts)):
            add({"op": "hssp", "pts": pts, "ref": ref, "k": k, "ret": hssp(pts, ref, k)})
            made += 1
    # two objectives, integer coordinates in the thousands: geometric "staircase" fronts with near-duplicate points around
    # some steps (the shape on which a greedy that over-estimates contributions wastes its picks), plus random 2-D fronts
    n_stair = 520 if ctx.quick else 6000
    made = 0
    while made < n_stair:
        S = rng.choice([2000, 4000])
        r = rng.choice([0.2, 0.2, 0.25, 0.3])
        nl = rng.randint(4, 6)
        d = rng.choice([0.01, 0.02, 0.05])
        dl = set(rng.choice([[0, 2, 4], [0, 2], [0], [1, 3], [2, 4]]))
        qs = rng.choice([(1,), (1, 2)])
        pts = []
        for t in range(nl):
            c = 1.0 if t % 2 == 0 else 0.9
            w, h = S * r ** t, c * S * r ** (nl - 1 - t)
            pts.append((round(S - w), round(S - h)))
            if t in dl:
                for q in qs:
                    pts.append((round(S - w * (1 + q * d)), round(S - h * (1 - q * d))))
                    pts.append((round(S - w * (1 - q * d)), round(S - h * (1 + q * d))))
        if rng.random() < 0.2:      # a few arbitrary (possibly dominated) extras
            pts += [(rng.randint(0, S), rng.randint(0, S)) for _ in range(rng.randint(1, 2))]
        pts = [list(p_) for p_ in dict.fromkeys(pts) if -500 <= p_[0] <= S and -500 <= p_[1] <= S]
        if not 4 <= len(pts) <= 13:
            continue
        rng.shuffle(pts)
        ref = [S, S]
        for k in range(3, min(len(pts), 7)):
            add({"op": "hssp2", "pts": pts, "ref": ref, "k": k, "ret": hssp.plain(pts, ref, k)})
            made += 1
    return events, exhaustive_counts


def judge(ctx, events, label="kernels"):
    traces = [{"tid": i + 1, "ev": [e]} for i, e in enumerate(events)]
    v = tlc.validate("ParetoTrace", "ParetoTrace", traces, shards=16, timeout=1500)
    ctx.validated(v, label)
    for tid in sorted(v.rejected):
        e = events[tid - 1]
        ctx.violation(f"{e['op']} answer {e.get('ret')} (raw {e.get('raw')}) is not admitted by Pareto.tla for "
                      f"pts={e['pts']} ref={e.get('ref')} k={e.get('k')} pen={e.get('pen')} nb={e.get('nb')}",
                      {"event": e, "spec": "ParetoTrace"})
        if len(ctx.violations) >= 10:
            break
    return v


def run(ctx):
    ctx.rule = ("inputs = every sequence of <=MaxN lattice points x every weakly dominated reference point of the "
                "ParetoMC instances (exhaustive) + seeded random sets in 1-5 dimensions; each real-kernel answer is "
                "one event judged by TLC against Pareto.tla; distinct = distinct (op, input, answer) events with "
                "at least two points")
    cfgs = ["ParetoMC_q2", "ParetoMC_q3"] + ([] if ctx.quick else ["ParetoMC_t2"])
    spec_inputs = {}
    for c in cfgs:
        r = tlc.require_model("ParetoMC", c, must_cover=["AddPoint", "SetRef"], timeout=1800)
        ctx.model(r, c)
        spec_inputs[c.split("_")[1]] = r.coverage["SetRef"][0]
    hv, rank, front, hssp = _kernels()
    events, counts = build_events(ctx, hv, rank, front, hssp)
    for k, n in counts.items():
        if spec_inputs.get(k) != n:
            raise tlc.MachineryError(f"harness enumerated {n} inputs for instance {k}, the spec has {spec_inputs.get(k)}")
    ctx.exhaustive = True
    ctx.notes["exhaustive_instances"] = {k: {"inputs": n, "equals_spec_cardinality": True} for k, n in counts.items()}
    v = judge(ctx, events)
    for e in events[:: max(1, len(events) // 5)][:5]:
        ctx.sample(e)
    # binding self-test: a wrong hypervolume must be rejected
    acc = next(e for i, e in enumerate(events) if e["op"] == "hv" and e["ret"] > 0 and (i + 1) in v.accepted)

    def corrupt(t):
        t["ev"][0]["ret"] += 1
    ctx.binding_selftest("ParetoTrace", "ParetoTrace", {"tid": 1, "ev": [acc]}, corrupt, "hv+1")
    ctx.assumptions += [
        "lattice coordinates are small integers, so every float operation of the kernels is exact and equality is exact",
        "D12: for degenerate 0*inf boxes both conventions (0 and inf) are admitted",
    ]


def replay(ctx, data):
    hv, rank, front, hssp = _kernels()
    e = dict(data["event"])
    if e["op"] == "hv":
        e["ret"], e["raw"] = hv(e["pts"], e["ref"], bool(e.get("ap")))
    elif e["op"] == "rank":
        e["ret"] = rank(e["pts"], e["pen"], e["nb"])
    elif e["op"] == "front":
        e["ret"] = front(e["pts"])
    elif e["op"] == "hssp2":
        e["ret"] = hssp.plain(e["pts"], e["ref"], e["k"])
    else:
        e["ret"] = hssp(e["pts"], e["ref"], e["k"])
    judge(ctx, [e], "replay")
