"""C08 — client-side trial caches never serve a view that differs from the backend.

Specs: CacheSync (algorithm level: watermark + unfinished-set caches, exhaustively checked; the pre-repair
create_new_trial must fail, and so must a point read that keeps a finished row and advances the watermark),
Storage/StorageTrace (property level: with several clients on ONE database every
reply of every client must be the Storage contract's reply on the one shared state, i.e. caches are invisible).
"""
from __future__ import annotations

import concurrent.futures as cf
import itertools
import json
import os
import random
import shutil
import tempfile

from . import common, storage_driver as sd, storage_gen as sg, tlc
from .c06 import Shared, _replayer

GROUPS = ["rdb3", "grpc_inmemory", "grpc_journal", "grpc_rdb"]
RDB_LIKE = {"rdb3", "grpc_rdb"}
READS = ["get_all_trials", "get_all_trials", "get_all_trials", "get_trial", "get_trial_id_from_number", "get_trial_number",
         "get_n_trials", "get_study_name", "get_study_dirs", "get_best_trial", "get_trial_params", "get_trial_ua"]


class Group:
    """several clients of one database: [cached/proxied A, cached/proxied B, raw R] + an observer used only for `post`"""

    def __init__(self, kind, workdir):
        common.use_repo()
        from optuna.storages import RDBStorage
        from optuna.storages._cached_storage import _CachedStorage

        self.kind = kind
        self.closers = []
        path = tempfile.mkdtemp(prefix=f"{kind}-", dir=workdir)
        if kind == "rdb3":
            first = sd.fresh_rdb(path, workdir)
            url = f"sqlite:///{path}/db.sqlite3"

            def raw():
                s = RDBStorage(url, skip_compatibility_check=True, skip_table_creation=True)
                self.closers.append(lambda s=s: (s.remove_session(), s.engine.dispose()))
                return s
            self.closers.append(lambda: (first.remove_session(), first.engine.dispose()))
            self.clients = [_CachedStorage(first), _CachedStorage(raw()), raw()]
            self.observer = raw()
        else:
            be = sd.Backend(kind, workdir)
            self.closers.append(be.close)
            from optuna.storages import GrpcStorageProxy

            port = be.storage._port if hasattr(be.storage, "_port") else None
            second = GrpcStorageProxy(host=be.storage._host, port=be.storage._port)
            self.closers.append(lambda: second.close() if hasattr(second, "close") else None)
            self.clients = [be.storage, second, be.inner]
            self.observer = be.inner

    def close(self):
        for c in reversed(self.closers):
            try:
                c()
            except Exception:
                pass


def gen_history(rng, hid, n_ops=22):
    g = sg.Gen(random.Random(rng.getrandbits(40)), max_studies=2, max_trials=7)
    ops = []
    while len(ops) < n_ops:
        x = rng.random()
        if x < 0.5:
            op = g.op()
            if op["a"] == "delete_study" and rng.random() < 0.7:
                continue
        else:
            op = g.getter()
            if op["a"] not in READS:
                continue
        if op["a"] in ("get_study_name", "get_study_dirs"):
            s = op["s"]
            if not (1 <= s <= len(g.studies) and g.studies[s - 1]["live"]):
                continue          # K5 (stale name/directions after a foreign delete) has its own scenario
        g.note(op)
        op = dict(op)
        op["c"] = rng.choice([0, 0, 1, 1, 2])
        ops.append(op)
    return {"hid": hid, "ops": ops}


K5_HISTORY = {"hid": "K5-foreign-delete-name-cache", "ops": [
    {"a": "create_study", "name": "A", "dirs": [1], "c": 0},
    {"a": "get_study_name", "s": 1, "c": 0},
    {"a": "get_study_dirs", "s": 1, "c": 0},
    {"a": "delete_study", "s": 1, "c": 2},
    {"a": "get_study_name", "s": 1, "c": 0},
]}
# another client deletes a study this client has cached; this client then creates a study, which on SQLite gets the SAME raw id
# (finding K2): what the CREATOR reads about its new study must be the new study, whatever its cache held under that id
FD_HISTORY = {"hid": "FD-foreign-delete-then-local-create", "ops": [
    {"a": "create_study", "name": "A", "dirs": [0], "c": 0},
    {"a": "create_trial", "s": 1, "tm": {"has": 0}, "c": 0},
    {"a": "create_trial", "s": 1, "tm": {"has": 0}, "c": 0},
    {"a": "set_state", "t": 1, "state": "COMPLETE", "values": [3], "c": 0},
    {"a": "get_all_trials", "s": 1, "states": ["ALL"], "dc": 1, "as_list": 0, "c": 0},
    {"a": "delete_study", "s": 1, "c": 2},
    {"a": "create_study", "name": "B", "dirs": [1], "c": 0},
    {"a": "get_all_trials", "s": 2, "states": ["ALL"], "dc": 1, "as_list": 0, "c": 0},
    {"a": "get_n_trials", "s": 2, "state": "ALL", "c": 0},
    {"a": "create_trial", "s": 2, "tm": {"has": 0}, "c": 0},
    {"a": "get_all_trials", "s": 2, "states": ["ALL"], "dc": 1, "as_list": 0, "c": 0},
    {"a": "get_best_trial", "s": 2, "c": 0},
]}
# as above, but the caching client SEES that the study is gone (its read raises KeyError) and ANOTHER client creates the
# study that gets the re-issued id: a client that has noticed the deletion has no excuse to remember the dead study
FD2_HISTORY = {"hid": "FD2-foreign-delete-noticed-then-foreign-create", "ops": [
    {"a": "create_study", "name": "A", "dirs": [0], "c": 0},
    {"a": "create_trial", "s": 1, "tm": {"has": 0}, "c": 0},
    {"a": "create_trial", "s": 1, "tm": {"has": 0}, "c": 0},
    {"a": "set_state", "t": 1, "state": "COMPLETE", "values": [3], "c": 0},
    {"a": "get_all_trials", "s": 1, "states": ["ALL"], "dc": 1, "as_list": 0, "c": 0},
    {"a": "delete_study", "s": 1, "c": 2},
    {"a": "get_all_trials", "s": 1, "states": ["ALL"], "dc": 1, "as_list": 0, "c": 0},
    {"a": "create_study", "name": "B", "dirs": [1], "c": 2},
    {"a": "create_trial", "s": 2, "tm": {"has": 0}, "c": 2},
    {"a": "get_all_trials", "s": 2, "states": ["ALL"], "dc": 1, "as_list": 0, "c": 0},
    {"a": "set_state", "t": 3, "state": "COMPLETE", "values": [2], "c": 2},
    {"a": "get_all_trials", "s": 2, "states": ["ALL"], "dc": 1, "as_list": 0, "c": 0},
    {"a": "get_n_trials", "s": 2, "state": "COMPLETE", "c": 0},
]}
F3_HISTORY = {"hid": "F3-finished-template-before-first-sync", "ops": [
    {"a": "create_study", "name": "A", "dirs": [0], "c": 2},
    {"a": "create_trial", "s": 1, "tm": {"has": 0}, "c": 1},
    {"a": "create_trial", "s": 1, "tm": {"has": 1, "state": "COMPLETE", "values": [3], "params": {}, "ua": {}, "sa": {},
                                           "iv": {}, "ts": 1, "tc": 2}, "c": 0},
    {"a": "get_all_trials", "s": 1, "states": ["ALL"], "dc": 1, "as_list": 0, "c": 0},
    {"a": "set_state", "t": 1, "state": "COMPLETE", "values": [0], "c": 1},
    {"a": "get_all_trials", "s": 1, "states": ["COMPLETE"], "dc": 0, "as_list": 1, "c": 0},
    {"a": "get_all_trials", "s": 1, "states": ["ALL"], "dc": 1, "as_list": 0, "c": 1},
]}


# ---------------------------------------------------------------------------------------------------
# family "point reads before bulk reads": other clients create (and partly finish) trials of a study, the caching
# client X knows some of them (created them itself, or listed them earlier while unfinished) and has never seen
# others; X first issues POINT reads (single trial, params, attrs, number <-> id lookups, best trial, counts) on
# seen and unseen trials and only THEN lists the study with every state filter; afterwards the remaining trials are
# finished by the others and X lists again (whatever a point read did to X's cache shows up in these listings)
# ---------------------------------------------------------------------------------------------------
POINT_KINDS = ["get_trial", "get_trial_param", "get_trial_params", "get_trial_number", "get_trial_id_from_number",
               "get_best_trial", "get_trial_ua", "get_trial_sa", "get_n_trials"]
FILTERS = [["ALL"]] + [[s] for s in sd.STATES] + [["COMPLETE", "PRUNED", "FAIL"], ["RUNNING", "WAITING"]]
_DX = {"c": "float", "g": 0, "k": 0}


def _finished_tm(r):
    return {"has": 1, "state": "COMPLETE", "values": [r.choice(sd.FINITE)], "params": {}, "ua": {}, "sa": {}, "iv": {},
            "ts": 1, "tc": 2}


def _point(r, kind, main, t, n):
    if kind == "get_trial_id_from_number":
        return {"a": kind, "s": main, "n": n}
    if kind == "get_best_trial":
        return {"a": kind, "s": main}
    if kind == "get_n_trials":
        return {"a": kind, "s": main, "state": r.choice(["ALL"] + sd.STATES)}
    if kind == "get_trial_param":
        return {"a": kind, "t": t, "name": "x"}
    return {"a": kind, "t": t}


def _bulk(r, main, states):
    return {"a": "get_all_trials", "s": main, "states": list(states), "dc": r.randint(0, 1), "as_list": r.randint(0, 1)}


class _PF:
    """builder of one history of the family (bookkeeping of what exists only; never a reply)"""

    def __init__(self, r, x, decoy):
        self.r, self.x = r, x
        self.others = [c for c in (0, 1, 2) if c != x]
        self.ops = []
        self.nT = 0                  # abstract trial ids handed out so far (storage-wide creation order)
        self.main_trials = []        # abstract ids of the main study's trials, in number order
        self.open = []               # unfinished ones among them
        self.has_x = set()
        if decoy:                    # ids and numbers of the main study differ
            self.add({"a": "create_study", "name": "B", "dirs": [0]}, 2)
            self.add({"a": "create_trial", "s": 1, "tm": {"has": 0}}, r.choice(self.others))
            self.nT += 1
        self.main = 2 if decoy else 1
        self.decoy = 1 if decoy else 0
        self.add({"a": "create_study", "name": "A", "dirs": [r.randint(0, 1)]}, r.choice([0, 1, 2]))

    def add(self, op, c):
        op = dict(op)
        op["c"] = c
        self.ops.append(op)

    def create(self, c, tm=None):
        tm = tm or {"has": 0}
        self.add({"a": "create_trial", "s": self.main, "tm": tm}, c)
        self.nT += 1
        self.main_trials.append(self.nT)
        if not (tm["has"] and tm["state"] in ("COMPLETE", "PRUNED", "FAIL")):
            self.open.append(self.nT)
        return self.nT

    def finish(self, t, c, state=None):
        r = self.r
        state = state or r.choice(["COMPLETE", "COMPLETE", "COMPLETE", "PRUNED", "FAIL"])
        vals = [r.choice(sd.FINITE)] if state == "COMPLETE" or (state == "PRUNED" and r.random() < 0.5) else sd.NONE_V
        self.add({"a": "set_state", "t": t, "state": state, "values": vals}, c)
        self.open.remove(t)

    def touch(self, t, c):
        r = self.r
        y = r.random()
        if y < 0.4 and t not in self.has_x:
            self.has_x.add(t)
            self.add({"a": "set_param", "t": t, "name": "x", "v": r.choice(sd.FINITE), "d": _DX}, c)
        elif y < 0.7:
            self.add({"a": r.choice(["set_trial_ua", "set_trial_sa"]), "t": t, "key": r.choice(sd.KEYS),
                      "v": r.randrange(len(sd.ATTRS))}, c)
        else:
            self.add({"a": "set_iv", "t": t, "step": str(r.choice(sd.STEPS)), "v": r.choice(sd.FINITE)}, c)

    def number(self, t):
        """where to aim a number lookup: position of t in the main study (a number nobody has, if t is not one of its trials)"""
        return self.main_trials.index(t) if t in self.main_trials else len(self.main_trials)

    def tail(self):
        """the others finish what is still open; X (and the other caching client) list again"""
        r = self.r
        for t in list(self.open):
            self.finish(t, r.choice(self.others + [self.x]))
            if r.random() < 0.5:
                self.add(_bulk(r, self.main, r.choice(FILTERS)), self.x)
        self.add(_bulk(r, self.main, ["ALL"]), self.x)
        self.add(_bulk(r, self.main, ["COMPLETE"]), self.x)
        self.add({"a": "get_n_trials", "s": self.main, "state": "ALL"}, self.x)
        self.add(_bulk(r, self.main, ["ALL"]), self.others[0])


def gen_point_first(rng, hid, rounds=2, n_filters=2):
    r = random.Random(rng.getrandbits(48))
    b = _PF(r, r.choice([0, 1]), r.random() < 0.6)
    x, others = b.x, b.others
    if r.random() < 0.5:
        b.add(_bulk(r, b.main, ["ALL"]), x)                       # X has listed the (empty) study before
    for rnd in range(rounds):
        # writes: X and the others create trials, anybody finishes / changes unfinished ones
        to_create = r.randint(2, 3) if rnd == 0 else r.randint(1, 2)
        while to_create or (b.open and r.random() < 0.7):
            y = r.random()
            if to_create and (y < 0.5 or not b.open):
                c = x if r.random() < 0.5 else r.choice(others)
                z = r.random()
                tm = _finished_tm(r) if z < 0.1 else None
                if z > 0.92:
                    tm = dict(_finished_tm(r), state="WAITING", values=sd.NONE_V, ts=0, tc=0)
                b.create(c, tm)
                to_create -= 1
            elif y < 0.75:
                b.finish(r.choice(b.open), r.choice([0, 1, 2]))
            elif y < 0.9:
                b.touch(r.choice(b.open), r.choice([0, 1, 2]))
            elif y < 0.95:
                b.add(_bulk(r, b.main, r.choice(FILTERS)), x)     # X saw some of them while they were unfinished
            elif b.decoy:
                b.add({"a": "create_trial", "s": b.decoy, "tm": {"has": 0}}, r.choice([0, 1, 2]))
                b.nT += 1
        # point reads by X: every trial of the study (seen by X or not) is read once, in any order, by any kind of
        # point read; a few more aim at the decoy study's trial, at ids / numbers nobody has, and at the study itself
        targets = r.sample(b.main_trials, len(b.main_trials)) + [r.choice([0, 1]) for _ in range(r.randint(0, 2))]
        for t in targets:
            kind = r.choice(POINT_KINDS + ["get_trial"] * 4)          # get_trial is what Study / Trial objects use most
            b.add(_point(r, kind, b.main, t, b.number(t)), x)
        # and only then bulk reads
        for f in r.sample(FILTERS, min(n_filters, len(FILTERS))):
            b.add(_bulk(r, b.main, f), x)
    b.tail()
    return {"hid": f"pf{hid}", "ops": b.ops, "post_getters": 0}


def enum_point_first(rng):
    """thorough tier: every small skeleton of the family -- X listed before or not; each of three trials created by X or
    by another client; every subset of them finished; ONE point read of every kind on every trial; then every filter"""
    out = []
    for early in (0, 1):
        for creators in itertools.product((0, 1), repeat=3):               # 0 = X creates, 1 = another client creates
            for fin in itertools.product((0, 1), repeat=3):
                for kind in POINT_KINDS:
                    for target in (1, 2, 3):
                        r = random.Random(rng.getrandbits(48))
                        x, decoy = r.choice([0, 1]), r.random() < 0.5
                        b = _PF(r, x, decoy)
                        if early:
                            b.add(_bulk(r, b.main, ["ALL"]), x)
                        ts = [b.create(x if who == 0 else r.choice(b.others)) for who in creators]
                        for t, f in zip(ts, fin):
                            if f:
                                b.finish(t, r.choice([0, 1, 2]))
                        b.add(_point(r, kind, b.main, ts[target - 1], target - 1), x)
                        for f in r.sample(FILTERS, len(FILTERS)):
                            b.add(_bulk(r, b.main, f), x)
                        b.tail()
                        out.append({"hid": f"pfe-x{x}e{early}d{int(decoy)}-{''.join(map(str, creators))}-"
                                           f"{''.join(map(str, fin))}-{kind}-{target}", "ops": b.ops, "post_getters": 0})
    return out


def run_history(kind, h, workdir):
    grp = Group(kind, workdir)
    try:
        shared = Shared()
        rps = [_replayer(c, shared) for c in grp.clients]
        obs = _replayer(grp.observer, shared)
        events = []
        for op in h["ops"]:
            rp = rps[op["c"]]
            if ("s" in op and rp.stale_study(op["s"])) or ("t" in op and rp.stale_trial(op["t"])):
                continue
            ret, raw = rp.call({k: v for k, v in op.items() if k != "c"})
            ev = dict(op)
            ev["ret"] = ret
            if raw is not None:
                ev["raw"] = raw
            if h.get("post_getters", 1) or not op["a"].startswith("get_"):
                ev["p"] = 1
                ev["post"] = obs.post()      # what the underlying storage holds, read without any client cache
            else:
                ev["p"] = 0                  # a read directly after a judged state: replies are judged on that state
            events.append(ev)
        return {"config": kind, "hid": h["hid"], "ev": events}
    finally:
        grp.close()


def _chunk(args):
    kind, hs = args
    workdir = tempfile.mkdtemp(prefix="c08-", dir=os.environ.get("VERIF_SCRATCH_BASE", "/var/tmp"))
    try:
        return [run_history(kind, h, workdir) for h in hs]
    finally:
        shutil.rmtree(workdir, ignore_errors=True)


def strip(e):
    return {k: v for k, v in e.items() if k != "post"}


def judge(ctx, traces, label):
    for i, t in enumerate(traces):
        t["tid"] = i + 1
        ctx.count_case([t["config"]] + [[e["a"], e["c"]] + [e.get(k) for k in ("s", "t", "state")] for e in t["ev"]],
                       nontrivial=len({e["c"] for e in t["ev"]}) > 1)
    v = tlc.validate("StorageTrace", "StorageTrace", [{"tid": t["tid"], "ev": t["ev"]} for t in traces], shards=16,
                     timeout=2400)
    ctx.validated(v, label)
    for tid in sorted(v.rejected):
        t = traces[tid - 1]
        i = v.rejected[tid]["reached"]
        ev = t["ev"][i - 1] if 1 <= i <= len(t["ev"]) else None
        seen, reused, recreators = set(), False, set()
        for e in t["ev"][:i]:
            if "raw" in e:
                key = (e["a"], e["raw"])
                if key in seen:
                    reused = True
                    recreators.add(e["c"])       # the client that was handed the re-issued id by its own create call
                seen.add(key)
        # K2 explains stale answers of OTHER clients that still cache the old owner of a re-issued id; the client that
        # created the new object itself must answer for the new object
        if ev is not None and ev.get("c") in recreators:
            reused = False
        # ... and neither does K2 excuse a client that has SEEN the deletion (a KeyError for that very id) before
        raw_of = [e["raw"] for e in t["ev"] if e["a"] == "create_study" and "raw" in e]
        noticed = {e["c"] for e in t["ev"][:i] if e.get("ret", {}).get("k") == "err" and e["ret"].get("v") == "KeyError"
                   and isinstance(e.get("s"), int) and 1 <= e["s"] <= len(raw_of) and ev is not None
                   and isinstance(ev.get("s"), int) and 1 <= ev["s"] <= len(raw_of) and raw_of[e["s"] - 1] == raw_of[ev["s"] - 1]}
        if ev is not None and ev.get("c") in noticed:
            reused = False
        f = None
        if t["hid"] == K5_HISTORY["hid"] and t["config"] == "rdb3":
            f = ctx.match_known("cached-rdb:name-directions-served-after-foreign-delete")
        elif reused and t["config"] in RDB_LIKE:
            f = ctx.match_known("rdb:id-reuse-after-delete")
        if f is not None:
            ctx.known_finding(f, f"group={t['config']} history={t['hid']}")
            continue
        who = ["cached/proxied client A", "cached/proxied client B", "raw client"][ev["c"]] if ev else "?"
        ctx.violation(f"clients of one database ({t['config']}), history {t['hid']}: event #{i} by {who} "
                      f"{json.dumps(strip(ev))[:500] if ev else ''} differs from what the underlying storage holds",
                      {"config": t["config"], "history": {"hid": t["hid"], "ops": [strip_op(e) for e in t["ev"]]},
                       "failing_event": i})
        if len(ctx.violations) >= 6:
            break
    return v


def strip_op(e):
    return {k: v for k, v in e.items() if k not in ("post", "ret", "raw", "p")}


def run(ctx):
    ctx.rule = ("interleaved histories of three clients of one database (two caching/proxying, one raw; SQLite file or one "
                "gRPC server over in-memory / journal / SQLite), several studies sharing the id space, trials finishing out "
                "of creation order, finished templates; after EVERY call the call's reply and the database state read by an "
                "uncached observer are validated by TLC against the Storage contract on the one shared state; plus the "
                "family 'point reads before bulk reads' (other clients create and partly finish trials, the caching client "
                "reads every trial singly -- seen or unseen, any kind of point read, any order -- and only then lists the "
                "study with state filters, in rounds, and again after everything was finished); distinct = "
                "distinct (group, sequence of (call, client, target)) histories in which at least two clients act")
    r = tlc.require_model("CacheSync", "CacheSync_q2",
                          must_cover=["Create", "Write", "ReadAll", "ReadOne"], timeout=3000)
    ctx.model(r, "CacheSync (repaired create_new_trial)")
    if not ctx.quick:
        r = tlc.require_model("CacheSync", "CacheSync_q", must_cover=["Create", "Write", "ReadAll", "ReadOne"], timeout=3000)
        ctx.model(r, "CacheSync_q")
    r = tlc.expect_violation("CacheSync", "CacheSync_f3", "ViewEqualsBackend", timeout=600)
    ctx.model(r, "CacheSync_f3 (pre-repair create_new_trial: expected to violate ViewEqualsBackend)")
    r = tlc.expect_violation("CacheSync", "CacheSync_pr", "ViewEqualsBackend", timeout=600)
    ctx.model(r, "CacheSync_pr (get_trial keeps a finished row and advances the watermark: expected to violate "
                 "ViewEqualsBackend)")
    n_slow, n_fast = (60, 200) if ctx.quick else (600, 2500)
    n_pf = ({"rdb3": 64, "grpc_rdb": 16, "grpc_inmemory": 90, "grpc_journal": 60} if ctx.quick else
            {"rdb3": 600, "grpc_rdb": 300, "grpc_inmemory": 2500, "grpc_journal": 1000})
    prng = random.Random(ctx.seed * 7919 + 8)        # own stream: the interleaved histories of a seed stay what they were
    pfe = [] if ctx.quick else enum_point_first(prng)
    tasks = []
    for kind in GROUPS:
        n = n_slow if kind in RDB_LIKE else n_fast
        hs = [gen_history(ctx.rng, i) for i in range(n)] + [F3_HISTORY, K5_HISTORY, FD_HISTORY, FD2_HISTORY]
        if ctx.quick:
            hs += [gen_point_first(prng, i) for i in range(n_pf[kind])]
        else:
            hs += [gen_point_first(prng, i, rounds=3, n_filters=len(FILTERS)) for i in range(n_pf[kind])]
            hs += pfe if kind in ("rdb3", "grpc_inmemory") else prng.sample(pfe, 400)
        per = 8 if kind in RDB_LIKE else 30
        tasks += [(kind, hs[i:i + per]) for i in range(0, len(hs), per)]
    traces = []
    with cf.ProcessPoolExecutor(max_workers=16) as ex:
        for res in ex.map(_chunk, tasks):
            traces += res
    v = judge(ctx, traces, "three clients on one database")
    for t in traces[:: max(1, len(traces) // 3)][:3]:
        ctx.sample({"group": t["config"], "events": [strip(e) for e in t["ev"][:10]]})
    if not ctx.violations:
        good = next(t for t in traces if t["tid"] in v.accepted and
                    any(e["a"] == "get_all_trials" and e["ret"]["k"] == "ok" and len(e["ret"]["v"]) >= 2 and e["c"] < 2
                        for e in t["ev"]))

        def stale(t):
            for e in t["ev"]:
                if e["a"] == "get_all_trials" and e["ret"]["k"] == "ok" and len(e["ret"]["v"]) >= 2 and e["c"] < 2:
                    e["ret"]["v"] = e["ret"]["v"][:-1]        # the cached client misses the newest trial
                    return
        ctx.binding_selftest("StorageTrace", "StorageTrace", {"tid": 1, "ev": good["ev"]}, stale,
                             "cached client's get_all_trials misses a trial")
    ctx.assumptions += ["sequentially interleaved clients (thread interleavings inside one client belong to C03)",
                        "RDB = SQLite; the gRPC server runs one worker thread",
                        "known findings K2 (SQLite id reuse) and K5 (name/directions cached for ever) are matched by exact shape"]


def replay(ctx, data):
    traces = _chunk((data["config"], [data["history"]]))
    judge(ctx, traces, "replay")
