"""C08 — client-side trial caches never serve a view that differs from the backend.

Specs: CacheSync (algorithm level: watermark + unfinished-set caches, exhaustively checked; the pre-repair
create_new_trial must fail), Storage/StorageTrace (property level: with several clients on ONE database every
reply of every client must be the Storage contract's reply on the one shared state, i.e. caches are invisible).
"""
from __future__ import annotations

import concurrent.futures as cf
import json
import os
import random
import shutil
import tempfile

from . import common, storage_driver as sd, storage_gen as sg, tlc
from .c06 import Shared, _replayer

GROUPS = ["rdb3", "grpc_inmemory", "grpc_journal", "grpc_rdb"]
RDB_LIKE = {"rdb3", "grpc_rdb"}
READS = ["get_all_trials", "get_all_trials", "get_all_trials", "get_trial", "get_trial_id_from_number", "get_trial_number",
         "get_n_trials", "get_study_name", "get_study_dirs", "get_best_trial", "get_trial_params", "get_trial_ua"]


class Group:
    """several clients of one database: [cached/proxied A, cached/proxied B, raw R] + an observer used only for `post`"""

    def __init__(self, kind, workdir):
        common.use_repo()
        from optuna.storages import RDBStorage
        from optuna.storages._cached_storage import _CachedStorage

        self.kind = kind
        self.closers = []
        path = tempfile.mkdtemp(prefix=f"{kind}-", dir=workdir)
        if kind == "rdb3":
            first = sd.fresh_rdb(path, workdir)
            url = f"sqlite:///{path}/db.sqlite3"

            def raw():
                s = RDBStorage(url, skip_compatibility_check=True, skip_table_creation=True)
                self.closers.append(lambda s=s: (s.remove_session(), s.engine.dispose()))
                return s
            self.closers.append(lambda: (first.remove_session(), first.engine.dispose()))
            self.clients = [_CachedStorage(first), _CachedStorage(raw()), raw()]
            self.observer = raw()
        else:
            be = sd.Backend(kind, workdir)
            self.closers.append(be.close)
            from optuna.storages import GrpcStorageProxy

            port = be.storage._port if hasattr(be.storage, "_port") else None
            second = GrpcStorageProxy(host=be.storage._host, port=be.storage._port)
            self.closers.append(lambda: second.close() if hasattr(second, "close") else None)
            self.clients = [be.storage, second, be.inner]
            self.observer = be.inner

    def close(self):
        for c in reversed(self.closers):
            try:
                c()
            except Exception:
                pass


def gen_history(rng, hid, n_ops=22):
    g = sg.Gen(random.Random(rng.getrandbits(40)), max_studies=2, max_trials=7)
    ops = []
    while len(ops) < n_ops:
        x = rng.random()
        if x < 0.5:
            op = g.op()
            if op["a"] == "delete_study" and rng.random() < 0.7:
                continue
        else:
            op = g.getter()
            if op["a"] not in READS:
                continue
        if op["a"] in ("get_study_name", "get_study_dirs"):
            s = op["s"]
            if not (1 <= s <= len(g.studies) and g.studies[s - 1]["live"]):
                continue          # K5 (stale name/directions after a foreign delete) has its own scenario
        g.note(op)
        op = dict(op)
        op["c"] = rng.choice([0, 0, 1, 1, 2])
        ops.append(op)
    return {"hid": hid, "ops": ops}


K5_HISTORY = {"hid": "K5-foreign-delete-name-cache", "ops": [
    {"a": "create_study", "name": "A", "dirs": [1], "c": 0},
    {"a": "get_study_name", "s": 1, "c": 0},
    {"a": "get_study_dirs", "s": 1, "c": 0},
    {"a": "delete_study", "s": 1, "c": 2},
    {"a": "get_study_name", "s": 1, "c": 0},
]}
F3_HISTORY = {"hid": "F3-finished-template-before-first-sync", "ops": [
    {"a": "create_study", "name": "A", "dirs": [0], "c": 2},
    {"a": "create_trial", "s": 1, "tm": {"has": 0}, "c": 1},
    {"a": "create_trial", "s": 1, "tm": {"has": 1, "state": "COMPLETE", "values": [3], "params": {}, "ua": {}, "sa": {},
                                           "iv": {}, "ts": 1, "tc": 2}, "c": 0},
    {"a": "get_all_trials", "s": 1, "states": ["ALL"], "dc": 1, "as_list": 0, "c": 0},
    {"a": "set_state", "t": 1, "state": "COMPLETE", "values": [0], "c": 1},
    {"a": "get_all_trials", "s": 1, "states": ["COMPLETE"], "dc": 0, "as_list": 1, "c": 0},
    {"a": "get_all_trials", "s": 1, "states": ["ALL"], "dc": 1, "as_list": 0, "c": 1},
]}


def run_history(kind, h, workdir):
    grp = Group(kind, workdir)
    try:
        shared = Shared()
        rps = [_replayer(c, shared) for c in grp.clients]
        obs = _replayer(grp.observer, shared)
        events = []
        for op in h["ops"]:
            rp = rps[op["c"]]
            if ("s" in op and rp.stale_study(op["s"])) or ("t" in op and rp.stale_trial(op["t"])):
                continue
            ret, raw = rp.call({k: v for k, v in op.items() if k != "c"})
            ev = dict(op)
            ev["ret"] = ret
            if raw is not None:
                ev["raw"] = raw
            ev["p"] = 1
            ev["post"] = obs.post()          # what the underlying storage holds, read without any client cache
            events.append(ev)
        return {"config": kind, "hid": h["hid"], "ev": events}
    finally:
        grp.close()


def _chunk(args):
    kind, hs = args
    workdir = tempfile.mkdtemp(prefix="c08-", dir=os.environ.get("VERIF_SCRATCH_BASE", "/var/tmp"))
    try:
        return [run_history(kind, h, workdir) for h in hs]
    finally:
        shutil.rmtree(workdir, ignore_errors=True)


def strip(e):
    return {k: v for k, v in e.items() if k != "post"}


def judge(ctx, traces, label):
    for i, t in enumerate(traces):
        t["tid"] = i + 1
        ctx.count_case([t["config"]] + [[e["a"], e["c"]] + [e.get(k) for k in ("s", "t", "state")] for e in t["ev"]],
                       nontrivial=len({e["c"] for e in t["ev"]}) > 1)
    v = tlc.validate("StorageTrace", "StorageTrace", [{"tid": t["tid"], "ev": t["ev"]} for t in traces], shards=16,
                     timeout=2400)
    ctx.validated(v, label)
    for tid in sorted(v.rejected):
        t = traces[tid - 1]
        i = v.rejected[tid]["reached"]
        ev = t["ev"][i - 1] if 1 <= i <= len(t["ev"]) else None
        seen, reused = set(), False
        for e in t["ev"][:i]:
            if "raw" in e:
                key = (e["a"], e["raw"])
                reused = reused or key in seen
                seen.add(key)
        f = None
        if t["hid"] == K5_HISTORY["hid"] and t["config"] == "rdb3":
            f = ctx.match_known("cached-rdb:name-directions-served-after-foreign-delete")
        elif reused and t["config"] in RDB_LIKE:
            f = ctx.match_known("rdb:id-reuse-after-delete")
        if f is not None:
            ctx.known_finding(f, f"group={t['config']} history={t['hid']}")
            continue
        who = ["cached/proxied client A", "cached/proxied client B", "raw client"][ev["c"]] if ev else "?"
        ctx.violation(f"clients of one database ({t['config']}), history {t['hid']}: event #{i} by {who} "
                      f"{json.dumps(strip(ev))[:500] if ev else ''} differs from what the underlying storage holds",
                      {"config": t["config"], "history": {"hid": t["hid"], "ops": [strip_op(e) for e in t["ev"]]},
                       "failing_event": i})
        if len(ctx.violations) >= 6:
            break
    return v


def strip_op(e):
    return {k: v for k, v in e.items() if k not in ("post", "ret", "raw", "p")}


def run(ctx):
    ctx.rule = ("interleaved histories of three clients of one database (two caching/proxying, one raw; SQLite file or one "
                "gRPC server over in-memory / journal / SQLite), several studies sharing the id space, trials finishing out "
                "of creation order, finished templates; after EVERY call the call's reply and the database state read by an "
                "uncached observer are validated by TLC against the Storage contract on the one shared state; distinct = "
                "distinct (group, sequence of (call, client, target)) histories in which at least two clients act")
    r = tlc.require_model("CacheSync", "CacheSync_q2",
                          must_cover=["Create", "Write", "ReadAll", "ReadOne"], timeout=3000)
    ctx.model(r, "CacheSync (repaired create_new_trial)")
    if not ctx.quick:
        r = tlc.require_model("CacheSync", "CacheSync_q", must_cover=["Create", "Write", "ReadAll", "ReadOne"], timeout=3000)
        ctx.model(r, "CacheSync_q")
    r = tlc.expect_violation("CacheSync", "CacheSync_f3", "ViewEqualsBackend", timeout=600)
    ctx.model(r, "CacheSync_f3 (pre-repair create_new_trial: expected to violate ViewEqualsBackend)")
    n_slow, n_fast = (60, 200) if ctx.quick else (600, 2500)
    tasks = []
    for kind in GROUPS:
        n = n_slow if kind in RDB_LIKE else n_fast
        hs = [gen_history(ctx.rng, i) for i in range(n)] + [F3_HISTORY, K5_HISTORY]
        per = 8 if kind in RDB_LIKE else 30
        tasks += [(kind, hs[i:i + per]) for i in range(0, len(hs), per)]
    traces = []
    with cf.ProcessPoolExecutor(max_workers=16) as ex:
        for res in ex.map(_chunk, tasks):
            traces += res
    v = judge(ctx, traces, "three clients on one database")
    for t in traces[:: max(1, len(traces) // 3)][:3]:
        ctx.sample({"group": t["config"], "events": [strip(e) for e in t["ev"][:10]]})
    if not ctx.violations:
        good = next(t for t in traces if t["tid"] in v.accepted and
                    any(e["a"] == "get_all_trials" and e["ret"]["k"] == "ok" and len(e["ret"]["v"]) >= 2 and e["c"] < 2
                        for e in t["ev"]))

        def stale(t):
            for e in t["ev"]:
                if e["a"] == "get_all_trials" and e["ret"]["k"] == "ok" and len(e["ret"]["v"]) >= 2 and e["c"] < 2:
                    e["ret"]["v"] = e["ret"]["v"][:-1]        # the cached client misses the newest trial
                    return
        ctx.binding_selftest("StorageTrace", "StorageTrace", {"tid": 1, "ev": good["ev"]}, stale,
                             "cached client's get_all_trials misses a trial")
    ctx.assumptions += ["sequentially interleaved clients (thread interleavings inside one client belong to C03)",
                        "RDB = SQLite; the gRPC server runs one worker thread",
                        "known findings K2 (SQLite id reuse) and K5 (name/directions cached for ever) are matched by exact shape"]


def replay(ctx, data):
    traces = _chunk((data["config"], [data["history"]]))
    judge(ctx, traces, "replay")
