"""C02 — every trial run by optimize/ask/tell ends in a well-formed terminal state.

Spec: specs/StudyLoop.tla (one optimize() call as a state machine + the tell argument table),
StudyLoopMC (bounded exhaustive instances, scenario generator via -simulate), StudyLoopTrace (conformance).

The harness only (a) turns abstract scenarios (configuration + per-trial script of outcome tokens) into a
scripted objective / sampler / callbacks with concrete Python values taken from a fixed table, (b) runs the REAL
Study.optimize / Study.tell, (c) writes down what the study looks like afterwards as tokens.  TLC decides.
"""
from __future__ import annotations

import itertools
import tempfile

from . import common, tlc

MC_ACTIONS = ["MSubmit", "MAsk", "MRun", "MTell", "MCallback", "MFinish"]

SCALAR_OK = ["float", "int", "bool", "numstr", "inf", "neginf", "neg", "bytes"]
SCALAR_BAD = ["none", "nan", "badstr", "hugeint", "badobj", "hostile"]
LIST_KINDS = ["list_ok", "list_numstr", "list_infs", "list_short", "list_long", "list_nan_first", "list_nan_last", "list_badelem",
              "list_hugeint"]
RET_KINDS = SCALAR_OK + SCALAR_BAD + LIST_KINDS
RAISE_KINDS = ["E1", "E2", "KI", "pruned"]
REPORTS = ["none", "ok", "inf", "nan"]
STATES_ARG = ["None", "COMPLETE", "PRUNED", "FAIL", "RUNNING", "WAITING"]

# scenario classes of the defects known at design time (signature -> what the symptom looks like)
SIG_F1 = "C02:F1:value-str-or-hugeint-leaves-trial-running"
SIG_HOSTILE = "C02:F1b:hostile-__float__-leaves-trial-running"
SIG_F12 = "C02:F12:njobs-swallows-uncaught-exception"
SIG_ASK = "C02:sampler-raises-in-ask-leaves-trial-running"
F1_KINDS = {"numstr", "hugeint", "list_numstr", "list_hugeint"}


# ----------------------------------------------------------------------------------------------------------------
# abstract kind -> concrete Python values (several per kind; `var` picks one, so a scenario is replayable)
# ----------------------------------------------------------------------------------------------------------------
class Hostile:
    def __float__(self):
        raise RuntimeError("hostile __float__")


class SamplerErr(Exception):
    pass


class SamplerInterrupt(KeyboardInterrupt):
    """the sampler (or the storage read in Trial.__init__) is interrupted while Study.ask builds the Trial object"""


class CbErr(Exception):
    pass


class MyErr(Exception):
    pass


class MySubErr(MyErr):
    pass


class OtherErr(Exception):
    pass


def _tables():
    import decimal
    import fractions

    import numpy as np

    D, Fr = decimal.Decimal, fractions.Fraction
    nan, inf = float("nan"), float("inf")
    scalars = {
        "float": [1.5, np.float32(1.5), np.float64(1.5), D("1.5"), Fr(3, 2), np.array(1.5), np.float16(1.5)],
        "int": [5, np.int64(5), D(5), 5.0, np.uint8(5), Fr(5)],
        "bool": [True, np.bool_(True)],
        "numstr": ["5", np.str_("5")],        # one character: the same single value whether read as value or sequence
        "inf": [inf, np.inf, D("Infinity"), np.float32("inf")],
        "neginf": [-inf, D("-Infinity"), -np.inf],
        "neg": [-2.0, -2, np.int8(-2), D("-2")],
        "bytes": [b"5", bytearray(b"5")],
        "none": [None],
        "nan": [nan, np.nan, D("NaN"), np.float32("nan"), np.float64("nan")],
        "badstr": ["abc", "", "x"],
        "hugeint": [10 ** 400, -10 ** 400],
        "badobj": [object(), {1.0}, {1.0: 2.0}, 1 + 0j, iter([1.0]), np.array([1.0, 2.0]), (lambda: 1.0), Ellipsis],
        "hostile": [Hostile()],
    }
    lists = {
        1: {
            "list_ok": [[1.0], (1.0,), [1], [True], [np.float64(1.0)], range(1, 2), [D(1)]],
            "list_numstr": [["5"], ("5",)],
            "list_infs": [[inf], (np.inf,), [D("Infinity")]],
            "list_short": [[], (), range(0)],
            "list_long": [[1.0, 2.0], (1.0, 2.0, 3.0)],
            "list_nan_first": [[nan], (D("NaN"),)],
            "list_nan_last": [[np.nan], [np.float32("nan")]],
            "list_badelem": [["abc"], [None], [[1.0]], [object()]],
            "list_hugeint": [[10 ** 400]],
        },
        2: {
            "list_ok": [[1.0, 2.0], (1.0, 2.0), [1, 2], [np.float32(1.0), D(2)], range(1, 3), [True, 2.0]],
            # infinities of BOTH signs in one trial are storable values (NaN-free, float-convertible)
            "list_infs": [[inf, -inf], (inf, -np.inf), [np.inf, D("-Infinity")], [np.float32("inf"), -inf]],
            "list_numstr": [[1.0, "5"], (1, "5")],
            "list_short": [[1.0], (1.0,), []],
            "list_long": [[1.0, 2.0, 3.0], (1.0, 2.0, 3.0, 4.0)],
            "list_nan_first": [[nan, 2.0], (D("NaN"), 2.0), [np.nan, 2]],
            "list_nan_last": [[1.0, nan], (1.0, np.float32("nan")), [1, D("NaN")]],
            "list_badelem": [[1.0, "abc"], [None, 2.0], [1.0, [2.0]], [1.0, object()]],
            "list_hugeint": [[1.0, 10 ** 400], [10 ** 400, 2.0]],
        },
    }
    reports = {"ok": [3.0, 3, np.float32(3.0), "3.0"], "inf": [inf, np.inf], "nan": [nan, np.float64("nan")]}
    return scalars, lists, reports


def concrete_value(kind, nobj, var):
    scalars, lists, _ = _tables()
    pool = scalars[kind] if kind in scalars else lists[nobj][kind]
    return pool[var % len(pool)]


E1_CLASSES = [(ValueError, UnicodeError), (KeyError, KeyError), (MyErr, MySubErr), (LookupError, IndexError)]
E2_CLASSES = [RuntimeError, ZeroDivisionError, OtherErr, TypeError]


def catch_arg(impl, catch):
    e1 = E1_CLASSES[impl["e1"] % len(E1_CLASSES)][0]
    forms1 = [(e1,), e1, [e1], (OSError, e1)]
    forms0 = [(), (OSError,), [], (StopIteration,)]
    f = forms1 if catch else forms0
    return f[impl["catchform"] % len(f)]


def project_values(values):
    if values is None:
        return []
    if len(values) == 0:
        return ["EMPTYLIST"]
    # what is stored must BE floats (the docstring of FrozenTrial.values), not merely convert to them
    return [repr(float(v)) if type(v) is float else f"NOTAFLOAT:{type(v).__name__}" for v in values]


def project_trial(t):
    return {"state": t.state.name, "values": project_values(t.values)}


def project_exc(e, impl):
    if e is None:
        return "none"
    e1 = E1_CLASSES[impl["e1"] % len(E1_CLASSES)][0]
    if isinstance(e, (SamplerErr, SamplerInterrupt)):
        return "SE"
    if isinstance(e, CbErr):
        return "CE"
    if isinstance(e, KeyboardInterrupt):
        return "KI"
    if isinstance(e, e1):
        return "E1"
    if type(e) in E2_CLASSES:
        return "E2"
    return "X:" + type(e).__name__


# ----------------------------------------------------------------------------------------------------------------
# running one scenario on the real code
# ----------------------------------------------------------------------------------------------------------------
def make_storage(kind, workdir):
    if kind == "inmemory":
        return None
    path = tempfile.mktemp(prefix="c02-", dir=workdir)
    if kind == "sqlite":
        return f"sqlite:///{path}.db"
    if kind == "journal":
        from optuna.storages import JournalStorage
        from optuna.storages.journal import JournalFileBackend

        return JournalStorage(JournalFileBackend(path + ".log"))
    raise tlc.MachineryError(f"unknown storage {kind}")


def make_sampler_pruner(impl, script, nobj):
    import optuna

    base_name = impl.get("sampler", "random")
    seed = impl.get("seed", 0)
    if base_name == "tpe":
        base = optuna.samplers.TPESampler(seed=seed, n_startup_trials=1)
    elif base_name == "nsga2":
        base = optuna.samplers.NSGAIISampler(seed=seed, population_size=2)
    else:
        base = optuna.samplers.RandomSampler(seed=seed)
    e2 = E2_CLASSES[impl["e2"] % len(E2_CLASSES)]
    e1sub = E1_CLASSES[impl["e1"] % len(E1_CLASSES)][1]

    armed = [False]   # the study is prepared (pre-existing trials) with a sampler that does not misbehave

    def entry(number):
        return script[number] if armed[0] and number < len(script) else None

    def exc_for(kind):
        return e1sub("scripted") if kind == "E1" else e2("scripted")

    class ScriptedSampler(optuna.samplers.BaseSampler):
        def reseed_rng(self):
            base.reseed_rng()

        def before_trial(self, study, trial):
            s = entry(trial.number)
            if s and s["saA"] == "raise" and s["var"] % 2 == 0:
                raise (SamplerInterrupt if s["var"] % 3 == 0 else SamplerErr)("before_trial")
            base.before_trial(study, trial)

        def infer_relative_search_space(self, study, trial):
            s = entry(trial.number)
            if s and s["saA"] == "raise" and s["var"] % 2 == 1:
                raise (SamplerInterrupt if s["var"] % 3 == 0 else SamplerErr)("infer_relative_search_space")
            return base.infer_relative_search_space(study, trial)

        def sample_relative(self, study, trial, search_space):
            return base.sample_relative(study, trial, search_space)

        def sample_independent(self, study, trial, name, dist):
            s = entry(trial.number)
            if s and name == "boom":
                raise exc_for(s["o"]["kind"])
            return base.sample_independent(study, trial, name, dist)

        def after_trial(self, study, trial, state, values):
            base.after_trial(study, trial, state, values)
            s = entry(trial.number)
            if s and s["saT"] == "raise":
                raise SamplerErr("after_trial")

    pname = impl.get("pruner", "nop")
    pbase = optuna.pruners.MedianPruner(n_startup_trials=0) if pname == "median" else optuna.pruners.NopPruner()

    class ScriptedPruner(optuna.pruners.BasePruner):
        def prune(self, study, trial):
            s = entry(trial.number)
            if s and s.get("_via") == "pruner":
                raise exc_for(s["o"]["kind"])
            return pbase.prune(study, trial)

    return ScriptedSampler(), ScriptedPruner(), exc_for, armed


def make_objective(scn, exc_for):
    import optuna

    nobj, script = scn["cfg"]["nobj"], scn["script"]
    _, _, reports = _tables()

    class SubPruned(optuna.TrialPruned):
        pass

    gate = scn.get("gate")

    def objective(trial):
        s = script[trial.number]
        o, var = s["o"], s["var"]
        if s.get("slow") and gate is not None:
            # a sibling still in flight when another trial fails: it stays in its objective until the harness has looked at
            # the study after optimize() returned/raised (or, on code that waits for it, until this timeout)
            gate.wait(timeout=1.2)
        if var % 3 != 2:
            trial.suggest_float("x", 0.0, 1.0)
        if var % 4 == 1:
            trial.set_user_attr("note", var)
        if o["rep"] != "none":
            pool = reports[o["rep"]]
            if var % 2 == 0:
                trial.report(9.0, 0)          # an earlier step with another value
            trial.report(pool[var % len(pool)], 1 + var % 3)
        if o["stop"] == 1:
            trial.study.stop()
        if o["k"] == "ret":
            return concrete_value(o["kind"], nobj, var)
        if o["kind"] == "pruned":
            raise (SubPruned() if var % 2 else optuna.TrialPruned())
        if o["kind"] == "KI":
            raise KeyboardInterrupt()
        via = s.get("_via", "raise")
        if via == "pruner":
            trial.should_prune()
        elif via == "sampler":
            trial.suggest_float("boom", 0.0, 1.0)
        raise exc_for(o["kind"])

    return objective


def run_opt_scenario(scn, workdir):
    """Play one scenario through the real Study.optimize; returns the trace (abstract) for StudyLoopTrace."""
    import optuna

    cfg, impl = scn["cfg"], scn["impl"]
    script = [dict(s) for s in scn["script"]]
    for s in script:   # how an E1/E2 exception gets raised: directly, from the pruner, from the sampler
        s["_via"] = ["raise", "raise", "pruner", "sampler"][s["var"] % 4] if s["o"]["kind"] in ("E1", "E2") else "raise"
        if s["_via"] == "pruner" and cfg["nobj"] > 1:      # should_prune is not available on multi-objective studies
            s["_via"] = "raise"
    import threading

    gate = threading.Event()
    run = {"cfg": cfg, "script": script, "impl": impl, "gate": gate}
    sampler, pruner, exc_for, armed = make_sampler_pruner(impl, script, cfg["nobj"])
    storage = make_storage(impl.get("storage", "inmemory"), workdir)
    common.decoy(storage, (len(script) + cfg["nobj"]) % 3)
    study = optuna.create_study(storage=storage, directions=["minimize", "maximize", "minimize"][: cfg["nobj"]],
                                sampler=sampler, pruner=pruner)
    for x in cfg["pre"]:
        if x == "C":
            study.add_trial(optuna.trial.create_trial(values=[7.0] * cfg["nobj"]))
        elif x == "W":
            study.enqueue_trial({"x": 0.5})
        else:
            study.ask()
    armed[0] = True
    cb_a, cb_b = [], []

    def seen(frozen):
        return {"n": frozen.number + 1, "state": frozen.state.name, "values": project_values(frozen.values)}

    def callback_a(st, frozen):
        cb_a.append(seen(frozen))
        act = script[frozen.number]["cb"]
        if act == "stop":
            st.stop()
        elif act == "raise":
            raise CbErr("scripted")

    def callback_b(st, frozen):
        cb_b.append(seen(frozen))

    escaped = None
    try:
        study.optimize(make_objective(run, exc_for), n_trials=cfg["n"], catch=catch_arg(impl, cfg["catch"]),
                       callbacks=[callback_a, callback_b], n_jobs=cfg["jobs"])
    except BaseException as e:  # noqa: the escaping exception is the observation
        escaped = e
    try:
        trials = [project_trial(t) for t in study.get_trials(deepcopy=True)]
    except Exception as e:  # noqa: a study that cannot be read back any more is an observation, not a harness problem
        trials = [{"state": "UNREADABLE", "values": [type(e).__name__]}]
    gate.set()
    final = {"a": "final", "trials": trials, "cbA": cb_a, "cbB": cb_b, "raised": project_exc(escaped, impl)}
    if escaped is not None and final["raised"].startswith("X:"):
        final["raw"] = repr(escaped)[:200]
    return final


def opt_trace(tid, scn, final):
    return {"tid": tid, "type": "opt", "cfg": scn["cfg"],
            "script": [{"o": s["o"], "saA": s["saA"], "saT": s["saT"], "cb": s["cb"]} for s in scn["script"]],
            "ev": [{k: v for k, v in final.items() if k != "raw"}]}


def run_tell_scenario(scn, workdir):
    import optuna
    from optuna.trial import TrialState

    cfg, impl = scn["cfg"], scn["impl"]
    nobj = cfg["nobj"]
    _, _, reports = _tables()
    storage = make_storage(impl.get("storage", "inmemory"), workdir)
    common.decoy(storage, (impl.get("seed", 0) + nobj) % 3)
    study = optuna.create_study(storage=storage, directions=["minimize", "maximize"][:nobj],
                                sampler=optuna.samplers.RandomSampler(seed=impl.get("seed", 0)))
    if cfg["pre"] == ["W"]:
        study.enqueue_trial({"x": 0.5})
        handle_obj, number = None, 0
    else:
        handle_obj = study.ask()
        number = handle_obj.number
        if scn["rep"] != "none":
            pool = reports[scn["rep"]]
            handle_obj.report(9.0, 0)
            handle_obj.report(pool[impl.get("seed", 0) % len(pool)], 2)

    def read():
        try:
            return project_trial(study.get_trials(deepcopy=True)[number])
        except Exception as e:  # noqa: see run_opt_scenario
            return {"state": "UNREADABLE", "values": [type(e).__name__]}

    events = []
    for call in scn["calls"]:
        pre = read()
        values = None if call["vk"] == "none" and call["var"] % 2 == 0 else concrete_value(call["vk"], nobj, call["var"])
        state = None if call["st"] == "None" else TrialState[call["st"]]
        handle = number if (handle_obj is None or call["var"] % 3 == 1) else handle_obj
        try:
            study.tell(handle, values=values, state=state, skip_if_finished=bool(call["skip"]))
            reply = "ok"
        except Exception as e:  # noqa: the reply class is the observation
            reply = type(e).__name__
        events.append({"a": "tell", "pre": pre, "vk": call["vk"], "st": call["st"], "skip": call["skip"],
                       "rep": scn["rep"], "reply": reply, "post": read()})
    return events


def tell_trace(tid, scn, events):
    return {"tid": tid, "type": "tell", "cfg": scn["cfg"], "ev": events}


# ----------------------------------------------------------------------------------------------------------------
# scenarios
# ----------------------------------------------------------------------------------------------------------------
def wf_outcomes(nobj, kinds=None):
    out = []
    for kind in (kinds or RET_KINDS):
        for stop in (0, 1):
            for rep in (REPORTS if nobj == 1 else ["none"]):
                out.append({"k": "ret", "kind": kind, "stop": stop, "rep": rep})
    for kind in RAISE_KINDS:
        for stop in (0, 1):
            for rep in (REPORTS if nobj == 1 else ["none"]):
                out.append({"k": "raise", "kind": kind, "stop": stop, "rep": rep})
    return out


def rand_impl(rng, storage="inmemory"):
    return {"storage": storage, "sampler": rng.choice(["random", "random", "tpe", "nsga2"]),
            "pruner": rng.choice(["nop", "median"]), "e1": rng.randrange(4), "e2": rng.randrange(4),
            "catchform": rng.randrange(4), "seed": rng.randrange(1000)}


def entry(o, rng, saA="ok", saT="ok", cb="ok"):
    return {"o": o, "saA": saA, "saT": saT, "cb": cb, "var": rng.randrange(1000)}


def calm(rng, nobj):
    return {"k": "ret", "kind": rng.choice(["float", "int", "list_ok"] if nobj == 1 else ["list_ok"]), "stop": 0,
            "rep": "none"}


def pad_script(script, cfg, rng):
    need = len(cfg["pre"]) + cfg["n"] + 1
    while len(script) < need:
        script.append(entry(calm(rng, cfg["nobj"]), rng))
    return script


def systematic_single(rng):
    """every well-formed outcome as the only trial of a call, for every (nobj, catch)"""
    out = []
    for nobj in (1, 2):
        for catch in (0, 1):
            for o in wf_outcomes(nobj):
                cfg = {"nobj": nobj, "catch": catch, "n": 1, "jobs": 1, "pre": []}
                out.append({"cfg": cfg, "script": pad_script([entry(o, rng)], cfg, rng), "impl": rand_impl(rng)})
    return out


def random_scenarios(rng, count, storage="inmemory", jobs=1, defect_share=0.1):
    out = []
    pools = {n: wf_outcomes(n) for n in (1, 2)}
    safe = {n: [o for o in pools[n] if o["kind"] not in F1_KINDS and o["kind"] != "hostile"] for n in (1, 2)}
    for _ in range(count):
        nobj = rng.choice([1, 1, 2])
        cfg = {"nobj": nobj, "catch": rng.randrange(2), "n": rng.choice([0, 1, 2, 2, 3, 3, 3]), "jobs": jobs,
               "pre": rng.choice([[], [], ["C"], ["W"], ["R"], ["C", "W"]])}
        with_defects = rng.random() < defect_share
        script = []
        for _k in range(len(cfg["pre"]) + cfg["n"] + 1):
            o = rng.choice(pools[nobj] if with_defects else safe[nobj])
            if rng.random() < 0.6:                     # most trials do not stop the loop, so that later ones run
                o = dict(o, stop=0)
            misb = rng.random()
            script.append(entry(
                o, rng,
                saA="raise" if (with_defects and rng.random() < 0.3) else "ok",
                saT="raise" if misb < 0.08 else "ok",
                cb="raise" if 0.08 <= misb < 0.16 else "stop" if 0.16 <= misb < 0.26 else "ok"))
        out.append({"cfg": cfg, "script": script, "impl": rand_impl(rng, storage)})
    return out


def scenarios_from_tlc(ctx, module_cfg, num, depth, rng):
    """TLC -simulate behaviours of StudyLoopMC -> scenarios (configuration + the script the behaviour followed)."""
    behs = tlc.simulate("StudyLoopMC", module_cfg, num=num, depth=depth, seed=ctx.seed + 7)
    out = []
    for b in behs:
        if not b:
            continue
        c = b[0].state["c"]
        cfg = {"nobj": c["nobj"], "catch": c["catch"], "n": c["n"], "jobs": c["jobs"], "pre": list(c["pre"])}
        slots = {}
        prev = b[0].state
        for st in b[1:]:
            a, args, ph = st.action, st.args, st.state["phase"]
            if a in ("MAsk", "MRun", "MTell", "MCallback"):
                w = args[0]
                n = (prev["phase"][w - 1] if a == "MCallback" else ph[w - 1])["n"]
                if n >= 1:
                    e = slots.setdefault(n, {})
                    if a == "MAsk":
                        e["saA"] = args[1]
                    elif a == "MRun":
                        e["o"] = dict(ph[w - 1]["o"])
                    elif a == "MTell":
                        e["saT"] = args[1]
                    else:
                        e["cb"] = args[1]
            prev = st.state
        script = []
        for n in range(1, len(cfg["pre"]) + cfg["n"] + 2):
            e = slots.get(n, {})
            script.append(entry(e.get("o") or calm(rng, cfg["nobj"]), rng, e.get("saA", "ok"), e.get("saT", "ok"),
                                e.get("cb", "ok")))
        out.append({"cfg": cfg, "script": script, "impl": rand_impl(rng), "from": "tlc"})
    return out


def tell_scenarios(rng, quick):
    out = []
    first = {"COMPLETE": {"vk": "float", "st": "None"}, "PRUNED": {"vk": "none", "st": "PRUNED"},
             "FAIL": {"vk": "none", "st": "FAIL"}, "COMPLETE2": {"vk": "list_ok", "st": "COMPLETE"}}
    vks = RET_KINDS

    def call(vk, st, skip):
        return {"vk": vk, "st": st, "skip": skip, "var": rng.randrange(1000)}

    for nobj in (1, 2):
        # every argument combination on a RUNNING trial and on a WAITING trial
        for vk, st, skip in itertools.product(vks, STATES_ARG, (0, 1)):
            for rep in (["none", "ok"] if nobj == 1 and st == "PRUNED" else ["none"]):
                if quick and skip == 1 and rng.random() < 0.5:
                    continue
                out.append({"cfg": {"nobj": nobj, "catch": 0, "n": 0, "jobs": 1, "pre": ["R"]}, "rep": rep,
                            "calls": [call(vk, st, skip)], "impl": {"seed": rng.randrange(1000)}})
        for vk, st, skip in itertools.product(["float", "none", "list_ok", "nan"], STATES_ARG, (0, 1)):
            out.append({"cfg": {"nobj": nobj, "catch": 0, "n": 0, "jobs": 1, "pre": ["W"]}, "rep": "none",
                        "calls": [call(vk, st, skip)], "impl": {"seed": rng.randrange(1000)}})
        # every argument combination on a trial that the first tell has finished (COMPLETE / PRUNED / FAIL)
        for fs, f in first.items():
            if nobj == 2 and fs == "COMPLETE":
                continue
            for rep in (["none", "ok", "nan"] if nobj == 1 and fs == "PRUNED" else ["none"]):
                for vk, st, skip in itertools.product(["float", "int", "none", "list_ok", "nan", "neg", "list_long"],
                                                      STATES_ARG, (0, 1)):
                    calls = [call(f["vk"], f["st"], 0), call(vk, st, skip)]
                    if rng.random() < 0.3:
                        calls.append(call(rng.choice(vks), rng.choice(STATES_ARG), rng.randrange(2)))
                    out.append({"cfg": {"nobj": nobj, "catch": 0, "n": 0, "jobs": 1, "pre": ["R"]}, "rep": rep,
                                "calls": calls, "impl": {"seed": rng.randrange(1000)}})
    return out


# ----------------------------------------------------------------------------------------------------------------
# judging
# ----------------------------------------------------------------------------------------------------------------
def known_symptom(item):
    """Which design-time defect (if any) a rejected run shows.  Keyed on the scenario AND the symptom."""
    scn = item["scn"]
    if item["type"] == "opt":
        fin = item["final"]
        for idx, t in enumerate(fin["trials"]):
            s = scn["script"][idx] if idx < len(scn["script"]) else None
            if s is None or t["state"] != "RUNNING" or (idx < len(scn["cfg"]["pre"]) and scn["cfg"]["pre"][idx] == "R"):
                continue
            if s["saA"] == "raise":
                return SIG_ASK
            if s["o"]["k"] == "ret" and s["o"]["kind"] in F1_KINDS:
                return SIG_F1
            if s["o"]["k"] == "ret" and s["o"]["kind"] == "hostile":
                return SIG_HOSTILE
        if scn["cfg"]["jobs"] > 1 and fin["raised"] == "none":
            logged = {x["n"] - 1 for x in fin["cbA"]}
            for idx, t in enumerate(fin["trials"]):
                s = scn["script"][idx] if idx < len(scn["script"]) else None
                if s is None or idx < len(scn["cfg"]["pre"]) and scn["cfg"]["pre"][idx] != "W":
                    continue
                o = s["o"]
                uncaught = o["k"] == "raise" and (o["kind"] in ("E2", "KI") or (o["kind"] == "E1" and scn["cfg"]["catch"] == 0))
                if t["state"] in ("COMPLETE", "PRUNED", "FAIL") and (
                        (uncaught and t["state"] == "FAIL") or s["saT"] == "raise" or (s["cb"] == "raise" and idx in logged)):
                    return SIG_F12
        return None
    for e in item["events"]:
        if e["pre"]["state"] == "RUNNING" and e["post"]["state"] == "RUNNING" and e["st"] == "None" and e["reply"] != "ok":
            if e["vk"] in F1_KINDS:
                return SIG_F1
            if e["vk"] == "hostile":
                return SIG_HOSTILE
    return None


def describe(item):
    scn = item["scn"]
    if item["type"] == "opt":
        fin = item["final"]
        outs = [f"{s['o']['k']}:{s['o']['kind']}" + ("+stop" if s["o"]["stop"] else "") +
                (f"+rep={s['o']['rep']}" if s["o"]["rep"] != "none" else "") +
                "".join(f"+{k}={s[k]}" for k in ("saA", "saT", "cb") if s[k] != "ok") for s in scn["script"]]
        return (f"optimize(n_trials={scn['cfg']['n']}, n_jobs={scn['cfg']['jobs']}, catch={'(E1,)' if scn['cfg']['catch'] else '()'}) "
                f"on a {scn['cfg']['nobj']}-objective study (pre={scn['cfg']['pre']}, storage={scn['impl'].get('storage')}), "
                f"script by trial number {outs}: afterwards trials={[(t['state'], t['values']) for t in fin['trials']]} "
                f"callbackA saw {[(x['n'] - 1, x['state']) for x in fin['cbA']]} escaped={fin['raised']} {fin.get('raw', '')} "
                f"- not a behaviour of StudyLoop")
    return (f"tell sequence on a {scn['cfg']['nobj']}-objective study (trial initially "
            f"{'WAITING' if scn['cfg']['pre'] == ['W'] else 'RUNNING'}): " +
            "; ".join(f"tell(values:{e['vk']}, state={e['st']}, skip_if_finished={e['skip']}) on {e['pre']['state']}"
                      f"{e['pre']['values']} -> {e['reply']}, trial now {e['post']['state']}{e['post']['values']}"
                      for e in item["events"]) + " - violates TellPropOK")


def judge(ctx, items, label):
    traces = []
    for k, it in enumerate(items):
        tid = k + 1
        traces.append(opt_trace(tid, it["scn"], it["final"]) if it["type"] == "opt" else
                      tell_trace(tid, it["scn"], it["events"]))
    v = tlc.validate("StudyLoopTrace", "StudyLoopTrace", traces, shards=16, timeout=1500)
    ctx.validated(v, label)
    per_sig = {}
    for tid in sorted(v.rejected):
        it = items[tid - 1]
        sig = known_symptom(it)
        f = ctx.match_known(sig) if sig else None
        if f is not None:
            ctx.known_finding(f, describe(it)[:300])
            continue
        k = per_sig[sig] = per_sig.get(sig, 0) + 1
        if k <= (2 if sig else 8):     # a defect class is shown by two runs; unexplained rejections by up to eight
            ctx.violation((f"[{sig}] " if sig else "") + describe(it)[:1800],
                          {"type": it["type"], "scenario": it["scn"], "recorded": it.get("final") or it.get("events"),
                           "signature": sig})
    for sig, k in per_sig.items():
        if k > (2 if sig else 8):
            print(f"[{ctx.pid}] ... {k - (2 if sig else 8)} more rejected runs of class {sig or 'unexplained'} not listed",
                  flush=True)
    seen = set()
    for p in v.prints:
        if p and p[0] == "DRIFT":
            it = items[p[1] - 1]
            e = it["events"][p[2] - 1]
            key = (e["pre"]["state"], e["vk"], e["st"], e["skip"], e["reply"], e["post"]["state"])
            if key not in seen and len(seen) < 40:
                seen.add(key)
                ctx.drift.append(f"tell(values:{e['vk']}, state={e['st']}, skip_if_finished={e['skip']}) on a "
                                 f"{e['pre']['state']} trial replied {e['reply']} and left it {e['post']['state']}: differs "
                                 f"from the documented argument table (finished trials untouched, so not a violation)")
        if p and p[0] == "OTHEREXC" and "otherexc" not in seen:
            seen.add("otherexc")
            it = items[p[1] - 1]
            ctx.drift.append(f"sampler.after_trial raised: {it['final'].get('raw', it['final']['raised'])} escaped optimize "
                             f"instead of the sampler's exception (trials well-formed, so not a violation)")
    return v, traces


def execute(items_in, workdir):
    out = []
    for typ, scn in items_in:
        if typ == "opt":
            out.append({"type": "opt", "scn": scn, "final": run_opt_scenario(scn, workdir)})
        else:
            out.append({"type": "tell", "scn": scn, "events": run_tell_scenario(scn, workdir)})
    return out


def run(ctx):
    ctx.rule = ("scenarios = (configuration, per-trial script of abstract outcomes / sampler / callback behaviour): every "
                "well-formed outcome as a single trial for every (nobj, catch) + TLC -simulate behaviours of StudyLoopMC "
                "(n_jobs 1 and 2) + seeded random scripts of up to 3 trials on in-memory, SQLite and journal storages + "
                "every tell(values, state, skip_if_finished) combination on RUNNING / WAITING / finished trials; each "
                "scenario is played through the real Study.optimize / Study.tell with concrete values from a fixed "
                "table and the recorded study is validated by TLC against StudyLoopTrace; distinct = distinct "
                "(scenario, recorded result) pairs with at least one trial")
    q = ctx.quick
    for cfg in (["StudyLoopMC_q1", "StudyLoopMC_q2"] if q else ["StudyLoopMC_t1", "StudyLoopMC_t2"]):
        r = tlc.require_model("StudyLoopMC", cfg, must_cover=MC_ACTIONS + (["MNotice"] if cfg.endswith("2") else []),
                              timeout=3000)
        ctx.model(r, cfg)
    r = tlc.expect_violation("StudyLoopMC", "StudyLoopMC_f12", "Inv", timeout=600)
    ctx.notes["spec_negative_test"] = ("StudyLoopMC_f12: a Finish that forgets the exception of an in-flight worker "
                                       f"violates {r.violated} ({r.distinct} states)")
    common.use_repo()
    rng = ctx.rng
    workdir = tempfile.mkdtemp(prefix="c02-", dir=tlc.scratch())
    plan = [("opt", s) for s in systematic_single(rng)]
    # the two design-time scenarios in their smallest form: F12 (both in-flight trials raise an exception that is not
    # in catch, n_jobs=2, n_trials=2) and a sampler that raises while study.ask() builds the Trial object
    e2 = {"k": "raise", "kind": "E2", "stop": 0, "rep": "none"}
    plan.append(("opt", {"cfg": {"nobj": 1, "catch": 0, "n": 2, "jobs": 2, "pre": []},
                         "script": [entry(e2, rng) for _ in range(3)], "impl": rand_impl(rng)}))
    for var in (0, 1):
        cfg = {"nobj": 1, "catch": 0, "n": 1, "jobs": 1, "pre": []}
        plan.append(("opt", {"cfg": cfg, "script": pad_script([dict(entry(calm(rng, 1), rng, saA="raise"), var=var)], cfg, rng),
                             "impl": rand_impl(rng)}))
    # n_jobs=2: one trial fails with an exception that propagates (or Ctrl-C) while its sibling is still inside the objective:
    # when optimize() raises, the sibling must already be finished (no trial left RUNNING, its callback run)
    for kind in ("E2", "KI", "E2", "E1"):
        for slow_first in (0, 1):
            bad = {"k": "raise", "kind": kind, "stop": 0, "rep": "none"}
            cfg = {"nobj": 1, "catch": 1 if kind == "E1" else 0, "n": 2, "jobs": 2, "pre": []}
            sc = [entry(bad, rng), dict(entry(calm(rng, 1), rng), slow=1)]
            if slow_first:
                sc.reverse()
            plan.append(("opt", {"cfg": cfg, "script": pad_script(sc, cfg, rng), "impl": rand_impl(rng)}))
    plan += [("opt", s) for s in scenarios_from_tlc(ctx, "StudyLoopMC_sim1", 150 if q else 1500, 40, rng)]
    plan += [("opt", s) for s in scenarios_from_tlc(ctx, "StudyLoopMC_sim2", 40 if q else 400, 60, rng)]
    plan += [("opt", s) for s in random_scenarios(rng, 700 if q else 8000)]
    plan += [("opt", s) for s in random_scenarios(rng, 20 if q else 400, storage="sqlite")]
    plan += [("opt", s) for s in random_scenarios(rng, 20 if q else 400, storage="journal")]
    plan += [("opt", s) for s in random_scenarios(rng, 40 if q else 600, jobs=2, defect_share=0.0)]
    tells = tell_scenarios(rng, q)
    plan += [("tell", s) for s in tells]
    for storage in ("sqlite", "journal"):     # a sample of the tell sequences on the persistent backends
        for s in rng.sample([t for t in tells if len(t["calls"]) > 1], 15 if q else 300):
            plan.append(("tell", dict(s, impl=dict(s["impl"], storage=storage))))
    # every value kind with an explicit or implicit COMPLETE on the serialising backend (journal: JSON), a sample on SQLite
    single = [t for t in tells if len(t["calls"]) == 1 and t["cfg"]["pre"] == ["R"] and t["calls"][0]["st"] in ("None", "COMPLETE")
              and t["calls"][0]["skip"] == 0]
    for s in single:
        plan.append(("tell", dict(s, impl=dict(s["impl"], storage="journal"))))
    for s in rng.sample(single, min(len(single), 20 if q else 200)):
        plan.append(("tell", dict(s, impl=dict(s["impl"], storage="sqlite"))))
    items = execute(plan, workdir)
    for it in items:
        ctx.count_case([it["scn"], it.get("final") or it.get("events")],
                       nontrivial=(it["type"] == "tell" or len(it["final"]["trials"]) > 0))
    v, traces = judge(ctx, items, "optimize + tell scenarios")
    per = {}
    for it, t in zip(items, traces):
        k = it["type"] + ":" + str(it["scn"]["impl"].get("storage", "inmemory")) + f":jobs={it['scn']['cfg']['jobs']}"
        a = per.setdefault(k, [0, 0])
        a[0] += 1
        a[1] += t["tid"] in v.accepted
    ctx.notes["per_class"] = {k: {"runs": a, "accepted": b} for k, (a, b) in sorted(per.items())}
    for it in items[:: max(1, len(items) // 5)][:5]:
        ctx.sample({"type": it["type"], "cfg": it["scn"]["cfg"], "recorded": it.get("final") or it.get("events")})

    # binding self-tests: a changed final state / a dropped callback / a swallowed exception must be rejected
    def pick(pred):
        for it, t in zip(items, traces):
            if t["tid"] in v.accepted and it["type"] == "opt" and pred(it):
                return {k: t[k] for k in ("tid", "type", "cfg", "script", "ev")}
        raise tlc.MachineryError("no accepted trace for a binding self-test")

    def flip_state(t):
        tr = t["ev"][0]["trials"][-1]
        tr["state"], tr["values"] = ("FAIL", []) if tr["state"] == "COMPLETE" else ("COMPLETE", ["1.5"])
        for x in t["ev"][0]["cbA"] + t["ev"][0]["cbB"]:
            if x["n"] == len(t["ev"][0]["trials"]):
                x["state"], x["values"] = tr["state"], tr["values"]

    def drop_cb(t):
        t["ev"][0]["cbA"].pop()

    def swallow(t):
        t["ev"][0]["raised"] = "none"

    one = lambda it: it["scn"]["cfg"]["jobs"] == 1 and len(it["final"]["trials"]) >= 1  # noqa
    ctx.binding_selftest("StudyLoopTrace", "StudyLoopTrace", pick(lambda it: one(it) and it["final"]["cbA"]), flip_state,
                         "last trial's state flipped")
    ctx.binding_selftest("StudyLoopTrace", "StudyLoopTrace", pick(lambda it: one(it) and it["final"]["cbA"]), drop_cb,
                         "callback record dropped")
    ctx.binding_selftest("StudyLoopTrace", "StudyLoopTrace", pick(lambda it: one(it) and it["final"]["raised"] == "E2"),
                         swallow, "escaped exception swallowed")
    ctx.assumptions += [
        "value classes are those of the table in harness/c02.py (several concrete Python values per class); a str/bytes "
        "value is generated only where reading it as one value or as a sequence of values gives the same floats "
        "(b'5' admits 5.0 and 53.0)",
        "exceptions other than Exception subclasses, KeyboardInterrupt and TrialPruned (SystemExit, GeneratorExit) are "
        "outside the property and not generated; timeout= and heartbeat are not exercised",
        "n_jobs=2 runs are free-running (no barriers): TLC accepts a run iff SOME interleaving of the two workers "
        "yields the recorded study",
        "RDB means SQLite; journal means JournalFileBackend",
    ]


def replay(ctx, data):
    common.use_repo()
    workdir = tempfile.mkdtemp(prefix="c02-", dir=tlc.scratch())
    items = execute([(data["type"], data["scenario"])], workdir)
    judge(ctx, items, "replay")
