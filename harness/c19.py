"""C19 — stale-trial recovery fails and retries each dead trial at most once.

Specs: Heartbeat/HeartbeatMC (algorithm level: stale query, compare-and-set FAIL, callback, retry chains, crash;
atomic instance passes, SQLite instance must fail = K1), HeartbeatTrace (property-level monitor).
"""
from __future__ import annotations

import concurrent.futures as cf
import json
import os
import random
import shutil
import tempfile

from . import common, storage_driver as sd, tlc
from . import thread_sched as ts

K1_SIG = "sqlite:compare-and-set-not-atomic-across-connections"


class Killed(BaseException):
    """process death of a sweeping worker: unwinds the thread; the session's close() rolls the open transaction back,
    which is what the database does when a client's connection disappears"""


class Tok:
    """distinct values -> distinct small integers (projection table of one trace)"""

    def __init__(self):
        self.t = {}

    def __call__(self, obj):
        k = json.dumps(obj, sort_keys=True, default=str)
        return self.t.setdefault(k, len(self.t) + 1)


def make_storage(url, cb, timeout0=False):
    from optuna.storages import RDBStorage

    kw = {"engine_kwargs": {"connect_args": {"timeout": 0}}} if timeout0 else {}
    return RDBStorage(url, heartbeat_interval=60, grace_period=120, failed_trial_callback=cb,
                      skip_compatibility_check=True, skip_table_creation=True, **kw)


def set_beat(storage, trial_id, beat):
    import sqlalchemy

    with storage.engine.begin() as conn:
        conn.execute(sqlalchemy.text("DELETE FROM trial_heartbeats WHERE trial_id = :t"), {"t": trial_id})
        if beat != "none":
            when = "-1 day" if beat == "stale" else "+1 hour"
            conn.execute(sqlalchemy.text(f"INSERT INTO trial_heartbeats (trial_id, heartbeat) VALUES (:t, datetime('now', '{when}'))"),
                         {"t": trial_id})


def instrument(storage, w, log, num_of):
    """log every FAIL request that answered True (the storage call is the observation point)"""
    from optuna.trial import TrialState

    real = storage.set_trial_state_values

    def wrapped(trial_id, state, values=None):
        ret = real(trial_id, state, values)
        if state == TrialState.FAIL and ret:
            log({"e": "fail", "w": w, "n": num_of.get(trial_id, -1)})
        return ret
    storage.set_trial_state_values = wrapped


def execute(seed, mode, workdir):
    common.use_repo()
    import optuna
    from optuna.storages import RetryFailedTrialCallback, fail_stale_trials

    import logging

    logging.getLogger("sqlalchemy.pool").setLevel(logging.CRITICAL)     # a killed worker's closed connection is expected
    rng = random.Random(seed)
    max_retry = rng.choice([-1, 0, 1, 1, 2])
    inherit = rng.randint(0, 1)
    tok = Tok()
    path = tempfile.mkdtemp(prefix="hb-", dir=workdir)
    first = sd.fresh_rdb(path, workdir)
    first.remove_session()
    first.engine.dispose()
    url = f"sqlite:///{path}/db.sqlite3"
    ev = []
    sched = ts.Scheduler(()) if mode == "conc" else None
    log = ev.append
    nw = 2 if mode == "conc" else rng.choice([1, 2])
    storages = []
    num_of = {}          # trial id -> number, maintained by the main thread for every trial that can be swept

    def mk_cb(w):
        inner = RetryFailedTrialCallback(max_retry=None if max_retry == -1 else max_retry, inherit_intermediate_values=bool(inherit))

        def cb(study, trial):
            lg = (sched.event if (sched and sched.current_worker()) else ev.append)
            lg({"e": "callback", "w": w, "n": trial.number})
            inner(study, trial)
            lg({"e": "callback_done", "w": w, "n": trial.number})
        return cb
    for w in range(1, nw + 1):
        s = make_storage(url, mk_cb(w), timeout0=(mode == "conc"))
        instrument(s, w, lambda e: (sched.event if (sched and sched.current_worker()) else ev.append)(e), num_of)
        if mode == "conc":
            import sqlalchemy

            def hook(*a, **k):
                wk = sched.current_worker()
                if wk is not None and getattr(wk, "dying", False):
                    raise Killed()            # a dead process executes nothing more
                if wk is not None:
                    wk.lines += 1
                    sched.yield_point(wk, "sql")
                    if getattr(wk, "kill", False):
                        wk.dying = True
                        try:        # the operating system closes a dead process's connection: SQLite rolls back
                            a[0].connection.dbapi_connection.close()
                        except Exception:
                            pass
                        raise Killed()
            for name in ("before_cursor_execute", "commit", "rollback"):
                sqlalchemy.event.listen(s.engine, name, hook)
        storages.append(s)
    admin = make_storage(url, None)
    try:
        common.decoy(admin, seed % 3)
        study0 = optuna.create_study(storage=admin, study_name="hb", sampler=optuna.samplers.RandomSampler(seed=seed))

        def pk(ft):
            return tok([sorted(ft.params.items()), sorted((k, v) for k, v in ft.user_attrs.items())])

        def describe(n):
            ft = admin.get_trial(admin.get_trial_id_from_study_id_trial_number(study0._study_id, n))
            return ft

        beats = {}
        patterns = [("RUNNING", "stale"), ("RUNNING", "stale"), ("RUNNING", "fresh"), ("RUNNING", "none"), ("COMPLETE", "stale"),
                    ("COMPLETE", "none")]
        rng.shuffle(patterns)
        for state, beat in patterns[: rng.randint(3, 6)]:
            t = study0.ask()
            t.suggest_int("x", 0, 9)
            t.set_user_attr("u", rng.randint(0, 3))
            t.report(float(rng.randint(0, 5)), 0)
            if state == "COMPLETE":
                study0.tell(t, 1.0)
            set_beat(admin, t._trial_id, beat)
            num_of[t._trial_id] = t.number
            beats[t.number] = beat
            ft = describe(t.number)
            log({"e": "trial", "n": t.number, "state": state, "beat": beat, "hist": [], "pk": pk(ft),
                 "pkiv": tok(sorted(ft.intermediate_values.items()))})

        def sweep(w):
            st = storages[w - 1]
            study = optuna.load_study(study_name="hb", storage=st)
            if rng.random() < 0.3 and mode == "seq":
                study.optimize(lambda tr: float(tr.suggest_int("x", 0, 9)), n_trials=1)   # the sweep runs at trial start
            else:
                fail_stale_trials(study)

        def environment():
            """a queued retry is taken by a worker which dies again (or lives), as the property's environment does"""
            from optuna.trial import TrialState

            for ft in study0.get_trials(deepcopy=False, states=(TrialState.WAITING,)):
                if rng.random() < 0.7:
                    tr = study0.ask()
                    beat = rng.choice(["stale", "stale", "fresh", "none"])
                    set_beat(admin, tr._trial_id, beat)
                    num_of[tr._trial_id] = tr.number
                    f2 = describe(tr.number)
                    log({"e": "trial", "n": tr.number, "state": "RUNNING", "beat": beat,
                         "hist": list(f2.system_attrs.get("retry_history", [])), "pk": pk(f2),
                         "pkiv": tok(sorted(f2.intermediate_values.items()))})
        deadlock = 0
        if mode == "seq":
            for _ in range(rng.randint(2, 4)):
                sweep(rng.randint(1, nw))
                environment()
        else:
            from . import c03

            crash_w = rng.choice([0, 0, 1, 2])
            crash_at = rng.randint(3, 25)

            def mk(w):
                def body(worker):
                    for _ in range(rng.choice([1, 2])):
                        try:
                            sweep(w)
                        except Killed:
                            return
                        except Exception as e:  # noqa  (database is locked -> StorageInternalError: the sweep aborts)
                            if getattr(worker, "kill", False):
                                return
                            sched.event({"e": "aborted", "w": w, "err": type(e).__name__})
                return body
            for w in range(1, nw + 1):
                sched.add(mk(w))
            base = c03.random_schedule(rng.getrandbits(30), rng.choice([0.2, 0.5]))(sched)

            def choose(r, step):
                if crash_w and step == crash_at:
                    for wk in sched.workers:
                        if wk.wid == crash_w and not wk.finished:
                            wk.kill = True          # it dies at its next SQL statement boundary
                return base(r, step)
            info = sched.run(choose)
            deadlock = int(info["deadlock"])
            ev += [e for e in sched.log if e["e"] != "aborted"]
            environment()
            if not getattr(sched.workers[0], "kill", False):
                fail_stale_trials(optuna.load_study(study_name="hb", storage=storages[0]))
        fin = []
        for ft in sorted(admin.get_all_trials(study0._study_id), key=lambda t: t.number):
            fin.append({"n": ft.number, "state": ft.state.name, "hist": list(ft.system_attrs.get("retry_history", [])),
                        "failed": ft.system_attrs.get("failed_trial", -1), "pk": pk(ft),
                        "pkiv": tok(sorted(ft.intermediate_values.items()))})
        ev.append({"e": "final", "trials": fin})
        return {"cfg": {"max_retry": max_retry, "inherit": inherit}, "ev": ev, "mode": mode, "deadlock": deadlock,
                "replay": {"mode": mode, "seed": seed}}
    finally:
        for s in storages + [admin]:
            try:
                s.remove_session()
                s.engine.dispose()
            except Exception:
                pass


def _task(args):
    mode, seeds = args
    workdir = tempfile.mkdtemp(prefix="c19-", dir=os.environ.get("VERIF_SCRATCH_BASE", "/var/tmp"))
    try:
        return [execute(s, mode, workdir) for s in seeds]
    finally:
        shutil.rmtree(workdir, ignore_errors=True)


def judge(ctx, traces, label):
    for i, t in enumerate(traces):
        t["tid"] = i + 1
        ctx.count_case([t["mode"], t["cfg"]] + [[e["e"], e.get("w"), e.get("n"), e.get("beat")] for e in t["ev"] if e["e"] != "final"],
                       nontrivial=any(e["e"] == "callback" for e in t["ev"]))
    v = tlc.validate("HeartbeatTrace", "HeartbeatTrace", [{"tid": t["tid"], "cfg": t["cfg"], "ev": t["ev"]} for t in traces],
                     shards=16, timeout=2400)
    ctx.validated(v, label)
    k1 = 0
    for tid in sorted(v.rejected):
        t = traces[tid - 1]
        i = v.rejected[tid]["reached"]
        ev = t["ev"][i - 1] if 1 <= i <= len(t["ev"]) else None
        double = ev is not None and ev["e"] == "fail" and any(e["e"] == "fail" and e["n"] == ev["n"] for e in t["ev"][:i - 1])
        f = ctx.match_known(K1_SIG) if (t["mode"] == "conc" and double) else None
        if f is not None:
            k1 += 1
            ctx.known_finding(f, f"a stale trial was failed by two SQLite connections, seed={t['replay']['seed']}")
            continue
        short = ev if ev and ev["e"] != "final" else {"e": "final"}
        ctx.violation(f"stale-trial recovery ({t['mode']}, max_retry={t['cfg']['max_retry']}, inherit={t['cfg']['inherit']}): "
                      f"event #{i} {json.dumps(short)[:200]} — failed/called back more than once, a live or finished trial touched, "
                      f"or a wrong / missing / surplus retry", {"replay": t["replay"], "events": t["ev"]})
        if len(ctx.violations) >= 6:
            break
    ctx.notes["k1_schedules"] = k1
    return v


def run(ctx):
    ctx.rule = ("RDBStorage (SQLite) with heartbeats and RetryFailedTrialCallback(max_retry in {None,0,1,2}, inherit 0/1): "
                "trials in every state/heartbeat pattern (heartbeat rows written directly: no sleeping), (a) 1-2 workers "
                "sweeping in turn (fail_stale_trials and the sweep inside optimize) while queued retries are taken and die "
                "again, (b) two workers sweeping concurrently, interleaved per SQL statement, one possibly dying mid-sweep; "
                "every execution validated by TLC against HeartbeatTrace; distinct = distinct event sequences with a callback")
    r = tlc.require_model("HeartbeatMC", "HeartbeatMC_q",
                          must_cover=["ReadStale", "FailCAS", "StartCallbacks", "Callback", "EndSweep", "RetryDies", "Crash"],
                          timeout=3000)
    ctx.model(r, "HeartbeatMC (atomic compare-and-set)")
    r = tlc.expect_violation("HeartbeatMC", "HeartbeatMC_sqlite", "FailedByAtMostOne", timeout=600)
    ctx.model(r, "HeartbeatMC_sqlite (SELECT and UPDATE separate: expected to violate FailedByAtMostOne, K1)")
    n_seq, n_conc = (96, 96) if ctx.quick else (1200, 1200)
    tasks = [("seq", [ctx.seed * 100000 + i for i in range(n_seq)][k::8]) for k in range(8)]
    tasks += [("conc", [ctx.seed * 100000 + 50000 + i for i in range(n_conc)][k::8]) for k in range(8)]
    traces = []
    with cf.ProcessPoolExecutor(max_workers=16) as ex:
        for res in ex.map(_task, tasks):
            traces += res
    ctx.notes["deadlocks"] = sum(t["deadlock"] for t in traces)
    v = judge(ctx, traces, "sweeps on SQLite with controlled heartbeats")
    for t in traces[:: max(1, len(traces) // 3)][:3]:
        ctx.sample({"cfg": t["cfg"], "events": t["ev"][:14]})
    if not ctx.violations:
        good = next(t for t in traces if t["tid"] in v.accepted and any(e["e"] == "callback" for e in t["ev"]))

        def twice(t):
            c = next(e for e in t["ev"] if e["e"] == "callback")
            t["ev"].insert(t["ev"].index(c) + 1, dict(c))

        def wrong_hist(t):
            for tr in t["ev"][-1]["trials"]:
                if tr["hist"]:
                    tr["hist"] = tr["hist"] + [tr["hist"][-1]]
                    return
            t["ev"][-1]["trials"][0]["state"] = "WAITING"
        ctx.binding_selftest("HeartbeatTrace", "HeartbeatTrace", {"tid": 1, "cfg": good["cfg"], "ev": good["ev"]}, twice,
                             "callback invoked twice")
        ctx.binding_selftest("HeartbeatTrace", "HeartbeatTrace", {"tid": 1, "cfg": good["cfg"], "ev": good["ev"]}, wrong_hist,
                             "retry history altered")
    ctx.assumptions += ["RDB = SQLite (the only RDB available); staleness is set by writing the heartbeat rows",
                        "worker death = the worker is never scheduled again",
                        "known finding K1 (double FAIL across SQLite connections) matched by shape on the concurrent family"]


def replay(ctx, data):
    r = data["replay"]
    traces = _task((r["mode"], [r["seed"]]))
    judge(ctx, traces, "replay")
