"""C19 — stale-trial recovery fails and retries each dead trial at most once.

Specs: Heartbeat/HeartbeatMC (algorithm level: stale query, compare-and-set FAIL, callback, retry chains, crash, late
writes of a stale trial's own worker; atomic instance passes, SQLite instance must fail = K1), HeartbeatTrace
(property-level monitor).
"""
from __future__ import annotations

import concurrent.futures as cf
import json
import os
import random
import shutil
import tempfile

from . import common, storage_driver as sd, tlc
from . import thread_sched as ts

K1_SIG = "sqlite:compare-and-set-not-atomic-across-connections"


class Killed(BaseException):
    """process death of a sweeping worker: unwinds the thread; the session's close() rolls the open transaction back,
    which is what the database does when a client's connection disappears"""


class Tok:
    """distinct values -> distinct small integers (projection table of one trace)"""

    def __init__(self):
        self.t = {}

    def __call__(self, obj):
        k = json.dumps(obj, sort_keys=True, default=str)
        return self.t.setdefault(k, len(self.t) + 1)


def make_storage(url, cb, timeout0=False, default_grace=False):
    from optuna.storages import RDBStorage

    kw = {"engine_kwargs": {"connect_args": {"timeout": 0}}} if timeout0 else {}
    # default_grace: no grace period given - the documented default is twice the heartbeat interval (= GRACE as well)
    return RDBStorage(url, heartbeat_interval=60, grace_period=None if default_grace else 120, failed_trial_callback=cb,
                      skip_compatibility_check=True, skip_table_creation=True, **kw)


def set_beat(storage, trial_id, beat):
    import sqlalchemy

    if beat == "none":
        return None          # a trial that never recorded a heartbeat has no row: nothing is written (and nothing cleaned up)
    first = beat == "fresh" and trial_id % 2 == 0        # an alive worker's FIRST heartbeat (insert path), else a later one
    with storage.engine.begin() as conn:
        conn.execute(sqlalchemy.text("DELETE FROM trial_heartbeats WHERE trial_id = :t"), {"t": trial_id})
        if beat != "none" and not first:
            conn.execute(sqlalchemy.text("INSERT INTO trial_heartbeats (trial_id, heartbeat) VALUES (:t, datetime('now', '-1 day'))"),
                         {"t": trial_id})
    if beat == "fresh":
        # an alive worker's NEXT heartbeat, through the real code (update path of record_heartbeat): the row written a day ago
        # becomes fresh.  Heartbeat rows are created in an order unrelated to trial creation (and not for every trial).
        try:
            storage.record_heartbeat(trial_id)
        except Exception as e:  # the class is the observation (no action of the spec lets a heartbeat fail)
            return type(e).__name__ + ":" + str(e)[:80]
        finally:
            storage.remove_session()
    return None


GRACE = 120


def freeze_clock(storage, clock):
    """the database clock as the real code sees it: every CURRENT_TIMESTAMP in a statement text (func.now() of the sweep and of
    the update path of record_heartbeat) is answered with clock['now'] - one controlled clock, at one-second resolution"""
    import sqlalchemy

    def freeze(conn, cursor, statement, parameters, context, executemany):
        if "CURRENT_TIMESTAMP" in statement:
            statement = statement.replace("CURRENT_TIMESTAMP", "'%s'" % clock["now"].strftime("%Y-%m-%d %H:%M:%S"))
        return statement, parameters
    sqlalchemy.event.listen(storage.engine, "before_cursor_execute", freeze, retval=True)


def set_beat_age(storage, clock, trial_id, age, first):
    """a heartbeat recorded exactly `age` seconds before the (frozen) time of the sweeps, through the real record_heartbeat:
    first = the insert path (the row's value is the column default, 'YYYY-MM-DD HH:MM:SS': moved to the wanted second in the
    same format), else the update path (the real code reads the frozen clock and writes the value itself)"""
    import datetime

    import sqlalchemy

    t0 = clock["now"]
    clock["now"] = t0 - datetime.timedelta(seconds=age)
    try:
        with storage.engine.begin() as conn:
            conn.execute(sqlalchemy.text("DELETE FROM trial_heartbeats WHERE trial_id = :t"), {"t": trial_id})
            if not first:
                conn.execute(sqlalchemy.text("INSERT INTO trial_heartbeats (trial_id, heartbeat) VALUES (:t, datetime('now', '-1 day'))"),
                             {"t": trial_id})
        try:
            storage.record_heartbeat(trial_id)
        except Exception as e:
            return type(e).__name__ + ":" + str(e)[:80]
        finally:
            storage.remove_session()
        if first:
            with storage.engine.begin() as conn:
                conn.execute(sqlalchemy.text("UPDATE trial_heartbeats SET heartbeat = :h WHERE trial_id = :t"),
                             {"t": trial_id, "h": clock["now"].strftime("%Y-%m-%d %H:%M:%S")})
    finally:
        clock["now"] = t0
    return None


def instrument(storage, w, log, num_of, starts=False):
    """log every FAIL request that answered True (the storage call is the observation point); starts: also its start"""
    from optuna.trial import TrialState

    real = storage.set_trial_state_values

    def wrapped(trial_id, state, values=None):
        if starts and state == TrialState.FAIL:
            log({"e": "fail_start", "w": w, "n": num_of.get(trial_id, -1)})
        ret = real(trial_id, state, values)
        if state == TrialState.FAIL and ret:
            log({"e": "fail", "w": w, "n": num_of.get(trial_id, -1)})
        return ret
    storage.set_trial_state_values = wrapped


def execute(seed, mode, workdir):
    common.use_repo()
    import optuna
    from optuna.storages import RetryFailedTrialCallback, fail_stale_trials

    import logging

    logging.getLogger("sqlalchemy.pool").setLevel(logging.CRITICAL)     # a killed worker's closed connection is expected
    rng = random.Random(seed)
    # the worker's local time zone is not the database's (SQLite's clock is UTC): staleness must be decided on ONE clock
    import time as _time

    os.environ["TZ"] = ["UTC", "America/Los_Angeles", "Asia/Tokyo"][seed % 3]
    _time.tzset()
    max_retry = rng.choice([-1, 0, 1, 1, 2])
    inherit = rng.randint(0, 1)
    tok = Tok()
    path = tempfile.mkdtemp(prefix="hb-", dir=workdir)
    first = sd.fresh_rdb(path, workdir)
    first.remove_session()
    first.engine.dispose()
    url = f"sqlite:///{path}/db.sqlite3"
    ev = []
    sched = ts.Scheduler(()) if mode == "conc" else None
    log = ev.append
    nw = 2 if mode == "conc" else rng.choice([1, 2])
    storages = []
    num_of = {}          # trial id -> number, maintained by the main thread for every trial that can be swept

    def mk_cb(w):
        inner = RetryFailedTrialCallback(max_retry=None if max_retry == -1 else max_retry, inherit_intermediate_values=bool(inherit))

        def cb(study, trial):
            lg = (sched.event if (sched and sched.current_worker()) else ev.append)
            lg({"e": "callback", "w": w, "n": trial.number})
            inner(study, trial)
            lg({"e": "callback_done", "w": w, "n": trial.number})
        return cb
    for w in range(1, nw + 1):
        s = make_storage(url, mk_cb(w), timeout0=(mode == "conc"), default_grace=(mode == "clock" and seed % 2 == 1))
        instrument(s, w, lambda e: (sched.event if (sched and sched.current_worker()) else ev.append)(e), num_of)
        if mode == "conc":
            import sqlalchemy

            def hook(*a, **k):
                wk = sched.current_worker()
                if wk is not None and getattr(wk, "dying", False):
                    raise Killed()            # a dead process executes nothing more
                if wk is not None:
                    wk.lines += 1
                    sched.yield_point(wk, "sql")
                    if getattr(wk, "kill", False):
                        wk.dying = True
                        try:        # the operating system closes a dead process's connection: SQLite rolls back
                            a[0].connection.dbapi_connection.close()
                        except Exception:
                            pass
                        raise Killed()
            for name in ("before_cursor_execute", "commit", "rollback"):
                sqlalchemy.event.listen(s.engine, name, hook)
        storages.append(s)
    admin = make_storage(url, None)
    seqlike = mode in ("seq", "clock")
    clock = None
    if mode == "clock":
        import datetime

        clock = {"now": datetime.datetime.utcnow().replace(microsecond=0)}
        for s in storages + [admin]:
            freeze_clock(s, clock)

    def put_beat(trial_id, beat):
        """-> (error text or None, the fields of the event that describe the heartbeat)"""
        if mode != "clock" or beat == "none":
            return set_beat(admin, trial_id, beat), {"beat": beat}
        age = rng.choice([GRACE + 1, GRACE + 1, GRACE + 3600] if beat == "stale" else [0, GRACE - 1, GRACE, GRACE])
        return set_beat_age(admin, clock, trial_id, age, rng.random() < 0.5), {"beat": "aged", "age": age, "grace": GRACE}
    try:
        common.decoy(admin, seed % 3)
        if seed % 2 == 0:
            # a study whose trials had heartbeats is deleted before the study under test exists: SQLite hands the freed trial
            # ids out again (finding K2), and whatever delete_study left behind would now belong to the new trials
            gone = optuna.create_study(storage=admin, study_name="gone")
            for _ in range(3):
                set_beat(admin, gone.ask()._trial_id, "stale")
            optuna.delete_study(study_name="gone", storage=admin)
        study0 = optuna.create_study(storage=admin, study_name="hb", sampler=optuna.samplers.RandomSampler(seed=seed))

        def pk(ft):
            return tok([sorted(ft.params.items()), sorted((k, v) for k, v in ft.user_attrs.items())])

        def describe(n):
            ft = admin.get_trial(admin.get_trial_id_from_study_id_trial_number(study0._study_id, n))
            return ft

        beats = {}
        patterns = [("RUNNING", "stale"), ("RUNNING", "stale"), ("RUNNING", "fresh"), ("RUNNING", "none"), ("COMPLETE", "stale"),
                    ("COMPLETE", "none")]
        rng.shuffle(patterns)
        for state, beat in patterns[: rng.randint(3, 6)]:
            t = study0.ask()
            t.suggest_int("x", 0, 9)
            t.set_user_attr("u", rng.randint(0, 3))
            t.report(float(rng.randint(0, 5)), 0)
            if state == "COMPLETE":
                study0.tell(t, 1.0)
            err, bf = put_beat(t._trial_id, beat)
            if err:
                log({"e": "heartbeat_failed", "n": t.number, "err": err})
            num_of[t._trial_id] = t.number
            beats[t.number] = beat
            ft = describe(t.number)
            log({"e": "trial", "n": t.number, "state": state, **bf, "hist": [], "pk": pk(ft),
                 "pkiv": tok(sorted(ft.intermediate_values.items()))})

        def sweep(w):
            st = storages[w - 1]
            study = optuna.load_study(study_name="hb", storage=st)
            if rng.random() < 0.3 and seqlike:
                study.optimize(lambda tr: float(tr.suggest_int("x", 0, 9)), n_trials=1)   # the sweep runs at trial start
            else:
                fail_stale_trials(study)

        def environment():
            """a queued retry is taken by a worker which dies again (or lives), as the property's environment does"""
            from optuna.trial import TrialState

            for ft in study0.get_trials(deepcopy=False, states=(TrialState.WAITING,)):
                if rng.random() < 0.7:
                    tr = study0.ask()
                    beat = rng.choice(["stale", "stale", "fresh", "none"])
                    err, bf = put_beat(tr._trial_id, beat)
                    if err:
                        log({"e": "heartbeat_failed", "n": tr.number, "err": err})
                    num_of[tr._trial_id] = tr.number
                    f2 = describe(tr.number)
                    log({"e": "trial", "n": tr.number, "state": "RUNNING", **bf,
                         "hist": list(f2.system_attrs.get("retry_history", [])), "pk": pk(f2),
                         "pkiv": tok(sorted(f2.intermediate_values.items()))})
        deadlock = 0
        if seqlike:
            for _ in range(rng.randint(2, 4)):
                sweep(rng.randint(1, nw))
                environment()
        else:
            from . import c03

            crash_w = rng.choice([0, 0, 1, 2])
            crash_at = rng.randint(3, 25)

            def mk(w):
                def body(worker):
                    for _ in range(rng.choice([1, 2])):
                        try:
                            sweep(w)
                        except Killed:
                            return
                        except Exception as e:  # noqa  (database is locked -> StorageInternalError: the sweep aborts)
                            if getattr(worker, "kill", False):
                                return
                            sched.event({"e": "aborted", "w": w, "err": type(e).__name__})
                return body
            for w in range(1, nw + 1):
                sched.add(mk(w))
            base = c03.random_schedule(rng.getrandbits(30), rng.choice([0.2, 0.5]))(sched)

            def choose(r, step):
                if crash_w and step == crash_at:
                    for wk in sched.workers:
                        if wk.wid == crash_w and not wk.finished:
                            wk.kill = True          # it dies at its next SQL statement boundary
                return base(r, step)
            info = sched.run(choose)
            deadlock = int(info["deadlock"])
            ev += [e for e in sched.log if e["e"] != "aborted"]
            environment()
            if not getattr(sched.workers[0], "kill", False):
                fail_stale_trials(optuna.load_study(study_name="hb", storage=storages[0]))
        fin = []
        for ft in sorted(admin.get_all_trials(study0._study_id), key=lambda t: t.number):
            fin.append({"n": ft.number, "state": ft.state.name, "hist": list(ft.system_attrs.get("retry_history", [])),
                        "failed": ft.system_attrs.get("failed_trial", -1), "pk": pk(ft),
                        "pkiv": tok(sorted(ft.intermediate_values.items()))})
        ev.append({"e": "final", "trials": fin})
        return {"cfg": {"max_retry": max_retry, "inherit": inherit}, "ev": ev, "mode": mode, "deadlock": deadlock,
                "replay": {"mode": mode, "seed": seed}}
    finally:
        for s in storages + [admin]:
            try:
                s.remove_session()
                s.engine.dispose()
            except Exception:
                pass


ZOMBIE_FILES = ("optuna/storages/_heartbeat.py", "optuna/storages/_callbacks.py")


def zombie_schedule(i, j):
    """the sweeper (worker 1) runs i steps, the zombie (worker 2) j steps, the sweeper to its end, the zombie to its end"""
    def factory(sched):
        def choose(r, step):
            s = [w for w in r if w.wid == 1]
            z = [w for w in r if w.wid == 2]
            if step < i and s:
                return s[0]
            if step < i + j and z:
                return z[0]
            return s[0] if s else r[0]
        return choose
    return factory


def execute_zombie(seed, sched_spec, workdir):
    """One stale RUNNING trial whose worker is slow, not dead: it goes on writing to its trial (suggest, set_user_attr,
    report) through its own connection while a sweeper (another connection) runs fail_stale_trials.  The sweeper is
    preemptible at every source line of _heartbeat.py / _callbacks.py and at every SQL statement / commit of its
    connection; the zombie at every SQL statement / commit.  sched_spec: ("ij", i, j) or ("random", seed, switch)."""
    common.use_repo()
    import optuna
    from optuna.distributions import distribution_to_json
    from optuna.exceptions import StorageInternalError, UpdateFinishedTrialError
    from optuna.storages import RetryFailedTrialCallback, fail_stale_trials

    import logging
    import sqlalchemy

    from . import c03

    logging.getLogger("sqlalchemy.pool").setLevel(logging.CRITICAL)
    rng = random.Random(seed)
    max_retry = rng.choice([-1, 1, 2])
    inherit = rng.randint(0, 1)
    layout = rng.choice(["Z", "ZD", "DZ", "DZ", "ZD"])          # D = a stale trial whose worker is really dead
    pool = [("p", "y"), ("p", "z"), ("a", "b"), ("a", "u"), ("a", "c"), ("i", "1"), ("i", "2")]      # ("a","u") overwrites
    program = rng.sample(pool, rng.choice([2, 3, 3, 4]))
    tok = Tok()
    path = tempfile.mkdtemp(prefix="hbz-", dir=workdir)
    first = sd.fresh_rdb(path, workdir)
    first.remove_session()
    first.engine.dispose()
    url = f"sqlite:///{path}/db.sqlite3"
    ev = []
    sched = ts.Scheduler(ZOMBIE_FILES)
    num_of = {}

    def log(e):
        (sched.event if sched.current_worker() else ev.append)(e)

    def mk_cb(w):
        inner = RetryFailedTrialCallback(max_retry=None if max_retry == -1 else max_retry, inherit_intermediate_values=bool(inherit))

        def cb(study, trial):
            log({"e": "callback", "w": w, "n": trial.number})
            inner(study, trial)
            log({"e": "callback_done", "w": w, "n": trial.number})
        return cb

    def hook(*a, **k):
        wk = sched.current_worker()
        if wk is not None:
            wk.lines += 1
            sched.yield_point(wk, "sql")
    storages = []
    for w in (1, 2):
        s = make_storage(url, mk_cb(w), timeout0=True)
        instrument(s, w, log, num_of, starts=True)
        for name in ("before_cursor_execute", "commit", "rollback"):
            sqlalchemy.event.listen(s.engine, name, hook)
        storages.append(s)
    admin = make_storage(url, None)

    def entries(ft):
        out = [{"k": "p", "key": k, "v": tok([v, distribution_to_json(ft.distributions[k])])} for k, v in ft.params.items()]
        out += [{"k": "a", "key": k, "v": tok(v)} for k, v in ft.user_attrs.items()]
        out += [{"k": "i", "key": str(k), "v": tok(float(v))} for k, v in ft.intermediate_values.items()]
        return sorted(out, key=lambda e: (e["k"], e["key"]))

    def pk(ft):
        return tok([sorted(ft.params.items()), sorted((k, v) for k, v in ft.user_attrs.items())])
    try:
        common.decoy(admin, seed % 3)
        optuna.create_study(storage=admin, study_name="hb", sampler=optuna.samplers.RandomSampler(seed=seed))
        sweeper_study = optuna.load_study(study_name="hb", storage=storages[0])
        zombie_study = optuna.load_study(study_name="hb", storage=storages[1], sampler=optuna.samplers.RandomSampler(seed=seed + 1))
        dead_study = optuna.load_study(study_name="hb", storage=admin, sampler=optuna.samplers.RandomSampler(seed=seed + 2))
        ztrial = None
        for who in layout:
            t = (zombie_study if who == "Z" else dead_study).ask()
            t.suggest_int("x", 0, 9)
            t.set_user_attr("u", rng.randint(0, 3))
            t.report(float(rng.randint(0, 5)), 0)
            set_beat(admin, t._trial_id, "stale")
            num_of[t._trial_id] = t.number
            ft = admin.get_trial(t._trial_id)
            log({"e": "trial", "n": t.number, "state": "RUNNING", "beat": "stale", "hist": [], "pk": pk(ft),
                 "pkiv": tok(sorted(ft.intermediate_values.items()))})
            log({"e": "content", "n": t.number, "c": entries(ft)})
            if who == "Z":
                ztrial = t
        zn = ztrial.number
        dist = optuna.distributions.IntDistribution(0, 9)

        def zombie(worker):
            for k, key in program:
                log({"e": "write_start", "w": 2, "n": zn, "k": k, "key": key})
                ok, v, err = 0, 0, ""
                try:
                    if k == "p":
                        v = tok([ztrial.suggest_int(key, dist.low, dist.high), distribution_to_json(dist)])
                    elif k == "a":
                        val = 10 + rng.randint(0, 3)
                        ztrial.set_user_attr(key, val)
                        v = tok(val)
                    else:
                        val = float(10 + rng.randint(0, 3))
                        ztrial.report(val, int(key))
                        v = tok(val)
                    ok = 1
                except UpdateFinishedTrialError:
                    err = "finished"
                except StorageInternalError:          # `database is locked`: rolled back, no effect
                    err = "busy"
                log({"e": "write_end", "w": 2, "n": zn, "k": k, "key": key, "ok": ok, "v": v if ok else 0, "err": err})

        def sweeper(worker):
            try:
                fail_stale_trials(sweeper_study)
            except StorageInternalError:              # `database is locked`: this sweep is over
                worker.aborted = True
        sched.add(sweeper)
        sched.add(zombie)
        if sched_spec[0] == "ij":
            factory = zombie_schedule(sched_spec[1], sched_spec[2])
        else:
            factory = c03.random_schedule(sched_spec[1], sched_spec[2])
        info = sched.run(factory(sched))
        for wk in sched.workers:
            if wk.error is not None:
                raise tlc.MachineryError(f"zombie family: worker {wk.wid} raised {wk.error!r} (seed={seed}, schedule={sched_spec})")
        ev += sched.log
        fail_stale_trials(sweeper_study)             # a later sweep finds whatever an aborted one left
        fin = []
        sid = sweeper_study._study_id
        for ft in sorted(admin.get_all_trials(sid), key=lambda t: t.number):
            fin.append({"n": ft.number, "state": ft.state.name, "hist": list(ft.system_attrs.get("retry_history", [])),
                        "failed": ft.system_attrs.get("failed_trial", -1), "pk": pk(ft),
                        "pkiv": tok(sorted(ft.intermediate_values.items())), "c": entries(ft)})
        ev.append({"e": "final", "trials": fin})
        steps = [sum(1 for c in sched.choices if c == w) for w in (1, 2)]
        return {"cfg": {"max_retry": max_retry, "inherit": inherit}, "ev": ev, "mode": "zombie", "deadlock": int(info["deadlock"]),
                "steps": steps, "layout": layout, "program": program,
                "replay": {"mode": "zombie", "seed": seed, "sched": list(sched_spec)}}
    finally:
        for s in storages + [admin]:
            try:
                s.remove_session()
                s.engine.dispose()
            except Exception:
                pass


def _zombie_task(specs):
    """specs: list of (seed, sched_spec)"""
    workdir = tempfile.mkdtemp(prefix="c19z-", dir=os.environ.get("VERIF_SCRATCH_BASE", "/var/tmp"))
    try:
        return [execute_zombie(seed, tuple(spec), workdir) for seed, spec in specs]
    finally:
        shutil.rmtree(workdir, ignore_errors=True)


def _task(args):
    mode, seeds = args
    workdir = tempfile.mkdtemp(prefix="c19-", dir=os.environ.get("VERIF_SCRATCH_BASE", "/var/tmp"))
    try:
        return [execute(s, mode, workdir) for s in seeds]
    finally:
        shutil.rmtree(workdir, ignore_errors=True)


def judge(ctx, traces, label):
    for i, t in enumerate(traces):
        t["tid"] = i + 1
        ctx.count_case([t["mode"], t["cfg"]] + [[e["e"], e.get("w"), e.get("n"), e.get("beat")] for e in t["ev"] if e["e"] != "final"],
                       nontrivial=any(e["e"] == "callback" for e in t["ev"]))
    v = tlc.validate("HeartbeatTrace", "HeartbeatTrace", [{"tid": t["tid"], "cfg": t["cfg"], "ev": t["ev"]} for t in traces],
                     shards=16, timeout=2400)
    ctx.validated(v, label)
    k1 = 0
    for tid in sorted(v.rejected):
        t = traces[tid - 1]
        i = v.rejected[tid]["reached"]
        ev = t["ev"][i - 1] if 1 <= i <= len(t["ev"]) else None
        double = ev is not None and ev["e"] == "fail" and any(e["e"] == "fail" and e["n"] == ev["n"] for e in t["ev"][:i - 1])
        f = ctx.match_known(K1_SIG) if (t["mode"] == "conc" and double) else None
        if f is not None:
            k1 += 1
            ctx.known_finding(f, f"a stale trial was failed by two SQLite connections, seed={t['replay']['seed']}")
            continue
        short = ev if ev and ev["e"] != "final" else {"e": "final"}
        if t["mode"] == "zombie":
            writes = [f"{e['k']}:{e['key']}" + ("" if e["ok"] else f"({e['err']})") for e in t["ev"] if e["e"] == "write_end"]
            fin = t["ev"][-1]["trials"]
            ctx.violation(f"stale trial whose worker is still writing (layout={t['layout']}, max_retry={t['cfg']['max_retry']}, "
                          f"inherit={t['cfg']['inherit']}, schedule={t['replay']['sched']}): event #{i} {json.dumps(short)[:160]} — "
                          f"zombie writes {writes}; read back " +
                          "; ".join(f"#{x['n']} {x['state']} hist={x['hist']} " + ",".join(f"{c['k']}:{c['key']}={c['v']}" for c in x["c"])
                                    for x in fin) +
                          " — the retry does not carry the content the failed trial had when it became FAIL (or another clause failed)",
                          {"replay": t["replay"], "events": t["ev"]})
            if len(ctx.violations) >= 6:
                break
            continue
        ctx.violation(f"stale-trial recovery ({t['mode']}, max_retry={t['cfg']['max_retry']}, inherit={t['cfg']['inherit']}): "
                      f"event #{i} {json.dumps(short)[:200]} — failed/called back more than once, a live or finished trial touched, "
                      f"or a wrong / missing / surplus retry", {"replay": t["replay"], "events": t["ev"]})
        if len(ctx.violations) >= 6:
            break
    ctx.notes["k1_schedules"] = k1
    return v


def run_zombie(ctx):
    """family: the worker of a stale trial keeps writing while a sweeper is preempted everywhere between its reads and its FAIL"""
    n_cfg, n_full, n_rand = (2, 0, 48) if ctx.quick else (15, 3, 600)      # configurations, of which with the full (i, j) grid
    cfgs = [ctx.seed * 1000 + 500 + k for k in range(n_cfg)]
    rng = random.Random(ctx.seed * 7919 + 19)
    with cf.ProcessPoolExecutor(max_workers=16) as ex:
        # dry runs: the sweeper alone, then the zombie: how many yield points does each have?
        dry = [r[0] for r in ex.map(_zombie_task, [[(c, ("ij", 10 ** 9, 0))] for c in cfgs])]
        specs = []
        for ci, (c, d) in enumerate(zip(cfgs, dry)):
            n, m = d["steps"]
            for i in range(0, n + 1):               # every single preemption of the sweeper ...
                if ci >= n_full:                    # ... the zombie does all its writes there / (every third point) stops inside one
                    js = {m} | ({rng.randint(1, m - 1)} if i % 3 == 0 else set())
                else:                               # ... x every progress of the zombie
                    js = range(0, m + 1)
                specs += [(c, ("ij", i, j)) for j in sorted(js)]
        specs += [(ctx.seed * 100000 + 700 + k, ("random", rng.getrandbits(30), rng.choice([0.2, 0.5]))) for k in range(n_rand)]
        rng.shuffle(specs)
        traces = list(dry)
        for res in ex.map(_zombie_task, [specs[k::32] for k in range(32)]):
            traces += res
    dl = sum(t["deadlock"] for t in traces)
    if dl:
        raise tlc.MachineryError(f"zombie family: {dl} executions did not terminate under the scheduler")

    def pos(t, pred):
        return [k for k, e in enumerate(t["ev"]) if pred(e)]
    # bookkeeping (vacuity guard): executions in which an accepted write returned after the sweeper had read the stale list
    # (it had taken at least one step) and before the FAIL call of that trial started / overlapped it / was refused after it
    between = overlap = refused = retried = 0
    for t in traces:
        zn = next(e["n"] for e in t["ev"] if e["e"] == "write_start")
        fs = pos(t, lambda e: e["e"] == "fail_start" and e["n"] == zn)
        fe = pos(t, lambda e: e["e"] == "fail" and e["n"] == zn)
        acc = pos(t, lambda e: e["e"] == "write_end" and e["ok"] == 1)
        st = pos(t, lambda e: e["e"] == "write_start")
        swept = t["replay"]["sched"][0] == "random" or t["replay"]["sched"][1] > 0
        between += int(bool(swept and fs and any(a < fs[0] for a in acc)))
        overlap += int(bool(fs and fe and any(fs[-1] < x < fe[0] for x in st + acc)))
        refused += int(any(e["e"] == "write_end" and e["err"] == "finished" for e in t["ev"]))
        retried += int(any(x["hist"] and x["hist"][-1] == zn for x in t["ev"][-1]["trials"]))
    ctx.notes["zombie"] = {"executions": len(traces), "accepted_write_before_fail_call": between, "write_overlaps_fail_call": overlap,
                           "write_refused_after_fail": refused, "zombie_trial_retried": retried}
    if not (between and refused and retried):
        raise tlc.MachineryError(f"zombie family vacuous: {ctx.notes['zombie']}")
    v = judge(ctx, traces, "a stale trial's own worker keeps writing while the sweeper is preempted at every line / SQL statement")
    ctx.sample({"cfg": traces[len(traces) // 2]["cfg"], "events": traces[len(traces) // 2]["ev"][:24]})
    if not ctx.violations:
        # binding self-test: an accepted execution in which a write was accepted before the FAIL call of its trial started and
        # the trial was retried; the same execution with that entry missing in the retry must be rejected
        pick = None
        for t in traces:
            if t["tid"] not in v.accepted:
                continue
            zn = next(e["n"] for e in t["ev"] if e["e"] == "write_start")
            fs = pos(t, lambda e: e["e"] == "fail_start" and e["n"] == zn)
            acc = [k for k in pos(t, lambda e: e["e"] == "write_end" and e["ok"] == 1) if t["ev"][k]["k"] != "i"]
            if fs and acc and acc[0] < fs[0] and any(x["hist"] and x["hist"][-1] == zn for x in t["ev"][-1]["trials"]):
                pick = (t, zn, t["ev"][acc[0]])
                break
        if pick is None:
            raise tlc.MachineryError("zombie family: no accepted execution with a write accepted before the FAIL call and a retry")
        good, zn, w0 = pick

        def drop_written(t):
            for x in t["ev"][-1]["trials"]:
                if x["hist"] and x["hist"][-1] == zn:
                    x["c"] = [c for c in x["c"] if not (c["k"] == w0["k"] and c["key"] == w0["key"])]
        ctx.binding_selftest("HeartbeatTrace", "HeartbeatTrace", {"tid": 1, "cfg": good["cfg"], "ev": good["ev"]}, drop_written,
                             "retry lacks a write accepted before the FAIL call")


def run(ctx):
    ctx.rule = ("RDBStorage (SQLite) with heartbeats and RetryFailedTrialCallback(max_retry in {None,0,1,2}, inherit 0/1): "
                "trials in every state/heartbeat pattern (heartbeat rows written directly: no sleeping), (a) 1-2 workers "
                "sweeping in turn (fail_stale_trials and the sweep inside optimize) while queued retries are taken and die "
                "again - also (a') with the database clock frozen by the harness and heartbeats exactly grace-1, grace, grace+1 "
                "seconds old (insert and update path of record_heartbeat; older-than-grace decided in the trace spec), "
                "(b) two workers sweeping concurrently, interleaved per SQL statement, one possibly dying mid-sweep; "
                "(c) a stale trial whose worker is slow, not dead, and keeps writing (suggest, set_user_attr, report) on its own "
                "connection while one sweeper is preempted at every source line of _heartbeat.py/_callbacks.py and every SQL "
                "statement (all single preemptions x zombie progress, plus random schedules): the retry must carry the content "
                "the trial had when it became FAIL; "
                "every execution validated by TLC against HeartbeatTrace; distinct = distinct event sequences with a callback")
    r = tlc.require_model("HeartbeatMC", "HeartbeatMC_q",
                          must_cover=["ReadStale", "FailCAS", "StartCallbacks", "Callback", "EndSweep", "RetryDies", "Crash", "ZombieWrite"],
                          timeout=3000)
    ctx.model(r, "HeartbeatMC (atomic compare-and-set)")
    r = tlc.expect_violation("HeartbeatMC", "HeartbeatMC_sqlite", "FailedByAtMostOne", timeout=600)
    ctx.model(r, "HeartbeatMC_sqlite (SELECT and UPDATE separate: expected to violate FailedByAtMostOne, K1)")
    r = tlc.require_model("HeartbeatClock", "HeartbeatClock_q", must_cover=["Start", "Beat", "Die", "Tick", "Sweep"], timeout=600)
    ctx.model(r, "HeartbeatClock (one database clock, strictly-older-than-grace: a worker beating in time is never failed)")
    r = tlc.expect_violation("HeartbeatClock", "HeartbeatClock_ge", "LiveNeverFailed", timeout=600)
    ctx.model(r, "HeartbeatClock_ge (age >= grace counts as stale: expected to fail a live worker whose beat is one interval late)")
    n_seq, n_conc = (96, 96) if ctx.quick else (1200, 1200)
    tasks = [("seq", [ctx.seed * 100000 + i for i in range(n_seq)][k::8]) for k in range(8)]
    tasks += [("conc", [ctx.seed * 100000 + 50000 + i for i in range(n_conc)][k::8]) for k in range(8)]
    n_clock = 64 if ctx.quick else 800
    tasks += [("clock", [ctx.seed * 100000 + 80000 + i for i in range(n_clock)][k::8]) for k in range(8)]
    traces = []
    with cf.ProcessPoolExecutor(max_workers=16) as ex:
        for res in ex.map(_task, tasks):
            traces += res
    ctx.notes["deadlocks"] = sum(t["deadlock"] for t in traces)
    v = judge(ctx, traces, "sweeps on SQLite with controlled heartbeats")
    run_zombie(ctx)
    for t in traces[:: max(1, len(traces) // 3)][:3]:
        ctx.sample({"cfg": t["cfg"], "events": t["ev"][:14]})
    if not ctx.violations:
        good = next(t for t in traces if t["tid"] in v.accepted and any(e["e"] == "callback" for e in t["ev"]))

        def twice(t):
            c = next(e for e in t["ev"] if e["e"] == "callback")
            t["ev"].insert(t["ev"].index(c) + 1, dict(c))

        def wrong_hist(t):
            for tr in t["ev"][-1]["trials"]:
                if tr["hist"]:
                    tr["hist"] = tr["hist"] + [tr["hist"][-1]]
                    return
            t["ev"][-1]["trials"][0]["state"] = "WAITING"
        ctx.binding_selftest("HeartbeatTrace", "HeartbeatTrace", {"tid": 1, "cfg": good["cfg"], "ev": good["ev"]}, twice,
                             "callback invoked twice")
        ctx.binding_selftest("HeartbeatTrace", "HeartbeatTrace", {"tid": 1, "cfg": good["cfg"], "ev": good["ev"]}, wrong_hist,
                             "retry history altered")
    ctx.assumptions += ["RDB = SQLite (the only RDB available); staleness is set by writing the heartbeat rows",
                        "zombie family: a write call answered `database is locked` (StorageInternalError) had no effect; a write "
                        "call that overlaps the FAIL call may count on either side of the FAIL",
                        "worker death = the worker is never scheduled again",
                        "known finding K1 (double FAIL across SQLite connections) matched by shape on the concurrent family"]


def replay(ctx, data):
    r = data["replay"]
    if r["mode"] == "zombie":
        traces = _zombie_task([(r["seed"], r["sched"])])
    else:
        traces = _task((r["mode"], [r["seed"]]))
    judge(ctx, traces, "replay")
