"""C13 — maximising f behaves exactly like minimising -f.

Specs: specs/Mirror.tla + MirrorMC (exact integer decision models of every direction-dependent decision - percentile/
median, threshold, patient, successive-halving rung, Wilcoxon signed-rank decision incl. its "average is best" safety
check, TPE split, best trial, Pareto set / rank with any subset of objectives flipped - and the mirror theorem,
exhaustively), specs/Functional.tla + FunctionalTrace with the
SIGN-NORMALISED key (conformance).  As for C09 the sampler mathematics is not modelled (thin): the real code is compared
with itself.  A scenario (program with exactly representable, pairwise-distinct values x seeded sampler x pruner) is run
once per subset F of objectives: directions flipped on F, objective (and reported values) negated on F, value
thresholds of the pruner mirrored; all on in-memory storage with the same seed.  The runs of a scenario are ONE trace;
TLC multiplies every reported / objective value by the direction sign of its run and demands equal answers for equal
keys: every suggested value, every should_prune answer, every final state and value, best_trial / best_trials.
"""
from __future__ import annotations

import copy
import itertools
import time

from . import c09, common, tlc

SO_PRUNERS = c09.PRUNERS


def flip_confs(base_dirs):
    """One configuration per subset of flipped objectives (the empty subset first = the reference run)."""
    k = len(base_dirs)
    out = []
    for r in range(k + 1):
        for F in itertools.combinations(range(k), r):
            dirs = [("maximize" if d == "minimize" else "minimize") if i in F else d for i, d in enumerate(base_dirs)]
            out.append({"storage": "inmemory", "dirs": dirs, "flip": [i in F for i in range(k)], "best_each": True})
    return out


def combos(ctx, use_gp):
    so = [(s, p, 1) for s in c09.SAMPLERS if s not in c09.MO_ONLY for p in SO_PRUNERS]
    mo = [(s, "nop", 2) for s in c09.SAMPLERS if s not in c09.SO_ONLY]
    if not use_gp:
        so = [x for x in so if x[0] != "gp"]
    if not ctx.quick:
        return so * 8 + mo * 16
    rng = ctx.rng
    gp = [x for x in so if x[0] == "gp"]
    rest = [x for x in so if x[0] != "gp"]
    # quick: every sampler x pruner pair once, GP (slow) with nop + two pruners, every MO-capable sampler twice
    # (GP only leaves its start-up phase on COMPLETE trials: the gentle pruners are used with it in quick)
    return rest + [x for x in gp if x[1] in ("nop", "median", "threshold")] + mo * 2


def run(ctx):
    ctx.rule = ("scenario = exact define-by-run program (values = multiples of 1/4096, pairwise distinct) x seeded sampler x "
                "pruner (thresholds mirrored); one in-memory run per subset of flipped objectives (direction flipped, "
                "objective and reports negated); the runs of a scenario are one trace judged by TLC (FunctionalTrace, "
                "sign-normalised keys); distinct = distinct (scenario, flipped subset) runs with a sampler-dependent answer")
    for cfg in (["MirrorMC_q1", "MirrorMC_q2"] if ctx.quick else ["MirrorMC_t1", "MirrorMC_t2"]):
        r = tlc.require_model("MirrorMC", cfg, must_cover=["AddTrial"], timeout=1800)
        ctx.model(r, cfg)
    negs = (("MirrorMC_neg1", "SomePrunes"), ("MirrorMC_neg2", "SomeKeeps"), ("MirrorMC_bad", "MirrorBadPercentile"),
            ("MirrorMC_wneg1", "WilcoxonNeverPrunes"), ("MirrorMC_wneg2", "WilcoxonSafetyNeverDecides"))
    for cfg, inv in negs:
        tlc.expect_violation("MirrorMC", cfg, inv)
    ctx.notes["mirror_negative_instances_violated_as_expected"] = [inv for _, inv in negs]
    r = tlc.require_model("FunctionalMC", "FunctionalMC_q" if ctx.quick else "FunctionalMC_t", must_cover=c09.MC_ACTIONS)
    ctx.model(r, "FunctionalMC (direction signs included)")
    common.use_repo()
    t0 = time.time()
    use_gp = c09.gp_deterministic(ctx)
    ctx.notes["gp_deterministic_across_identical_runs"] = use_gp
    if not use_gp:
        ctx.assumptions.append("GPSampler gave different answers in two identical runs: dropped from the comparison")
    scenarios = []
    for k, (s, p, nobj) in enumerate(combos(ctx, use_gp)):
        n = 8 if (s == "gp" and ctx.quick) else ctx.rng.choice([10, 12])
        sc = c09.make_scenario(ctx.rng, f"m{k}", s, p, nobj, n, exact=True)
        base = [ctx.rng.choice(["minimize", "maximize"]) for _ in range(nobj)]
        sc["confs"] = flip_confs(base)
        if nobj == 2 and k % 2 == 0:
            # two diverged objective values (one +inf, one -inf, in different objectives and trials)
            sc["prog"]["infs"] = {"2": [0, ctx.rng.choice([1, -1])], "5": [1, ctx.rng.choice([1, -1])]}
        scenarios.append(sc)
    # discrete learning curves: integer values (pairwise distinct), where "equal to the interpolated percentile" happens
    coarse = [(s, p) for s in ("random", "tpe")
              for p in ("median", "pct25", "pct75", "patient_median", "patient_delta", "sha", "hyperband", "threshold")]
    n_coarse = 0
    for rep in range(2 if ctx.quick else 12):
        for s, p in coarse:
            sc = c09.make_scenario(ctx.rng, f"mc{n_coarse}", s, p, 1, ctx.rng.choice([12, 14, 16]), exact=True)
            sc["prog"]["coarse"] = True
            sc["prog"]["fail_mod"] = 0
            if rep % 2 == 1:
                sc["prog"]["nan_mod"] = ctx.rng.choice([3, 4, 5])      # some reported values are NaN
                sc["prog"]["reports"] = max(sc["prog"]["reports"], 4)
            sc["confs"] = flip_confs([ctx.rng.choice(["minimize", "maximize"])])
            scenarios.append(sc)
            n_coarse += 1
    ctx.notes["coarse_scenarios"] = n_coarse
    # decimal learning curves: values are multiples of 0.1 (doubles that are NOT exact), min_delta 0.1-0.3, so the gap between the
    # best value before and inside the patience window regularly equals min_delta up to rounding: a comparison that is not the
    # exact floating-point mirror of the other direction's decides differently.  Only pruners that compare and add/subtract
    # (no interpolation): patient (no wrapped pruner), threshold, successive halving.
    n_dec = 0
    for rep in range(6 if ctx.quick else 60):
        for s, p in (("random", "patient_delta"), ("tpe", "patient_delta"), ("random", "threshold"), ("random", "sha")):
            sc = c09.make_scenario(ctx.rng, f"md{n_dec}", s, p, 1, ctx.rng.choice([12, 14, 16]), exact=True)
            sc["prog"]["decimal"] = True
            sc["prog"]["fail_mod"] = 0
            sc["prog"]["reports"] = 5
            sc["min_delta"] = ctx.rng.choice([0.1, 0.2, 0.3])
            sc["confs"] = flip_confs([ctx.rng.choice(["minimize", "maximize"])])
            scenarios.append(sc)
            n_dec += 1
    ctx.notes["decimal_scenarios"] = n_dec
    c09.execute(scenarios)
    ctx.notes["run_wall_s"] = round(time.time() - t0, 1)
    judge(ctx, scenarios, "mirrored runs")
    ctx.assumptions += [
        "objective and reported values are multiples of 1/4096 of magnitude < 64 and pairwise distinct (a term in the "
        "trial number), so negation, quartile interpolation and short sums are exact; thresholds are mirrored exactly",
        "plus 'discrete learning curve' scenarios: integer values (pairwise distinct), where a reported value regularly equals "
        "the interpolated percentile of the other trials",
        "plus 'decimal learning curve' scenarios (patient with min_delta 0.1-0.3, threshold, successive halving): values are "
        "multiples of 0.1 as doubles, so additions round - the mirror must still be exact",
        "percentile pruners at 25/50/75 only (other percentiles make numpy's interpolation weights inexact)",
        "WilcoxonPruner: instance-style programs (6-10 steps with the same ids in every trial, scores multiples of 1/65536, "
        "objective = median/max/min/last/mean of the reports), p_threshold in {0.1, 0.2, 0.3} (never equal to an exact "
        "p-value k/2^n); the p-value computation itself (scipy) is covered by functional agreement only - Mirror.tla "
        "abstracts it to a monotone function of the integer signed-rank statistic",
        "in-memory storage only (storage independence is C09)",
        "TLA+ part is thin for samplers: no TPE/GP/NSGA mathematics, only functional dependence on the normalised history",
    ]


NSGA3_SIG = "nsgaiii:niching-ignores-direction"
NSGA2_SIG = "nsgaii:crowding-tie-order-follows-raw-last-objective"


def classify_c13(sc, conf, ref, run, refrun):
    if sc["prog"]["nobj"] >= 2 and sc["sampler"] == "nsgaiii":
        return NSGA3_SIG
    if sc["prog"]["nobj"] >= 2 and sc["sampler"] == "nsgaii" and conf["dirs"][-1] != ref["dirs"][-1]:
        return NSGA2_SIG
    return None


def judge(ctx, scenarios, label, selftest=True):
    v = c09.judge(ctx, scenarios, label, classify=classify_c13, selftest=False)
    if selftest:
        traces = [c09.build_trace(sc, i + 1)[0] for i, sc in enumerate(scenarios)]
        good = next((t for t in traces if t["tid"] in v.accepted and any(e["op"] == "prune" and e["ans"] == 1 for e in t["ev"])
                     and any(e["op"] == "run" and -1 in e["sign"] for e in t["ev"])), None)
        if good is not None:
            def flip_prune(t):      # one should_prune answer of the LAST run negated
                for e in reversed(t["ev"]):
                    if e["op"] == "prune":
                        e["ans"] = 1 - e["ans"]
                        return

            def wrong_sign(t):      # the direction sign of the last run not applied: keys must differ -> answers clash
                for e in reversed(t["ev"]):
                    if e["op"] == "final" and e["vals"]:
                        e["vals"] = [-x for x in e["vals"]]
                        return
            ctx.binding_selftest("FunctionalTrace", "FunctionalTrace", good, flip_prune, "mirrored run: one should_prune answer")
            ctx.binding_selftest("FunctionalTrace", "FunctionalTrace", good, wrong_sign, "mirrored run: final value not negated")
    return v


def replay(ctx, data):
    common.use_repo()
    sc = copy.deepcopy(data["scenario"])
    c09.execute([sc], workers=4)
    judge(ctx, [sc], "replay", selftest=False)
