"""Schedules for the syscall-shim world (H3): random interleavings, chunked writes, crashes, grace-period expiry."""
from __future__ import annotations

import random

from . import common
from . import jfile_shim as sh


def make_programs(rng: random.Random, n_writers, n_readers, appends, reads, multi=0.25, pads=(0, 3, 40)):
    """worker id -> list of calls.  Record ids are wid*100 + k so that every record is distinguishable."""
    progs = {}
    for w in range(1, n_writers + 1):
        calls, k = [], 0
        for _ in range(appends):
            n = 2 if rng.random() < multi else 1
            recs = []
            for _ in range(n):
                k += 1
                recs.append(sh.record(w * 100 + k, rng.choice(pads)))
            calls.append(("append", recs))
            if rng.random() < 0.3:
                calls.append(("read",))
        progs[w] = calls
    for r in range(1, n_readers + 1):
        progs[10 + r] = [("read",)] * reads
    return progs


def run(programs, rng: random.Random, *, lock_kind="symlink", crash=False, max_cuts=2, late_reader=True,
        grace=30, max_steps=4000, tid=0, takeover_only_when_owner_dead=True):
    """Run one schedule; returns a trace record for JournalFileTrace."""
    common.use_repo()
    world = sh.World()
    restore = sh.install(world)
    try:
        for wid, prog in programs.items():
            w = world.add_worker(wid, prog, lock_kind=lock_kind, grace=grace)
            w.chunker = (lambda n, r=rng: sorted(r.sample(range(1, n), min(n - 1, r.randint(0, max_cuts)))) if n > 1 else [])
        late = None
        if late_reader:
            late = world.add_worker(99, [("read",), ("read",)], lock_kind=lock_kind, grace=grace)
        world.start()
        crash_at = rng.randint(1, 60) if crash else None
        crashed = None
        steps = 0
        while steps < max_steps:
            run_ = [w for w in world.runnable() if w is not late]
            if not run_:
                if late is not None and not late.finished and late.pending is not None:
                    run_ = [late]       # the fresh opener runs when everybody else is done or dead
                else:
                    break
            steps += 1
            if crash_at is not None and steps >= crash_at and crashed is None:
                victims = [w for w in run_ if w.wid < 10 and w.pending and w.pending[0] not in ("init", "exists")]
                if victims:
                    crashed = rng.choice(victims)
                    world.kill(crashed)
                    continue
            w = rng.choice(run_)
            if w.pending[0] == "sleep" and crashed is not None:
                # the lock may belong to the dead worker: let the grace period run out (never while the owner lives)
                owner_dead = (not takeover_only_when_owner_dead) or _owner_is(world, crashed)
                if owner_dead and rng.random() < 0.5:
                    world.fs.clock[w.wid] = world.fs.clock.get(w.wid, 1000.0) + grace + 1
                    world.events.append({"e": "tick", "w": w.wid})
            world.grant(w)
        stuck = steps >= max_steps
        if stuck:
            # "the surviving workers keep reading and appending": a live worker that is still inside a call after thousands of
            # scheduling steps (the clock passes the grace period at every second sleep on a dead owner's lock) never will
            for w in world.workers.values():
                if not w.finished and not w.dead:
                    world.events.append({"e": "never_finished", "w": w.wid})
        world.shutdown()
        evs = [e for e in world.events]
        return {"tid": tid, "workers": sorted(world.workers), "ev": evs, "lock": lock_kind, "stuck": int(stuck),
                "crashed": crashed.wid if crashed else 0}
    finally:
        restore()


def _owner_is(world, worker):
    """Does the lock file currently on disk belong to `worker`?  (scheduler-side knowledge, used only to decide when
    the virtual clock may pass the grace period: the brief assumes grace > any live critical section)"""
    owner = None
    for e in world.events:
        if e["e"] == "lock_try" and e.get("ok") == 1:
            owner = e["w"]
        elif e["e"] == "lock_rename" and e.get("ok") == 1:
            owner = None
    return owner == worker.wid
