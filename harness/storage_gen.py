"""Seeded generator of abstract storage histories (lists of abstract ops, see storage_driver.Replayer.call).

The generator keeps a light shadow of what exists only to aim calls at interesting targets (live, finished,
deleted, never-issued ids) and to stay inside the calls the contract defines (Storage.tla SetParamDefined /
SetStateDefined).  It never predicts a reply.
"""
from __future__ import annotations

from . import storage_driver as sd


def _dkey(tok):
    return (tok["c"], tok["g"], tok["k"] if tok["c"] == "cat" else 0)


class Gen:
    def __init__(self, rng, max_studies=3, max_trials=6):
        self.r = rng
        self.studies = []   # dict(live, name, dirs, trials, R: {name: set(dkey)}, pd: set(names))
        self.trials = []    # dict(live, study, state, params:set)
        self.max_studies = max_studies
        self.max_trials = max_trials
        self.dist_toks = [t for t, _ in sd.dists()]

    # --- target selection
    def study(self, want_live=0.85):
        live = [i + 1 for i, s in enumerate(self.studies) if s["live"]]
        dead = [i + 1 for i, s in enumerate(self.studies) if not s["live"]]
        x = self.r.random()
        if live and x < want_live:
            return self.r.choice(live)
        if dead and x < 0.95:
            return self.r.choice(dead)
        return 0

    def trial(self, pred=None, want=0.85):
        live = [i + 1 for i, t in enumerate(self.trials) if t["live"] and (pred is None or pred(t))]
        anyt = [i + 1 for i, t in enumerate(self.trials)]
        x = self.r.random()
        if live and x < want:
            return self.r.choice(live)
        if anyt and x < 0.96:
            return self.r.choice(anyt)
        return 0

    def values(self, n, allow_nan=False):
        pool = sd.FINITE + [-1000, 1000] + ([9999] if allow_nan else [])
        return [self.r.choice(pool) for _ in range(n)]

    def defined_param(self, t, name, d):
        if not (1 <= t <= len(self.trials)):
            return True
        tr = self.trials[t - 1]
        if not tr["live"] or tr["state"] in ("COMPLETE", "PRUNED", "FAIL"):
            return True
        if name in tr["params"]:
            return False
        s = self.studies[tr["study"] - 1]
        R = s["R"].get(name, set())
        k = _dkey(d)
        if all(o == k for o in R):
            return True
        return all(o != k for o in R) and name in s["pd"]

    def template(self, s):
        r = self.r
        ndir = len(self.studies[s - 1]["dirs"]) if 1 <= s <= len(self.studies) else 1
        state = r.choice(sd.STATES)
        if state == "COMPLETE":
            values = self.values(ndir)
        elif state in ("PRUNED", "FAIL") and r.random() < 0.4:
            values = self.values(ndir)
        else:
            values = sd.NONE_V
        params = {}
        for name in sd.NAMES:
            if r.random() < 0.4:
                d = self.pick_dist(s, name, compat=1.0)
                R = self.studies[s - 1]["R"].get(name, set()) if 1 <= s <= len(self.studies) else set()
                if any(o != _dkey(d) for o in R):
                    continue      # D13: templates never carry a distribution incompatible with the study's record
                params[name] = {"d": d, "v": r.choice(sd.param_vals_for(d))}
        return {"has": 1, "state": state, "values": values, "params": params,
                "ua": {k: r.randrange(len(sd.ATTRS)) for k in sd.KEYS if r.random() < 0.4},
                "sa": {k: r.randrange(len(sd.ATTRS)) for k in sd.KEYS if r.random() < 0.3},
                "iv": {str(st): r.choice(sd.FINITE + [-1000, 1000, 9999]) for st in sd.STEPS if r.random() < 0.4},
                "ts": r.choice([0, 1, 1, 2]) if state != "WAITING" else r.choice([0, 0, 1]),
                "tc": r.choice([0, 1, 2]) if state in ("COMPLETE", "PRUNED", "FAIL") else 0}

    def pick_dist(self, s, name, compat=0.85):
        R = self.studies[s - 1]["R"].get(name, set()) if 1 <= s <= len(self.studies) else set()
        if R and self.r.random() < compat:
            ok = [d for d in self.dist_toks if all(o == _dkey(d) for o in R)]
            if ok:
                return self.r.choice(ok)
        return self.r.choice(self.dist_toks)

    # --- shadow updates (what exists; never what a call returns)
    def note(self, op):
        a = op["a"]
        if a == "create_study":
            if op["name"] != "auto" and any(s["live"] and s["name"] == op["name"] for s in self.studies):
                return
            self.studies.append({"live": True, "name": op["name"], "dirs": op["dirs"], "trials": [], "R": {}, "pd": set()})
        elif a == "delete_study":
            s = op["s"]
            if 1 <= s <= len(self.studies) and self.studies[s - 1]["live"]:
                self.studies[s - 1]["live"] = False
                for t in self.studies[s - 1]["trials"]:
                    self.trials[t - 1]["live"] = False
        elif a == "create_trial":
            s = op["s"]
            if 1 <= s <= len(self.studies) and self.studies[s - 1]["live"]:
                tm = op["tm"]
                self.trials.append({"live": True, "study": s, "state": tm["state"] if tm["has"] else "RUNNING",
                                    "params": set(tm["params"]) if tm["has"] else set()})
                self.studies[s - 1]["trials"].append(len(self.trials))
                if tm["has"]:
                    for n, p in tm["params"].items():
                        self.studies[s - 1]["R"].setdefault(n, set()).add(_dkey(p["d"]))
        elif a == "set_param":
            t = op["t"]
            if 1 <= t <= len(self.trials):
                tr = self.trials[t - 1]
                if tr["live"] and tr["state"] in ("RUNNING", "WAITING"):
                    s = self.studies[tr["study"] - 1]
                    R = s["R"].get(op["name"], set())
                    if all(o == _dkey(op["d"]) for o in R):
                        tr["params"].add(op["name"])
                        s["R"].setdefault(op["name"], set()).add(_dkey(op["d"]))
                        s["pd"].add(op["name"])
        elif a == "set_state":
            t = op["t"]
            if 1 <= t <= len(self.trials):
                tr = self.trials[t - 1]
                if tr["live"] and tr["state"] in ("RUNNING", "WAITING"):
                    if not (op["state"] == "RUNNING" and tr["state"] != "WAITING"):
                        tr["state"] = op["state"]

    # --- one op
    def op(self):
        r = self.r
        live_s = [i + 1 for i, s in enumerate(self.studies) if s["live"]]
        live_t = [i + 1 for i, t in enumerate(self.trials) if t["live"]]
        unfinished = lambda t: t["state"] in ("RUNNING", "WAITING")  # noqa
        if not live_s or (len(self.studies) < self.max_studies and r.random() < 0.08):
            return {"a": "create_study", "name": r.choice(sd.STUDY_NAMES), "dirs": [r.randint(0, 1) for _ in range(r.choice([1, 1, 2]))]}
        x = r.random()
        if x < 0.03:
            return {"a": "create_study", "name": r.choice(sd.STUDY_NAMES), "dirs": [r.randint(0, 1)]}
        if x < 0.06:
            return {"a": "delete_study", "s": self.study(0.8)}
        if x < 0.11:
            return {"a": r.choice(["set_study_ua", "set_study_sa"]), "s": self.study(), "key": r.choice(sd.KEYS),
                    "v": r.randrange(len(sd.ATTRS))}
        if x < 0.25 and len(self.trials) < self.max_trials:
            s = self.study(0.92)
            tm = self.template(s) if (r.random() < 0.45 and 1 <= s <= len(self.studies)) else {"has": 0}
            return {"a": "create_trial", "s": s, "tm": tm}
        if x < 0.37:
            t = self.trial(unfinished if r.random() < 0.8 else None)
            name = r.choice(sd.NAMES)
            s = self.trials[t - 1]["study"] if 1 <= t <= len(self.trials) else 0
            for _ in range(6):
                d = self.pick_dist(s, name) if s else r.choice(self.dist_toks)
                if self.defined_param(t, name, d):
                    return {"a": "set_param", "t": t, "name": name, "v": r.choice(sd.param_vals_for(d)), "d": d}
                name = r.choice(sd.NAMES)
            return {"a": "get_trial", "t": t}
        if x < 0.52:
            t = self.trial(unfinished if r.random() < 0.75 else None)
            state = r.choice(["RUNNING", "COMPLETE", "COMPLETE", "PRUNED", "FAIL", "WAITING"])
            ndir = 1
            if 1 <= t <= len(self.trials):
                ndir = len(self.studies[self.trials[t - 1]["study"] - 1]["dirs"])
            if state == "RUNNING":
                values = sd.NONE_V
            elif state == "COMPLETE":
                values = self.values(ndir)
            elif state == "PRUNED":
                values = self.values(ndir) if r.random() < 0.5 else sd.NONE_V
            else:
                values = sd.NONE_V if r.random() < 0.8 else self.values(ndir)
            return {"a": "set_state", "t": t, "state": state, "values": values}
        if x < 0.60:
            return {"a": "set_iv", "t": self.trial(unfinished if r.random() < 0.8 else None), "step": str(r.choice(sd.STEPS)),
                    "v": r.choice(sd.FINITE + [-1000, 1000, 9999])}
        if x < 0.68:
            return {"a": r.choice(["set_trial_ua", "set_trial_sa"]), "t": self.trial(unfinished if r.random() < 0.8 else None),
                    "key": r.choice(sd.KEYS), "v": r.randrange(len(sd.ATTRS))}
        return self.getter()

    def getter(self):
        r = self.r
        g = r.choice(["get_study_id_from_name", "get_study_name", "get_study_dirs", "get_study_ua", "get_study_sa",
                      "get_all_studies", "get_trial", "get_all_trials", "get_all_trials", "get_n_trials", "get_best_trial",
                      "get_best_trial", "get_trial_id_from_number", "get_trial_number", "get_trial_param", "get_trial_params",
                      "get_trial_ua", "get_trial_sa"])
        if g == "get_study_id_from_name":
            return {"a": g, "name": r.choice(["A", "B", "C"])}
        if g in ("get_study_name", "get_study_dirs", "get_study_ua", "get_study_sa", "get_best_trial"):
            return {"a": g, "s": self.study()}
        if g == "get_all_studies":
            return {"a": g}
        if g == "get_all_trials":
            y = r.random()
            states = ["ALL"] if y < 0.3 else ["WAITING"] if y < 0.55 else r.sample(sd.STATES, r.randint(1, 3))
            return {"a": g, "s": self.study(), "states": states, "dc": r.randint(0, 1), "as_list": r.randint(0, 1)}
        if g == "get_n_trials":
            return {"a": g, "s": self.study(), "state": r.choice(["ALL"] + sd.STATES)}
        if g == "get_trial_id_from_number":
            return {"a": g, "s": self.study(), "n": r.randint(0, 4)}
        if g == "get_trial_param":
            return {"a": g, "t": self.trial(), "name": r.choice(sd.NAMES)}
        return {"a": g, "t": self.trial()}

    def history(self, n_ops):
        ops = []
        for _ in range(n_ops):
            op = self.op()
            ops.append(op)
            self.note(op)
        return ops


def overwrite_histories(rng, n):
    """'writes overwrite by key': the same key (intermediate-value step, objective values, attribute key) is written several
    times in a row with values of different classes (finite, +inf, -inf, NaN, denormal, 1e300), reading back in between"""
    import random

    special = [1000, -1000, 9999, 0, 6, -1, 3]
    out = []
    for i in range(n):
        r = random.Random(rng.getrandbits(48))
        ndir = r.choice([1, 2])
        ops = [{"a": "create_study", "name": "A", "dirs": [r.randint(0, 1) for _ in range(ndir)]},
               {"a": "create_trial", "s": 1, "tm": {"has": 0}},
               {"a": "create_trial", "s": 1, "tm": {"has": 0}}]
        for _ in range(r.randint(2, 4)):
            kind = r.choice(["iv", "iv", "values", "tattr", "sattr"])
            t = r.choice([1, 2])
            if kind == "iv":
                step = str(r.choice(sd.STEPS))
                for v in r.sample(special, r.randint(2, 4)):
                    ops.append({"a": "set_iv", "t": t, "step": step, "v": v})
                    if r.random() < 0.4:
                        ops.append({"a": "get_trial", "t": t})
            elif kind == "values":
                vs = [x for x in special if x != 9999]
                seq = r.sample(vs, r.randint(2, 3))
                for j, v in enumerate(seq):
                    last = j == len(seq) - 1
                    ops.append({"a": "set_state", "t": t, "state": "COMPLETE" if last else "WAITING",
                                "values": [v] + [r.choice(vs) for _ in range(ndir - 1)]})
                    ops.append({"a": "get_trial", "t": t})
            elif kind == "tattr":
                key = r.choice(sd.KEYS)
                for v in r.sample(range(len(sd.ATTRS)), 3):
                    ops.append({"a": r.choice(["set_trial_ua", "set_trial_sa"]), "t": t, "key": key, "v": v})
            else:
                key = r.choice(sd.KEYS)
                for v in r.sample(range(len(sd.ATTRS)), 3):
                    ops.append({"a": r.choice(["set_study_ua", "set_study_sa"]), "s": 1, "key": key, "v": v})
        ops.append({"a": "get_all_trials", "s": 1, "states": ["ALL"], "dc": 1, "as_list": 0})
        out.append({"hid": f"ow{i}", "ops": ops})
    return out


def histories(rng, n, n_ops=16):
    import random

    out = []
    for i in range(n):
        g = Gen(random.Random(rng.getrandbits(48)))
        out.append({"hid": i, "ops": g.history(n_ops)})
    return out


def multistudy_histories(rng, n):
    """'ids are storage-wide, numbers are per study': two or three studies whose trials are created interleaved, so that in
    every study but the first trial ids and trial numbers differ; after every completion each study is asked for its best
    trial, and ids/numbers/counts are read back per study"""
    import random

    vals = [v for v in sd.FINITE] + [-1000, 1000]
    out = []
    for i in range(n):
        r = random.Random(rng.getrandbits(48))
        ns = r.choice([2, 2, 3])
        ops = [{"a": "create_study", "name": nm, "dirs": [r.randint(0, 1)]} for nm in ["A", "B", "C"][:ns]]
        owner = []
        open_t = []
        for _ in range(r.randint(5, 8)):
            if len(owner) < 7 and (not open_t or r.random() < 0.55):
                s = r.randint(1, ns)
                if r.random() < 0.3:
                    tm = {"has": 1, "state": "COMPLETE", "values": [r.choice(vals)], "params": {}, "ua": {}, "sa": {},
                          "iv": {}, "ts": 1, "tc": 2}
                else:
                    tm = {"has": 0}
                    open_t.append(len(owner) + 1)
                ops.append({"a": "create_trial", "s": s, "tm": tm})
                owner.append(s)
                touched = s
            else:
                t = open_t.pop(r.randrange(len(open_t)))
                st = r.choice(["COMPLETE", "COMPLETE", "COMPLETE", "PRUNED", "FAIL"])
                ops.append({"a": "set_state", "t": t, "state": st,
                            "values": [r.choice(vals)] if st == "COMPLETE" or (st == "PRUNED" and r.random() < 0.5) else sd.NONE_V})
                touched = owner[t - 1]
            for s in ([touched] if r.random() < 0.5 else range(1, ns + 1)):
                ops.append({"a": "get_best_trial", "s": s})
            y = r.random()
            if y < 0.25:
                ops.append({"a": "get_trial_id_from_number", "s": r.randint(1, ns), "n": r.randint(0, 3)})
            elif y < 0.5 and owner:
                ops.append({"a": "get_trial_number", "t": r.randint(1, len(owner))})
            elif y < 0.7:
                ops.append({"a": "get_n_trials", "s": r.randint(1, ns), "state": r.choice(["ALL", "COMPLETE", "RUNNING"])})
        for s in range(1, ns + 1):
            ops.append({"a": "get_best_trial", "s": s})
            ops.append({"a": "get_all_trials", "s": s, "states": ["ALL"], "dc": 1, "as_list": 0})
        out.append({"hid": f"ms{i}", "ops": ops})
    return out


def compat_histories(rng, n):
    """'a parameter name has ONE kind of distribution per study, whichever trial recorded it first': three unfinished trials;
    one of them records `x`, then another one (older or newer) records `x` with a second distribution, compatible or not;
    a third write follows.  n = how many of the 6 x 64 (trial order x distribution pair) combinations are taken."""
    import itertools
    import random

    toks = [t for t, _ in sd.dists()]
    combos = [(a, b, d1, d2) for a, b in itertools.permutations([1, 2, 3], 2) for d1 in toks for d2 in toks]
    r = random.Random(rng.getrandbits(48))
    r.shuffle(combos)
    out = []
    for i, (a, b, d1, d2) in enumerate(combos[:n]):
        c = ({1, 2, 3} - {a, b}).pop()
        ops = [{"a": "create_study", "name": "A", "dirs": [0]}] + [{"a": "create_trial", "s": 1, "tm": {"has": 0}} for _ in range(3)]
        ops.append({"a": "set_param", "t": a, "name": "x", "v": r.choice(sd.param_vals_for(d1)), "d": d1})
        ops.append({"a": "set_param", "t": b, "name": "x", "v": r.choice(sd.param_vals_for(d2)), "d": d2})
        ops.append({"a": "get_trial", "t": b})
        d3 = r.choice([d1, d2])
        ops.append({"a": "set_param", "t": c, "name": "x", "v": r.choice(sd.param_vals_for(d3)), "d": d3})
        ops.append({"a": "get_all_trials", "s": 1, "states": ["ALL"], "dc": 1, "as_list": 0})
        out.append({"hid": f"cp{i}", "ops": ops})
    return out


def waiting_histories(rng, n):
    """the WAITING-filtered listing (what Study.ask uses to find a queued trial) asked REPEATEDLY without a claim in between,
    and around trials that go back to WAITING or are claimed: a backend that remembers where the last scan ended (the in-memory
    cursor) must still list every WAITING trial every time"""
    import random

    r = random.Random(rng.getrandbits(48))
    out = []
    for i in range(n):
        nt = r.randint(2, 5)
        ops = [{"a": "create_study", "name": "A", "dirs": [0]}] + [{"a": "create_trial", "s": 1, "tm": {"has": 0}} for _ in range(nt)]
        for t in r.sample(range(1, nt + 1), r.randint(1, nt)):
            ops.append({"a": "set_state", "t": t, "state": "WAITING", "values": sd.NONE_V})
        for _ in range(r.randint(6, 12)):
            y = r.random()
            if y < 0.5:
                ops.append({"a": "get_all_trials", "s": 1, "states": ["WAITING"], "dc": r.randint(0, 1), "as_list": r.randint(0, 1)})
            elif y < 0.7:
                ops.append({"a": "set_state", "t": r.randint(1, nt), "state": r.choice(["RUNNING", "WAITING"]), "values": sd.NONE_V})
            elif y < 0.8:
                ops.append({"a": "set_state", "t": r.randint(1, nt), "state": "COMPLETE", "values": [r.choice(sd.FINITE)]})
            elif y < 0.9:
                ops.append({"a": "create_trial", "s": 1, "tm": {"has": 0}})
                nt += 1
            else:
                ops.append({"a": "get_all_trials", "s": 1, "states": ["ALL"], "dc": 1, "as_list": 0})
        ops.append({"a": "get_all_trials", "s": 1, "states": ["WAITING"], "dc": 1, "as_list": 0})
        out.append({"hid": f"wq{i}", "ops": ops})
    return out


def delete_histories(rng, n):
    """'a deleted study and its trials are gone': trials are created, written and READ (so that every client-side cache holds
    them), the study is deleted, and then every way of reaching the study or one of its trials is tried, also after another
    study was created (which may reuse the raw ids on SQLite: such pokes are skipped by the replayer, finding K2)"""
    import random

    out = []
    for i in range(n):
        r = random.Random(rng.getrandbits(48))
        nt = r.randint(1, 3)
        ops = [{"a": "create_study", "name": "A", "dirs": [0]}, {"a": "create_study", "name": "B", "dirs": [1]}]
        for _ in range(nt):
            ops.append({"a": "create_trial", "s": 1, "tm": {"has": 0}})
        ops.append({"a": "create_trial", "s": 2, "tm": {"has": 0}})
        for t in range(1, nt + 1):
            if r.random() < 0.6:
                ops.append({"a": "set_state", "t": t, "state": "COMPLETE", "values": [r.choice(sd.FINITE)]})
        ops += [{"a": "get_all_trials", "s": 1, "states": ["ALL"], "dc": 1, "as_list": 0},
                {"a": "get_trial_id_from_number", "s": 1, "n": 0}, {"a": "get_trial_number", "t": 1},
                {"a": "delete_study", "s": 1}]
        probes = ([{"a": "get_trial_id_from_number", "s": 1, "n": k} for k in range(nt)] +
                  [{"a": "get_trial_number", "t": t} for t in range(1, nt + 1)] +
                  [{"a": "get_trial", "t": t} for t in range(1, nt + 1)] +
                  [{"a": "get_all_trials", "s": 1, "states": ["ALL"], "dc": 1, "as_list": 0}, {"a": "get_n_trials", "s": 1, "state": "ALL"},
                   {"a": "get_best_trial", "s": 1}, {"a": "get_study_name", "s": 1}, {"a": "get_study_dirs", "s": 1},
                   {"a": "set_trial_ua", "t": 1, "key": "k1", "v": 1}, {"a": "create_trial", "s": 1, "tm": {"has": 0}},
                   {"a": "get_trial_id_from_number", "s": 2, "n": 0}, {"a": "get_all_trials", "s": 2, "states": ["ALL"], "dc": 1, "as_list": 0}])
        r.shuffle(probes)
        ops += probes[: r.randint(6, len(probes))]
        out.append({"hid": f"del{i}", "ops": ops})
        # variant: the NEWEST study is deleted and a new one created (SQLite re-issues the study id, K2) while the dead
        # trial ids are NOT re-issued (an older study owns a larger trial id); the new study gets a finished trial with the
        # dead trial's number.  The dead trial ids must stay dead.
        fin = {"has": 1, "state": "COMPLETE", "values": [r.choice(sd.FINITE)], "params": {}, "ua": {}, "sa": {}, "iv": {},
               "ts": 1, "tc": 2}
        ops2 = [{"a": "create_study", "name": "B", "dirs": [1]}, {"a": "create_study", "name": "A", "dirs": [0]}]
        for _ in range(nt):
            ops2.append({"a": "create_trial", "s": 2, "tm": {"has": 0}})
        ops2.append({"a": "create_trial", "s": 1, "tm": {"has": 0}})          # trial nt+1: the largest trial id, not in A
        ops2 += [{"a": "get_all_trials", "s": 2, "states": ["ALL"], "dc": 1, "as_list": 0}, {"a": "get_trial", "t": 1},
                 {"a": "delete_study", "s": 2},
                 {"a": "create_study", "name": "C", "dirs": [0]},
                 {"a": "create_trial", "s": 3, "tm": fin}]
        probes2 = ([{"a": "get_trial", "t": t} for t in range(1, nt + 1)] +
                   [{"a": "get_trial_number", "t": t} for t in range(1, nt + 1)] +
                   [{"a": "get_trial_ua", "t": 1}, {"a": "get_trial_params", "t": 1}, {"a": "set_iv", "t": 1, "step": "0", "v": 2},
                    {"a": "get_all_trials", "s": 3, "states": ["ALL"], "dc": 1, "as_list": 0}, {"a": "get_best_trial", "s": 3},
                    {"a": "get_trial", "t": nt + 2}, {"a": "get_trial_id_from_number", "s": 3, "n": 0}])
        r.shuffle(probes2)
        out.append({"hid": f"delnew{i}", "ops": ops2 + probes2})
    return out
