"""C20 — objects read from a study are snapshots: later writes never change them.

Spec: specs/Handles.tla (Storage contract + handles, frame property HandlesNeverChange), HandlesMC (bounded exhaustive
instance + generator of read/write histories), HandlesTrace (binding: a real call history is replayed in the contract;
the projection of every real object at read time must be the contract's value, and its re-projection after every later
write must still be that value; after the harness modified a deep-copied result the read-back state must be the
contract's state).

Python here only generates scripts, runs them on the real storages / Study / Trial objects, keeps the returned objects
and writes down their projections (storage_driver.Replayer tokens).  It never compares two projections: the events
carry indices into a per-trace table of distinct projections (pure encoding) and TLC compares the values.
"""
from __future__ import annotations

import collections
import concurrent.futures as cf
import copy
import json
import os
import random
import shutil
import tempfile
import threading

from . import common, storage_driver as sd, storage_gen as sg, tlc

MC_ACTIONS = ["CreateStudy", "DeleteStudy", "SetStudyAttr", "CreateTrial", "SetParam", "SetState", "SetIV", "SetTrialAttr",
              "ReadAct", "StaleHandle"]
WRITES = {"create_study", "delete_study", "set_study_ua", "set_study_sa", "create_trial", "set_param", "set_state",
          "set_iv", "set_trial_ua", "set_trial_sa"}
STUDY_LEVEL_CONFIGS = ("inmemory", "journal_file", "cached_rdb")   # cached_rdb = what optuna.storages.get_storage builds
JOURNAL_LIKE = {"journal_file", "journal_file_openlock", "journal_redis"}

# real getter -> (abstract kind of Handles.tla, documented as a deep copy the caller may modify)
GETTERS = {
    "storage.get_trial": ("trial", False),
    "storage.get_all_trials(deepcopy=True)": ("trials", True),
    "storage.get_all_trials(deepcopy=False)": ("trials", False),
    "storage.get_best_trial": ("best", False),
    "storage.get_all_studies": ("studies", True),
    "storage.get_study_user_attrs": ("sattr", False),
    "storage.get_study_system_attrs": ("sattr", False),
    "storage.get_trial_user_attrs": ("tattr", False),
    "storage.get_trial_system_attrs": ("tattr", False),
    "storage.get_trial_params": ("tattr", False),
    "Study.trials": ("trials", True),
    "Study.get_trials(deepcopy=True)": ("trials", True),
    "Study.get_trials(deepcopy=False)": ("trials", False),
    "Study.best_trial": ("sbest", True),       # constrained studies: best FEASIBLE trial (which one: C12)
    "Study.best_trials": ("pareto", True),
    "Study.user_attrs": ("sattr", True),
    "Study.system_attrs": ("sattr", True),
    "Trial.params": ("tattr", True),
    "Trial.user_attrs": ("tattr", True),
    "Trial.system_attrs": ("tattr", True),
    "Study.tell": ("trial", True),             # the FrozenTrial returned by tell
    "optimize.callback": ("trial", True),      # the FrozenTrial passed to optimize callbacks
}
FIELD_OF = {"storage.get_study_user_attrs": "ua", "storage.get_study_system_attrs": "sa", "Study.user_attrs": "ua",
            "Study.system_attrs": "sa", "storage.get_trial_user_attrs": "ua", "storage.get_trial_system_attrs": "sa",
            "storage.get_trial_params": "params", "Trial.params": "params", "Trial.user_attrs": "ua",
            "Trial.system_attrs": "sa"}
STATE_SETS = [["ALL"], ["WAITING"], ["COMPLETE", "RUNNING"], ["RUNNING"], ["COMPLETE"], ["FAIL", "PRUNED", "WAITING"]]

# signatures of recorded scenario families (KNOWN_FINDINGS.json); anything else that TLC rejects is a violation
SIG_F9 = "live-Trial-write-changes-object-read-without-copy"
SIG_SATTR = "storage-study-attrs-dict-changes-on-set_study_attr"
TOUR_PARTS = 4
# Constrained optimisation: samplers store a list of floats under the system attr "constraints"; Study.best_trial /
# best_trials take other code paths then (best FEASIBLE trial, taken from get_trials(deepcopy=False)).  The attribute
# pool of storage_driver has no such list, so the two values are appended to the pool of THIS process (projection
# stays a bit-exact pool lookup; storage_driver.py itself is not modified).
CONSTRAINTS_KEY = "constraints"
for _v in ([-1.0], [1.0]):
    if not any(type(a) is list and a == _v and all(type(x) is float for x in a) for a in sd.ATTRS):
        sd.ATTRS.append(_v)
TOK_FEASIBLE = next(i for i, a in enumerate(sd.ATTRS) if a == [-1.0] and type(a[0]) is float)
TOK_INFEASIBLE = next(i for i, a in enumerate(sd.ATTRS) if a == [1.0] and type(a[0]) is float)
FIXED_PARAMS_TOK = 11      # sd.ATTRS[11] == {"a": {}}: the params dict handed to enqueue_trial


def _mapfix(x):
    return {} if x == [] else x


def op_from_last(last: dict):
    """HandlesMC's `last` record (parsed TLA+ value) -> script op."""
    a = last["a"]
    if a in ("init", "stale"):
        return None
    if a == "read":
        x = last["x"]
        return {"a": "aread", "g": last["g"], "s": x["s"], "t": x["t"], "f": x["f"], "states": list(x["states"])}
    op = {k: v for k, v in last.items() if k != "ret"}
    if a == "create_trial":
        tm = dict(op["tm"])
        if tm["has"]:
            for f in ("params", "ua", "sa", "iv"):
                tm[f] = _mapfix(tm[f])
            tm["params"] = {n: {"d": p["d"], "v": p["v"]} for n, p in tm["params"].items()}
        op["tm"] = tm
    return op


def vias_for(g, f, states):
    """every real getter that implements the abstract getter (g, f)"""
    if g == "trial":
        return ["storage.get_trial"]
    if g == "trials":
        v = ["storage.get_all_trials(deepcopy=True)", "storage.get_all_trials(deepcopy=False)",
             "Study.get_trials(deepcopy=True)", "Study.get_trials(deepcopy=False)"]
        return v + (["Study.trials"] if states == ["ALL"] else [])
    if g == "studies":
        return ["storage.get_all_studies"]
    if g == "sattr":
        return ["storage.get_study_user_attrs", "Study.user_attrs"] if f == "ua" else \
            ["storage.get_study_system_attrs", "Study.system_attrs"]
    if g == "tattr":
        return {"ua": ["storage.get_trial_user_attrs"], "sa": ["storage.get_trial_system_attrs"],
                "params": ["storage.get_trial_params"]}[f]
    if g == "best":
        return ["storage.get_best_trial"]
    if g == "sbest":
        return ["Study.best_trial"]
    if g == "pareto":
        return ["Study.best_trials"]
    raise KeyError(g)


def rd(via, s=0, t=0, slot=None, states=None, as_list=0):
    op = {"a": "read", "via": via, "s": s, "t": t, "states": states or ["ALL"], "as_list": as_list}
    if slot is not None:
        op["slot"] = slot
    return op


# ---------------------------------------------------------------------------------------------------
# execution: script -> real calls -> events
# ---------------------------------------------------------------------------------------------------
class Held:
    __slots__ = ("obj", "pk", "via", "g", "deep", "maps", "mutated", "tgt")

    def __init__(self, obj, pk, via, g, deep, maps, tgt):
        self.obj, self.pk, self.via, self.g, self.deep, self.maps, self.tgt = obj, pk, via, g, deep, maps, tgt
        self.mutated = False


def _fixed_sampler():
    import optuna

    class FixedSampler(optuna.samplers.BaseSampler):
        """returns the value the script chose (inputs are the harness' business)"""

        def __init__(self):
            self.next = None

        def infer_relative_search_space(self, study, trial):
            return {}

        def sample_relative(self, study, trial, search_space):
            return {}

        def sample_independent(self, study, trial, param_name, param_distribution):
            return self.next

    return FixedSampler()


class Exec:
    def __init__(self, storage, config):
        self.config = config
        self.storage = storage
        self.rp = sd.Replayer(storage)
        self.study_level = config in STUDY_LEVEL_CONFIGS
        self.held = []
        self.tab = []
        self.tab_ix = {}
        self.ev = []
        self.studies = {}     # abstract study index -> optuna Study
        self.slots = {}       # slot -> [Trial, abstract trial index, abstract study index]
        self.sampler = _fixed_sampler()
        self.stats = collections.Counter()
        self.pairs = set()    # (getter via, later setter via) with the object held across the write

    # ----- projections
    def intern(self, proj):
        key = json.dumps(proj, sort_keys=True)
        i = self.tab_ix.get(key)
        if i is None:
            self.tab.append(proj)
            i = self.tab_ix[key] = len(self.tab)
        return i

    def _proj(self, pk, obj):
        rp = self.rp
        if pk == "trial":
            return rp.proj_trial(obj)
        if pk == "trials":
            return [rp.proj_trial(t) for t in obj]
        if pk == "studies":
            return [rp.proj_study(fs) for fs in sorted(obj, key=lambda fs: rp.s_of_raw.get(fs._study_id, 0))]
        if pk == "attrs":
            return {k: sd.attr_to_tok(v) for k, v in obj.items()}
        if pk == "params":
            ps, ds = obj
            return {n: {"d": sd.dist_to_tok(ds.get(n)),
                        "v": sd.val_to_tok(ds[n].to_internal_repr(ps[n])) if n in ds else sd.OTHER_VAL} for n in ps}
        raise KeyError(pk)

    def project(self, h):
        """index of the current projection of a held object (ids are named as they were when it was read); 0 = unprojectable"""
        rp = self.rp
        saved = (rp.t_of_raw, rp.s_of_raw)
        rp.t_of_raw, rp.s_of_raw = h.maps
        try:
            return self.intern(self._proj(h.pk, h.obj))
        except Exception:
            return 0
        finally:
            rp.t_of_raw, rp.s_of_raw = saved

    def hold(self, obj, pk, via, tgt):
        g, deep = GETTERS[via]
        h = Held(obj, pk, via, g, deep, (dict(self.rp.t_of_raw), dict(self.rp.s_of_raw)), tgt)
        idx = self.project(h)
        self.held.append(h)
        self.ev.append({"a": "read", "g": g, "s": tgt.get("s", 0), "t": tgt.get("t", 0), "f": tgt.get("f", "-"),
                        "states": tgt.get("states", []), "v": idx, "via": via})
        self.stats["reads"] += 1

    def after_write(self, via):
        vals = []
        for h in self.held:
            if h.mutated:
                vals.append(0)
            else:
                vals.append(self.project(h))
                self.pairs.add((h.via, via))
        self.ev.append({"a": "recheck", "vals": vals, "after": via})

    def write_event(self, op, ret, via):
        ev = {k: v for k, v in op.items() if k not in ("slot", "inner", "via")}
        ev["ret"] = ret
        ev["via"] = via
        self.ev.append(ev)
        self.stats["writes"] += 1
        self.after_write(via)

    # ----- Study objects
    def study_obj(self, s):
        import optuna

        st = self.studies.get(s)
        if st is None:
            name = self.storage.get_study_name_from_id(self.rp.S(s))
            st = optuna.load_study(study_name=name, storage=self.storage, sampler=self.sampler)
            self.studies[s] = st
        return st

    def _new_trial_raw(self, s):
        """raw id of the trial a Study-level call has just created (bookkeeping read, not a handle)"""
        for ft in reversed(self.storage.get_all_trials(self.rp.S(s), deepcopy=False)):
            if ft._trial_id not in self.rp.t_of_raw:
                return ft._trial_id
        raise tlc.MachineryError("Study-level create: no new trial found")

    def _register_trial(self, raw):
        self.rp.rawT.append(raw)
        self.rp.t_of_raw[raw] = len(self.rp.rawT)
        return len(self.rp.rawT)

    @staticmethod
    def _err(e):
        n = type(e).__name__
        for cls in type(e).__mro__:
            if cls.__name__ in sd.ERRORS:
                return {"k": "err", "v": cls.__name__}
        return {"k": "err", "v": f"Unexpected:{n}:{str(e)[:120]}"}

    # ----- reads
    def fetch(self, op):
        """-> (object, projection kind, abstract target)"""
        from optuna.trial import TrialState

        via, rp, st = op["via"], self.rp, self.storage
        s, t = op.get("s", 0), op.get("t", 0)
        states = op.get("states") or ["ALL"]
        if via.startswith("storage.get_all_trials") or via.startswith("Study.get_trials"):
            sts = None if states == ["ALL"] else tuple(TrialState[x] for x in states)
            if sts is not None and op.get("as_list"):
                sts = list(sts)
            dc = via.endswith("(deepcopy=True)")
            if via.startswith("storage."):
                return st.get_all_trials(rp.S(s), deepcopy=dc, states=sts), "trials", {"s": s, "states": states}
            return self.study_obj(s).get_trials(deepcopy=dc, states=sts), "trials", {"s": s, "states": states}
        if via == "storage.get_trial":
            return st.get_trial(rp.T(t)), "trial", {"t": t}
        if via == "storage.get_best_trial":
            return st.get_best_trial(rp.S(s)), "trial", {"s": s}
        if via == "storage.get_all_studies":
            return st.get_all_studies(), "studies", {}
        if via == "storage.get_study_user_attrs":
            return st.get_study_user_attrs(rp.S(s)), "attrs", {"s": s, "f": "ua"}
        if via == "storage.get_study_system_attrs":
            return st.get_study_system_attrs(rp.S(s)), "attrs", {"s": s, "f": "sa"}
        if via == "storage.get_trial_user_attrs":
            return st.get_trial_user_attrs(rp.T(t)), "attrs", {"t": t, "f": "ua"}
        if via == "storage.get_trial_system_attrs":
            return st.get_trial_system_attrs(rp.T(t)), "attrs", {"t": t, "f": "sa"}
        if via == "storage.get_trial_params":
            ps = st.get_trial_params(rp.T(t))
            ds = copy.deepcopy(st.get_trial(rp.T(t)).distributions)     # decoding aid only; the dict held is ps
            return (ps, ds), "params", {"t": t, "f": "params"}
        if via == "Study.trials":
            return self.study_obj(s).trials, "trials", {"s": s, "states": ["ALL"]}
        if via == "Study.best_trial":
            return self.study_obj(s).best_trial, "trial", {"s": s}
        if via == "Study.best_trials":
            return self.study_obj(s).best_trials, "trials", {"s": s}
        if via == "Study.user_attrs":
            return self.study_obj(s).user_attrs, "attrs", {"s": s, "f": "ua"}
        if via == "Study.system_attrs":
            return self.study_obj(s).system_attrs, "attrs", {"s": s, "f": "sa"}
        if via.startswith("Trial."):
            trial, t = self.slots[op["slot"]][:2]
            if via == "Trial.params":
                return (trial.params, trial.distributions), "params", {"t": t, "f": "params"}
            if via == "Trial.user_attrs":
                return trial.user_attrs, "attrs", {"t": t, "f": "ua"}
            return trial.system_attrs, "attrs", {"t": t, "f": "sa"}
        raise KeyError(via)

    def do_read(self, op):
        via = op["via"]
        if not via.startswith("storage.") and not self.study_level:
            return
        if via.startswith("Trial.") and op.get("slot") not in self.slots:
            return
        if self.rp.stale_study(op.get("s", 0)) or self.rp.stale_trial(op.get("t", 0)):
            return
        try:
            obj, pk, tgt = self.fetch(op)
        except tlc.MachineryError:
            raise
        except Exception:
            self.stats["reads_raised"] += 1     # error replies of getters are C01's subject; nothing is handed out
            return
        self.hold(obj, pk, via, tgt)

    # ----- deliberate modification of results documented as deep copies
    def do_mutate(self, op):
        from optuna.trial import FrozenTrial, TrialState

        cand = [i for i, h in enumerate(self.held) if h.deep and not h.mutated and op.get("via") in (None, h.via)]
        if not cand:
            return
        i = cand[-1] if "via" in op else cand[op["pick"] % len(cand)]
        h = self.held[i]
        how = op["how"]

        def mut_trial(ft, k):
            k %= 9
            if k == 7 and not ft.distributions:
                k = 0
            if k == 8 and not any(isinstance(v, (list, dict)) for v in list(ft.user_attrs.values()) + list(ft.system_attrs.values())):
                k = 3
            if k == 7:       # one level deeper: the distribution OBJECTS of a deep copy belong to the caller as well
                for d in ft.distributions.values():
                    if hasattr(d, "choices"):
                        d.choices = tuple(d.choices) + ("zz",)
                    else:
                        d.high = d.high + 1
                return "distribution objects edited in place"
            if k == 8:       # ... and so do nested attribute values
                for v in list(ft.user_attrs.values()) + list(ft.system_attrs.values()):
                    if isinstance(v, list):
                        v.append("zz")
                    elif isinstance(v, dict):
                        v["zz"] = 1
                return "nested attribute values edited in place"
            if k == 0:
                ft.user_attrs["zz"] = 1
            elif k == 1:
                ft.params["zz"] = 1.0
            elif k == 2:
                ft.values = [1.5] * max(1, len(ft.values or [0]))
            elif k == 3:
                ft.system_attrs["zz"] = 1
            elif k == 4:
                ft.intermediate_values[7] = 1.5
            elif k == 5:
                ft.state = TrialState.FAIL if ft.state != TrialState.FAIL else TrialState.PRUNED
            else:
                ft.datetime_complete = sd.DATES[1]
                ft.user_attrs.clear()
            return ["user_attrs['zz']=1", "params['zz']=1.0", "values=[1.5..]", "system_attrs['zz']=1",
                    "intermediate_values[7]=1.5", "state flipped", "datetime_complete set, user_attrs cleared"][k]

        obj = h.obj
        if h.pk == "trial":
            desc = mut_trial(obj, how)
        elif h.pk == "trials":
            if obj and how % 8 != 7:
                e = (how // 8) % len(obj)
                desc = f"[{e}]." + mut_trial(obj[e], how)
            else:
                desc = "list cleared" if obj else "element appended"
                if obj:
                    del obj[:]
                else:
                    obj.append(self.rp.template({"has": 1, "state": "FAIL", "values": sd.NONE_V, "params": {}, "ua": {},
                                                 "sa": {}, "iv": {}, "ts": 1, "tc": 1}))
        elif h.pk == "studies":
            if obj and how % 3 != 2:
                e = (how // 3) % len(obj)
                if how % 3 == 0:
                    obj[e].user_attrs["zz"] = 1
                else:
                    obj[e].system_attrs["zz"] = 1
                desc = f"[{e}].{'user' if how % 3 == 0 else 'system'}_attrs['zz']=1"
            else:
                del obj[:]
                desc = "list cleared"
        elif h.pk == "attrs":
            if how % 2 == 0 or not obj:
                obj["zz"] = 1
                desc = "['zz']=1"
            else:
                obj.clear()
                desc = "dict cleared"
        else:
            obj[0]["zz"] = 1.0
            obj[1].pop(next(iter(obj[1]), None), None)
            desc = "params['zz']=1.0, a distribution removed"
        h.mutated = True
        self.ev.append({"a": "mutate", "h": i + 1, "via": h.via, "how": desc})
        self.stats["mutations"] += 1
        self.after_write("mutate:" + h.via)
        self.do_post()

    def do_post(self):
        self.ev.append({"a": "post", "post": self.rp.post()})

    # ----- writes
    def step(self, op):
        a = op["a"]
        rp = self.rp
        if a == "read":
            return self.do_read(op)
        if a == "aread":       # abstract read of a HandlesMC behaviour: through every real getter implementing it
            for via in vias_for(op["g"], op["f"], op["states"]):
                self.do_read({"a": "read", "via": via, "s": op["s"], "t": op["t"], "states": op["states"] or ["ALL"],
                              "as_list": op.get("as_list", 0)})
            return
        if a == "mutate":
            return self.do_mutate(op)
        if a == "post":
            return self.do_post()
        if a in WRITES:
            if ("s" in op and rp.stale_study(op["s"])) or ("t" in op and rp.stale_trial(op["t"])):
                return      # the backend re-issued this id (recorded finding K2 of C01): the call would hit another object
            if "t" in op and any(sl[1] == op["t"] for sl in self.slots.values()):
                return      # a trial owned by a live Trial object is written through that object only
            ret, _raw = rp.call(op)
            return self.write_event(op, ret, "storage." + a)
        if a.startswith("get_"):
            return          # getters of storage_gen histories are replaced by the reads of this check
        if not self.study_level:
            return
        return self.study_step(op)

    def study_step(self, op):
        import optuna
        from optuna.distributions import CategoricalDistribution, FloatDistribution
        from optuna.study import StudyDirection
        from optuna.trial import TrialState

        a, rp = op["a"], self.rp
        if a == "S.create_study":
            try:
                study = optuna.create_study(
                    storage=self.storage, study_name=None if op["name"] == "auto" else op["name"], sampler=self.sampler,
                    directions=[StudyDirection.MINIMIZE if d == 0 else StudyDirection.MAXIMIZE for d in op["dirs"]])
                raw = study._study_id
                rp.rawS.append(raw)
                rp.s_of_raw[raw] = len(rp.rawS)
                self.studies[len(rp.rawS)] = study
                ret = {"k": "ok", "v": len(rp.rawS)}
            except Exception as e:
                ret = self._err(e)
            return self.write_event({"a": "create_study", "name": op["name"], "dirs": op["dirs"]}, ret, "optuna.create_study")
        if a in ("S.set_ua", "S.set_sa"):
            if rp.stale_study(op["s"]):
                return
            try:
                study = self.study_obj(op["s"])
                (study.set_user_attr if a == "S.set_ua" else study.set_system_attr)(op["key"], sd.ATTRS[op["v"]])
                ret = {"k": "ok", "v": 0}
            except Exception as e:
                ret = self._err(e)
            return self.write_event({"a": "set_study_ua" if a == "S.set_ua" else "set_study_sa", "s": op["s"],
                                     "key": op["key"], "v": op["v"]}, ret,
                                    "Study.set_user_attr" if a == "S.set_ua" else "Study.set_system_attr")
        if a == "S.ask":
            if rp.stale_study(op["s"]):
                return
            try:
                trial = self.study_obj(op["s"]).ask()
            except Exception:
                self.stats["ask_raised"] += 1
                return
            return self.note_ask(trial, op["s"], op["slot"], "Study.ask")
        if a in ("S.enqueue", "S.add_trial"):
            if rp.stale_study(op["s"]):
                return
            if a == "S.enqueue":
                tm = {"has": 1, "state": "WAITING", "values": sd.NONE_V, "params": {}, "ua": dict(op["ua"]),
                      "sa": {"fixed_params": FIXED_PARAMS_TOK}, "iv": {}, "ts": 0, "tc": 0}
            else:
                tm = op["tm"]
            try:
                study = self.study_obj(op["s"])
                if a == "S.enqueue":
                    study.enqueue_trial(copy.deepcopy(sd.ATTRS[FIXED_PARAMS_TOK]),
                                        user_attrs={k: sd.ATTRS[v] for k, v in op["ua"].items()})
                else:
                    study.add_trial(rp.template(tm))
            except Exception:
                self.stats["add_trial_refused"] += 1      # optuna's own validation refused the template: nothing written
                return
            t = self._register_trial(self._new_trial_raw(op["s"]))
            return self.write_event({"a": "create_trial", "s": op["s"], "tm": tm}, {"k": "ok", "v": t},
                                    "Study.enqueue_trial" if a == "S.enqueue" else "Study.add_trial")
        if a == "S.optimize":
            if rp.stale_study(op["s"]):
                return
            try:
                study = self.study_obj(op["s"])
            except Exception:
                return
            values = [sd.VALS[x] for x in op["values"]]
            slot = op["slot"]

            def objective(trial):
                self.note_ask(trial, op["s"], slot, "Study.optimize:ask")
                for iop in op["inner"]:
                    self.step(iop)
                return values[0] if len(values) == 1 else values

            def callback(study_, ft):
                t = self.slots[slot][1]
                if 9999 in op["values"]:      # the objective RETURNED NaN: optimize records the trial as FAIL without values
                    self.write_event({"a": "set_state", "t": t, "state": "FAIL", "values": sd.NONE_V},
                                     {"k": "ok", "v": True}, "Study.optimize:tell")
                    return                    # (the object handed to callbacks carries a transient warning attribute)
                self.write_event({"a": "set_state", "t": t, "state": "COMPLETE", "values": op["values"]},
                                 {"k": "ok", "v": True}, "Study.optimize:tell")
                self.hold(ft, "trial", "optimize.callback", {"t": t})

            study.optimize(objective, n_trials=1, callbacks=[callback])
            return
        # the remaining ops address a live Trial object
        if op.get("slot") not in self.slots:
            return
        trial, t, s, steps, names = self.slots[op["slot"]]
        if a == "T.suggest":
            if op["name"] in names:
                return
            names.add(op["name"])
            d = sd.dist_of(op["d"])
            self.sampler.next = d.to_external_repr(sd.VALS[op["v"]])
            try:
                if isinstance(d, CategoricalDistribution):
                    trial.suggest_categorical(op["name"], d.choices)
                    via = "Trial.suggest_categorical"
                elif isinstance(d, FloatDistribution):
                    trial.suggest_float(op["name"], d.low, d.high, step=d.step, log=d.log)
                    via = "Trial.suggest_float"
                else:
                    trial.suggest_int(op["name"], d.low, d.high, step=d.step, log=d.log)
                    via = "Trial.suggest_int"
                ret = {"k": "ok", "v": 0}
            except Exception as e:
                ret, via = self._err(e), "Trial.suggest"
            return self.write_event({"a": "set_param", "t": t, "name": op["name"], "v": op["v"], "d": op["d"]}, ret, via)
        if a == "T.report":
            if int(op["step"]) in steps:
                return
            steps.add(int(op["step"]))
            try:
                trial.report(sd.VALS[op["v"]], int(op["step"]))
                ret = {"k": "ok", "v": 0}
            except Exception as e:
                ret = self._err(e)
            return self.write_event({"a": "set_iv", "t": t, "step": str(op["step"]), "v": op["v"]}, ret, "Trial.report")
        if a in ("T.set_ua", "T.set_sa"):
            try:
                (trial.set_user_attr if a == "T.set_ua" else trial.set_system_attr)(op["key"], sd.ATTRS[op["v"]])
                ret = {"k": "ok", "v": 0}
            except Exception as e:
                ret = self._err(e)
            return self.write_event({"a": "set_trial_ua" if a == "T.set_ua" else "set_trial_sa", "t": t, "key": op["key"],
                                     "v": op["v"]}, ret, "Trial.set_user_attr" if a == "T.set_ua" else "Trial.set_system_attr")
        if a == "S.tell":
            vals = None if op["values"] == sd.NONE_V else [sd.VALS[x] for x in op["values"]]
            try:
                ft = self.study_obj(s).tell(trial, vals, state=TrialState[op["state"]])
                ret = {"k": "ok", "v": True}
            except Exception as e:
                ft, ret = None, self._err(e)
            self.write_event({"a": "set_state", "t": t, "state": op["state"], "values": op["values"]}, ret, "Study.tell")
            if ft is not None:
                self.hold(ft, "trial", "Study.tell", {"t": t})
            return
        raise tlc.MachineryError(f"unknown script op {a}")

    def note_ask(self, trial, s, slot, via):
        """ask() either started the first WAITING trial or created a new one: which, is what the returned id says"""
        rp = self.rp
        raw = trial._trial_id
        if raw in rp.t_of_raw and not rp.stale_trial(rp.t_of_raw[raw]):
            t = rp.t_of_raw[raw]
            ev = {"a": "set_state", "t": t, "state": "RUNNING", "values": sd.NONE_V}
            ret = {"k": "ok", "v": True}
        else:
            t = self._register_trial(raw)
            ev = {"a": "create_trial", "s": s, "tm": {"has": 0}}
            ret = {"k": "ok", "v": t}
        # what the trial already holds (bookkeeping read): Trial.report / suggest_* on a step / name that exists are
        # documented no-ops, so the scripts' ops on those are dropped instead of being logged as writes
        ft = self.storage.get_trial(raw)
        self.slots[slot] = [trial, t, s, set(ft.intermediate_values), set(ft.params)]
        self.write_event(ev, ret, via)

    def run(self, script):
        for op in script:
            self.step(op)
        return self


def run_scripts(config, scripts, workdir=None):
    own = workdir is None
    workdir = workdir or tempfile.mkdtemp(prefix="c20-", dir=os.environ.get("VERIF_SCRATCH_BASE", "/var/tmp"))
    out = []
    try:
        for sc in scripts:
            be = sd.Backend(config, workdir)
            try:
                ex = Exec(be.storage, config).run(sc["ops"])
                out.append({"config": config, "hid": sc["hid"], "ops": sc["ops"], "ev": ex.ev, "tab": ex.tab,
                            "meta": [[h.via, h.deep, h.tgt] for h in ex.held], "stats": dict(ex.stats),
                            "pairs": sorted(ex.pairs)})
            finally:
                be.close()
    finally:
        if own:
            shutil.rmtree(workdir, ignore_errors=True)
    return out


def _run_chunk(args):
    common.use_repo()
    return run_scripts(*args)


def execute(plan):
    tasks = []
    for config, scs in plan:
        per = 6 if config in sd.SLOW else 25
        for i in range(0, len(scs), per):
            tasks.append((config, scs[i:i + per]))
    tasks.sort(key=lambda t: -(len(t[1]) * (8 if t[0] in sd.SLOW else 1)))
    traces = []
    with cf.ProcessPoolExecutor(max_workers=16) as ex:
        for res in ex.map(_run_chunk, tasks):
            traces += res
    return traces


# ---------------------------------------------------------------------------------------------------
# script generation (inputs only; nothing here knows what a getter should return)
# ---------------------------------------------------------------------------------------------------
TM_WAITING = {"has": 1, "state": "WAITING", "values": sd.NONE_V, "params": {}, "ua": {"k1": 1}, "sa": {}, "iv": {}, "ts": 0,
              "tc": 0}
D_FLOAT = {"c": "float", "g": 0, "k": 0}
D_CAT = {"c": "cat", "g": 0, "k": 0}
D_INT = {"c": "int", "g": 0, "k": 0}
TM_COMPLETE = {"has": 1, "state": "COMPLETE", "values": [2], "params": {"x": {"d": D_FLOAT, "v": 3}}, "ua": {"k2": 6},
               "sa": {"k1": 0}, "iv": {"0": 9999, "1": 4}, "ts": 1, "tc": 2}


def storage_burst(studies, trials):
    ops = [rd("storage.get_all_studies")]
    for s in studies:
        for i, states in enumerate(STATE_SETS):
            ops.append(rd("storage.get_all_trials(deepcopy=True)", s=s, states=states, as_list=i % 2))
            ops.append(rd("storage.get_all_trials(deepcopy=False)", s=s, states=states, as_list=(i + 1) % 2))
        ops += [rd("storage.get_best_trial", s=s), rd("storage.get_study_user_attrs", s=s),
                rd("storage.get_study_system_attrs", s=s)]
    for t in trials:
        ops += [rd("storage.get_trial", t=t), rd("storage.get_trial_user_attrs", t=t),
                rd("storage.get_trial_system_attrs", t=t), rd("storage.get_trial_params", t=t)]
    return ops


def study_burst(studies, slots):
    ops = []
    for s in studies:
        ops += [rd("Study.trials", s=s), rd("Study.get_trials(deepcopy=False)", s=s),
                rd("Study.get_trials(deepcopy=True)", s=s, states=["COMPLETE", "RUNNING"]),
                rd("Study.get_trials(deepcopy=False)", s=s, states=["RUNNING"], as_list=1),
                rd("Study.best_trial", s=s), rd("Study.best_trials", s=s), rd("Study.user_attrs", s=s),
                rd("Study.system_attrs", s=s)]
    for sl in slots:
        ops += [rd("Trial.params", slot=sl), rd("Trial.user_attrs", slot=sl), rd("Trial.system_attrs", slot=sl)]
    return ops


def storage_tour(j=0, m=1):
    """every storage getter is held across every storage setter that touches the object it describes
    (part j of m: the reads are placed before the setters number j, j+m, ...)"""
    setup = [
        {"a": "create_study", "name": "A", "dirs": [0]},
        {"a": "create_study", "name": "auto", "dirs": [0, 1]},
        {"a": "create_trial", "s": 1, "tm": {"has": 0}},
        {"a": "create_trial", "s": 1, "tm": TM_WAITING},
        {"a": "create_trial", "s": 1, "tm": TM_COMPLETE},
        {"a": "create_trial", "s": 2, "tm": {"has": 0}},
    ]
    setters = [
        {"a": "set_study_ua", "s": 1, "key": "k1", "v": 1},
        {"a": "set_study_sa", "s": 1, "key": "k1", "v": 6},
        {"a": "set_param", "t": 1, "name": "x", "v": 2, "d": D_FLOAT},
        {"a": "set_iv", "t": 1, "step": "0", "v": 4},
        {"a": "set_trial_ua", "t": 1, "key": "k1", "v": 5},
        {"a": "set_trial_sa", "t": 1, "key": "k1", "v": 2},
        {"a": "set_trial_ua", "t": 1, "key": "k1", "v": 7},
        {"a": "set_iv", "t": 1, "step": "0", "v": 9999},
        {"a": "set_state", "t": 2, "state": "RUNNING", "values": sd.NONE_V},
        {"a": "set_param", "t": 2, "name": "y", "v": 3, "d": D_CAT},
        {"a": "set_trial_ua", "t": 2, "key": "k1", "v": 3},
        {"a": "create_trial", "s": 1, "tm": {"has": 0}},
        {"a": "set_state", "t": 1, "state": "COMPLETE", "values": [0]},
        {"a": "set_trial_ua", "t": 1, "key": "k2", "v": 1},            # refused: finished
        {"a": "set_state", "t": 2, "state": "FAIL", "values": sd.NONE_V},
        {"a": "set_study_ua", "s": 1, "key": "k1", "v": 10},
        {"a": "set_study_ua", "s": 2, "key": "k2", "v": 4},
        {"a": "set_param", "t": 4, "name": "x", "v": 0, "d": D_FLOAT},
        {"a": "set_state", "t": 4, "state": "COMPLETE", "values": [1, 5]},
        {"a": "delete_study", "s": 2},
        {"a": "create_study", "name": "B", "dirs": [1]},
    ]
    ops = list(setup)
    for n, w in enumerate(setters):
        if n % m == j:
            ops += storage_burst([1, 2], [1, 2, 3, 4])
        ops.append(w)
    ops += storage_burst([1, 3], [1, 2, 3, 5])
    for k, via in enumerate(v for v, (_, deep) in GETTERS.items() if deep and v.startswith("storage.")):
        ops.append({"a": "mutate", "via": via, "how": 9 * j + 5 * k})     # the latest result of every deep-copying getter
    return ops


def study_tour(j=0, m=1):
    """every Study/Trial/storage getter held across every Study/Trial-level setter (part j of m, as storage_tour)"""
    b = lambda slots: study_burst([1], slots) + storage_burst([1], [1, 2, 3])  # noqa: E731
    ops = [
        {"a": "S.create_study", "name": "A", "dirs": [0]},
        {"a": "S.enqueue", "s": 1, "ua": {"k1": 1}},
        {"a": "S.add_trial", "s": 1, "tm": TM_COMPLETE},
        {"a": "S.ask", "s": 1, "slot": 0},          # starts the enqueued trial
        {"a": "S.ask", "s": 1, "slot": 1},          # creates a new one
    ]
    for n, w in enumerate([
        {"a": "T.suggest", "slot": 0, "name": "x", "d": D_FLOAT, "v": 2},
        {"a": "T.report", "slot": 0, "step": 0, "v": 4},
        {"a": "T.set_ua", "slot": 0, "key": "k2", "v": 5},
        {"a": "T.set_sa", "slot": 0, "key": "k1", "v": 2},
        {"a": "T.suggest", "slot": 0, "name": "y", "d": D_CAT, "v": 3},
        {"a": "T.set_ua", "slot": 0, "key": "k2", "v": 7},
        {"a": "T.suggest", "slot": 0, "name": "z", "d": D_INT, "v": 5},
        {"a": "T.report", "slot": 0, "step": 1, "v": 9999},
        {"a": "S.set_ua", "s": 1, "key": "k1", "v": 1},
        {"a": "S.set_sa", "s": 1, "key": "k2", "v": 6},
        {"a": "S.set_ua", "s": 1, "key": "k1", "v": 10},
        {"a": "T.suggest", "slot": 1, "name": "x", "d": D_FLOAT, "v": 0},
        {"a": "T.set_sa", "slot": 0, "key": CONSTRAINTS_KEY, "v": TOK_FEASIBLE},
        {"a": "S.tell", "slot": 0, "state": "COMPLETE", "values": [0]},
        {"a": "S.enqueue", "s": 1, "ua": {}},
        {"a": "T.set_ua", "slot": 1, "key": "k1", "v": 3},
        {"a": "S.tell", "slot": 1, "state": "FAIL", "values": sd.NONE_V},
        {"a": "S.optimize", "s": 1, "slot": 2, "values": [-2], "inner":
            (b([2]) if j == 0 else []) + [{"a": "T.suggest", "slot": 2, "name": "x", "d": D_FLOAT, "v": 3}] +
            (b([2]) if j == 1 % m else []) + [{"a": "T.report", "slot": 2, "step": 0, "v": 2}] +
            (b([2]) if j == 2 % m else []) + [{"a": "T.set_ua", "slot": 2, "key": "k1", "v": 4}] +
            (b([2]) if j == 3 % m else []) +
            # the trial with the best value (-1.5) is infeasible, slot 0 (0.0) is feasible: from here on
            # Study.best_trial is on its constrained fallback path
            [{"a": "T.set_sa", "slot": 2, "key": CONSTRAINTS_KEY, "v": TOK_INFEASIBLE}]},
        {"a": "S.ask", "s": 1, "slot": 3},
        {"a": "S.add_trial", "s": 1, "tm": TM_WAITING},
    ]):
        if n % m == j:
            ops += b([0, 1])
        ops.append(w)
    ops += b([0, 1, 2, 3])
    for k, via in enumerate(v for v, (_, deep) in GETTERS.items() if deep):
        ops.append({"a": "mutate", "via": via, "how": 9 * j + 5 * k})
    return ops


def _random_read(r, n_s, n_t, slots, study_level):
    vias = [v for v in GETTERS if v.startswith("storage.")]
    if study_level:
        vias += [v for v in GETTERS if v.startswith("Study.") and v != "Study.tell"]
        if slots:
            vias += ["Trial.params", "Trial.user_attrs", "Trial.system_attrs"]
    via = r.choice(vias)
    return rd(via, s=r.randint(1, max(1, n_s)), t=r.randint(1, max(1, n_t)), slot=r.choice(slots) if slots else None,
              states=r.choice(STATE_SETS), as_list=r.randint(0, 1))


def with_reads(r, writes, study_level=True):
    """storage-level history (ops of storage_gen / StorageMC vocabulary) with reads and modifications inserted"""
    ops, n_s, n_t = [], 0, 0
    constrained = r.random() < 0.4
    for op in writes:
        if op["a"].startswith("get_"):
            continue
        if constrained and op["a"] == "set_trial_sa" or (op["a"] == "set_trial_sa" and r.random() < 0.2):
            op = dict(op, key=CONSTRAINTS_KEY, v=r.choice([TOK_FEASIBLE, TOK_INFEASIBLE]))
        ops.append(op)
        n_s += op["a"] == "create_study"
        n_t += op["a"] == "create_trial"
        x = r.random()
        if x < 0.15:
            ops += storage_burst(list(range(1, n_s + 1)), list(range(1, n_t + 1))[-3:])
            if study_level:
                ops += study_burst(list(range(1, n_s + 1))[-1:], [])
        elif x < 0.8:
            ops += [_random_read(r, n_s, n_t, [], study_level) for _ in range(r.randint(1, 5))]
        if r.random() < 0.08:
            ops.append({"a": "mutate", "pick": r.randrange(1000), "how": r.randrange(64)})
    ops.append({"a": "mutate", "pick": r.randrange(1000), "how": r.randrange(64)})
    if study_level and n_s:
        ops += [rd("Study.best_trial", s=r.randint(1, n_s)), {"a": "mutate", "via": "Study.best_trial", "how": r.randrange(64)}]
    return ops


def random_session(r, n_ops=26):
    """Study/Trial-level session: live Trial objects, other workers' storage writes, reads everywhere"""
    ops = []
    studies = []      # dirs
    slots = []        # dict(s, live, params, steps)
    n_t = 0
    waiting = {}      # study -> count of WAITING trials (aiming only)
    pool_x = [0, 2, 3]
    constrained = r.random() < 0.5     # trials carry the "constraints" system attr a constrained sampler stores

    def constraint(slot):
        """the attr is written once per trial, before it is told (as samplers do in after_trial)"""
        if not constrained or slots[slot].get("constr"):
            return []
        slots[slot]["constr"] = True
        return [{"a": "T.set_sa", "slot": slot, "key": CONSTRAINTS_KEY, "v": r.choice([TOK_FEASIBLE, TOK_INFEASIBLE])}]

    def reads(k):
        return [_random_read(r, len(studies), n_t, list(range(len(slots))), True) for _ in range(k)]

    def inner_ops(slot, s):
        out = []
        sl = slots[slot]
        for _ in range(r.randint(1, 4)):
            y = r.random()
            if y < 0.35 and len(sl["params"]) < 3:
                name = r.choice([x for x in ("x", "y", "z") if x not in sl["params"]])
                sl["params"].add(name)
                out.append({"a": "T.suggest", "slot": slot, "name": name, "d": {"x": D_FLOAT, "y": D_CAT, "z": D_INT}[name],
                            "v": r.choice({"x": pool_x, "y": sd.CAT_VALS, "z": sd.INT_VALS}[name])})
            elif y < 0.55 and len(studies[s - 1]) == 1 and len(sl["steps"]) < 3:
                step = r.choice([x for x in sd.STEPS if x not in sl["steps"]])
                sl["steps"].add(step)
                out.append({"a": "T.report", "slot": slot, "step": step, "v": r.choice(sd.FINITE + [1000, 9999])})
            elif y < 0.85:
                out.append({"a": "T.set_ua", "slot": slot, "key": r.choice(sd.KEYS), "v": r.randrange(len(sd.ATTRS))})
            else:
                out.append({"a": "T.set_sa", "slot": slot, "key": r.choice(sd.KEYS), "v": r.randrange(len(sd.ATTRS))})
            out += reads(r.choice([0, 1, 1, 2, 3]))
        return out

    ops.append({"a": "S.create_study", "name": r.choice(["A", "auto"]), "dirs": r.choice([[0], [1], [0], [1, 0]])})
    studies.append(ops[-1]["dirs"])
    while len(ops) < n_ops:
        x = r.random()
        s = r.randint(1, len(studies))
        live = [i for i, sl in enumerate(slots) if sl["live"]]
        if x < 0.04 and len(studies) < 2:
            ops.append({"a": "S.create_study", "name": "B", "dirs": r.choice([[0], [1, 1]])})
            studies.append(ops[-1]["dirs"])
        elif x < 0.16 and len(live) < 3:
            ops.append({"a": "S.ask", "s": s, "slot": len(slots)})
            slots.append({"s": s, "live": True, "params": set(), "steps": set()})
            if waiting.get(s, 0) > 0:
                waiting[s] -= 1
            else:
                n_t += 1
        elif x < 0.22:
            ops.append({"a": "S.enqueue", "s": s, "ua": {k: r.randrange(len(sd.ATTRS)) for k in sd.KEYS if r.random() < 0.5}})
            waiting[s] = waiting.get(s, 0) + 1
            n_t += 1
        elif x < 0.28:
            nd = len(studies[s - 1])
            tm = copy.deepcopy(r.choice([TM_COMPLETE, TM_WAITING]))
            if tm["state"] == "COMPLETE":
                tm["values"] = [r.choice(sd.FINITE) for _ in range(nd)]
                tm["params"]["x"]["v"] = r.choice(pool_x)
                if constrained:
                    tm["sa"][CONSTRAINTS_KEY] = r.choice([TOK_FEASIBLE, TOK_INFEASIBLE])
            else:
                waiting[s] = waiting.get(s, 0) + 1
            ops.append({"a": "S.add_trial", "s": s, "tm": tm})
            n_t += 1
        elif x < 0.58 and live:
            slot = r.choice(live)
            ops += inner_ops(slot, slots[slot]["s"])
        elif x < 0.66 and live:
            slot = r.choice(live)
            slots[slot]["live"] = False
            nd = len(studies[slots[slot]["s"] - 1])
            if r.random() < 0.7:
                ops += constraint(slot)
                ops.append({"a": "S.tell", "slot": slot, "state": "COMPLETE",
                            "values": [r.choice(sd.FINITE + [1000, -1000]) for _ in range(nd)]})
            else:
                ops.append({"a": "S.tell", "slot": slot, "state": "FAIL", "values": sd.NONE_V})
        elif x < 0.74:
            ops.append({"a": r.choice(["S.set_ua", "S.set_sa"]), "s": s, "key": r.choice(sd.KEYS),
                        "v": r.randrange(len(sd.ATTRS))})
        elif x < 0.80:
            slot = len(slots)
            slots.append({"s": s, "live": True, "params": set(), "steps": set()})
            if waiting.get(s, 0) > 0:
                waiting[s] -= 1
            else:
                n_t += 1
            inner = reads(2) + inner_ops(slot, s) + constraint(slot)
            slots[slot]["live"] = False
            vals = [r.choice(sd.FINITE) for _ in range(len(studies[s - 1]))]
            if r.random() < 0.25:
                vals[r.randrange(len(vals))] = 9999          # NaN: an unstorable return value (warning path of tell)
            ops.append({"a": "S.optimize", "s": s, "slot": slot, "inner": inner, "values": vals})
        elif x < 0.86:
            # another worker, straight on the storage
            ops.append(r.choice([
                {"a": "set_study_ua", "s": s, "key": r.choice(sd.KEYS), "v": r.randrange(len(sd.ATTRS))},
                {"a": "set_study_sa", "s": s, "key": r.choice(sd.KEYS), "v": r.randrange(len(sd.ATTRS))},
                {"a": "create_trial", "s": s, "tm": {"has": 0}},
                {"a": "set_trial_ua", "t": r.randint(1, max(1, n_t)), "key": r.choice(sd.KEYS), "v": r.randrange(len(sd.ATTRS))},
                {"a": "set_iv", "t": r.randint(1, max(1, n_t)), "step": str(r.choice(sd.STEPS)), "v": r.choice(sd.FINITE)},
            ]))
            if ops[-1]["a"] == "create_trial":
                n_t += 1
        elif x < 0.90:
            ops.append({"a": "mutate", "pick": r.randrange(1000), "how": r.randrange(64)})
        else:
            ops += reads(r.randint(1, 4))
        if r.random() < 0.5:
            ops += reads(r.randint(1, 3))
    ops.append({"a": "mutate", "pick": r.randrange(1000), "how": r.randrange(64)})
    if constrained:
        # whatever path best_trial / best_trials took (plain, or the constrained fallback): the result is the caller's
        for s in range(1, len(studies) + 1):
            for via in ("Study.best_trial", "Study.best_trials"):
                ops += [rd(via, s=s), {"a": "mutate", "via": via, "how": r.randrange(64)}]
    ops.append({"a": "post"})
    return ops


def scripts_from_tlc(ctx, num, depth):
    behs = tlc.simulate("HandlesMC", "HandlesMC_sim", num=num, depth=depth, seed=ctx.seed + 1)
    out = []
    for i, b in enumerate(behs):
        r = random.Random(ctx.rng.getrandbits(48))
        ops = []
        for step in b:
            op = op_from_last(step.state["last"])
            if op is None:
                continue
            if op["a"] == "aread":
                op["as_list"] = r.randint(0, 1)
            ops.append(op)
        ops.append({"a": "mutate", "pick": r.randrange(1000), "how": r.randrange(64)})
        out.append({"hid": f"tlc{i}", "ops": ops})
    return out


# ---------------------------------------------------------------------------------------------------
# verdicts: TLC's, read off its output
# ---------------------------------------------------------------------------------------------------
def strip_trace(t):
    return {"tid": t["tid"], "tab": t["tab"], "ev": t["ev"]}


def validate(traces, **kw):
    """TLC run + bookkeeping of its verdict lines: a trace with a <<"CHANGED", tid, l, i>> line is not accepted"""
    v = tlc.validate("HandlesTrace", "HandlesTrace", [strip_trace(t) for t in traces], extra_env={"C20_STRICT": "0"}, **kw)
    n_ev = {t["tid"]: len(t["ev"]) for t in traces}
    for p in v.prints:
        if p and p[0] == "CHANGED":
            v.accepted.discard(p[1])
            v.rejected.setdefault(p[1], {"reached": n_ev[p[1]] + 1, "len": n_ev[p[1]]})
    return v


def _write_before(t, l):
    """the write event whose recheck is event l (1-based)"""
    for e in reversed(t["ev"][: l - 1]):
        if e["a"] in WRITES or e["a"] == "mutate":
            return e
    return None


def classify_and_report(ctx, traces, v):
    """TLC's verdicts -> report lines.  A changed handle that belongs to a recorded scenario family (signature in
    KNOWN_FINDINGS.json) is a KNOWN-FINDING; everything else TLC did not accept is a violation (one per family of
    (backend, getter, setter), at most 8 in total)."""
    by_tid = {t["tid"]: t for t in traces}
    changed = collections.defaultdict(list)
    for p in v.prints:
        if p and p[0] == "CHANGED":
            changed[p[1]].append((p[2], p[3]))
    inmem_like = ("inmemory",) + tuple(JOURNAL_LIKE)
    reported = set()
    for tid in sorted(v.rejected):
        t = by_tid[tid]
        replay = {"config": t["config"], "hid": t["hid"], "ops": t["ops"]}
        for l, i in sorted(changed.get(tid, [])):
            via, deep, tgt = t["meta"][i - 1]
            w = _write_before(t, l) or {}
            wvia = ("modified:" if w.get("a") == "mutate" else "") + w.get("via", "?")
            cfam = "journal" if t["config"] in JOURNAL_LIKE else t["config"]
            sig = None
            if wvia.startswith("Trial.") and not deep and t["config"] in inmem_like and \
                    GETTERS[via][0] in ("trial", "trials", "tattr", "best"):
                sig = SIG_F9
            elif via in ("storage.get_study_user_attrs", "storage.get_study_system_attrs") and \
                    w.get("a") in ("set_study_ua", "set_study_sa") and t["config"] in inmem_like:
                sig = SIG_SATTR
            f = ctx.match_known(sig) if sig else None
            if f is not None:
                ctx.known_finding(f, f"config={t['config']} object from {via} changed by {wvia}")
                continue
            key = (cfam, sig) if sig else (cfam, via, wvia)
            if key in reported or len(ctx.violations) >= 8:
                continue
            reported.add(key)
            if w.get("a") == "mutate":
                wtxt = (f"the harness modified the result of {w['via']} ({w['how']}), which is a deep copy by contract and must "
                        f"share nothing with other objects")
            else:
                wtxt = "the later write " + json.dumps({k: x for k, x in w.items() if k not in ("ret",)})
            ctx.violation(
                f"backend {t['config']} script {t['hid']}: the object obtained from {via} (target {json.dumps(tgt)}) no longer "
                f"projects to the value it had when it was read, after {wtxt} (event #{l})"
                + (f" [scenario family: {sig}]" if sig else ""),
                dict(replay, changed_handle=i, getter=via, setter=wvia, at_event=l, signature=sig))
        info = v.rejected[tid]
        if 1 <= info["reached"] <= len(t["ev"]):
            e = t["ev"][info["reached"] - 1]
            if e["a"] == "read":
                key = (t["config"], "read", e["via"])
                what = (f"the object returned by {e['via']} (target s={e['s']} t={e['t']} f={e['f']} states={e['states']}) "
                        f"is not the value the contract defines at that point: {json.dumps(t['tab'][e['v'] - 1])[:600]}")
            elif e["a"] == "post":
                m = _write_before(t, info["reached"]) or {}
                key = (t["config"], "post", m.get("via"))
                what = (f"after the harness modified the result of {m.get('via')} ({m.get('how')}; a deep copy by contract) "
                        f"the state read back from the storage is no longer the state the calls produced")
            else:
                key = (t["config"], "other", e["a"])
                what = f"event {json.dumps({k: x for k, x in e.items() if k != 'post'})[:600]} is not a step of the specification"
            if key not in reported and len(ctx.violations) < 8:
                reported.add(key)
                ctx.violation(f"backend {t['config']} script {t['hid']}: event #{info['reached']}: {what}",
                              dict(replay, failing_event=info["reached"]))
        elif not changed.get(tid):
            raise tlc.MachineryError(f"trace {tid} ({t['config']} {t['hid']}) not accepted, but neither a changed handle "
                                     f"nor an unexplained event was reported")


def make_plan(ctx):
    q = ctx.quick
    n_rand_fast, n_rand_slow = (32, 6) if q else (400, 60)
    n_tlc_fast, n_tlc_slow = (20, 4) if q else (300, 40)
    n_sess_fast, n_sess_slow = (40, 8) if q else (600, 80)
    tl = scripts_from_tlc(ctx, n_tlc_fast, 24)
    rand = []
    for h in sg.histories(ctx.rng, n_rand_fast, 14):
        r = random.Random(ctx.rng.getrandbits(48))
        rand.append({"hid": f"rand{h['hid']}", "ops": with_reads(r, h["ops"])})
    sess = [{"hid": f"sess{i}", "ops": random_session(random.Random(ctx.rng.getrandbits(48)))} for i in range(n_sess_fast)]
    plan = []
    for c in sd.CONFIGS:
        slow = c in sd.SLOW
        plan.append((c, [{"hid": f"storage-tour{j}", "ops": storage_tour(j, TOUR_PARTS)} for j in range(TOUR_PARTS)]))
        plan.append((c, (rand[:n_rand_slow] + tl[:n_tlc_slow]) if slow else (rand + tl)))
        if c in STUDY_LEVEL_CONFIGS:
            plan.append((c, [{"hid": f"study-tour{j}", "ops": study_tour(j, TOUR_PARTS)} for j in range(TOUR_PARTS)]))
            plan.append((c, sess[:n_sess_slow] if slow else sess))
    return plan


def run(ctx):
    ctx.rule = ("scripts = storage-level histories (TLC -simulate behaviours of HandlesMC: every abstract read executed through "
                "every real getter implementing it; seeded storage_gen histories with reads inserted) on 9 backend "
                "configurations + Study/Trial-level sessions (ask/enqueue/add_trial/suggest/report/set_*_attr/tell/optimize "
                "with callback, other workers' storage writes) on in-memory, journal file and cached RDB + one deterministic "
                "tour per level holding every getter's object across every setter; all held objects re-projected after every "
                "write, deep-copied results modified and the state read back; every trace validated by TLC (HandlesTrace); "
                "distinct = distinct (config, script) pairs")
    box = {}

    def mc():
        try:
            box["r"] = tlc.require_model("HandlesMC", "HandlesMC_q" if ctx.quick else "HandlesMC_t", must_cover=MC_ACTIONS,
                                         timeout=3000)
        except BaseException as e:  # re-raised in the main thread
            box["e"] = e

    th = threading.Thread(target=mc)
    th.start()
    try:
        plan = make_plan(ctx)
        traces = execute(plan)
    finally:
        th.join()
    if "e" in box:
        raise box["e"]
    ctx.model(box["r"], "HandlesMC exhaustive")
    pairs = set()
    stats = collections.Counter()
    for i, t in enumerate(traces):
        t["tid"] = i + 1
        ctx.count_case([t["config"], t["ops"]], nontrivial=any(e["a"] == "recheck" and e["vals"] for e in t["ev"]))
        pairs |= {(t["config"], g, w) for g, w in t["pairs"]}
        stats.update(t["stats"])
    v = validate(traces, shards=16, timeout=2400)
    ctx.validated(v, "scripts x backends")
    skipped = [p for p in v.prints if p and p[0] in ("UNDEF", "DIVERGED")]
    ctx.notes["replay_left_contract"] = {"UNDEF": sum(p[0] == "UNDEF" for p in skipped),
                                         "DIVERGED": sum(p[0] == "DIVERGED" for p in skipped)}
    if len(skipped) > 0.1 * len(traces):
        raise tlc.MachineryError(f"{len(skipped)} of {len(traces)} traces left the defined contract (UNDEF/DIVERGED): the "
                                 f"replay cannot judge them; generator or storage conformance (C01) problem")
    classify_and_report(ctx, traces, v)
    gs = sorted({g for _, g, _ in pairs})
    ws = sorted({w for _, _, w in pairs if not w.startswith("mutate:")})
    ctx.notes["executed"] = dict(stats)
    ctx.notes["getter_setter_pairs"] = {
        "getters": gs, "setters": ws,
        "distinct_pairs": len({(g, w) for _, g, w in pairs if not w.startswith("mutate:")}),
        "distinct_config_pairs": len({p for p in pairs if not p[2].startswith("mutate:")}),
        "per_config": {c: len({(g, w) for cc, g, w in pairs if cc == c and not w.startswith("mutate:")}) for c in sd.CONFIGS}}
    per = {}
    for t in traces:
        a = per.setdefault(t["config"], [0, 0])
        a[0] += 1
        a[1] += t["tid"] in v.accepted
    ctx.notes["per_config"] = {k: {"traces": a, "accepted": b} for k, (a, b) in per.items()}
    for t in [t for t in traces if t["hid"].startswith("sess")][:2] + [t for t in traces if t["hid"].startswith("tlc")][:2]:
        ctx.sample({"config": t["config"], "hid": t["hid"],
                    "events": [{k: x for k, x in e.items() if k != "post"} for e in t["ev"][:10]]})
    selftests(ctx, traces, v)
    ctx.assumptions += [
        "RDB means SQLite, Redis means fakeredis; the Study level runs on in-memory, journal file and _CachedStorage(RDBStorage)",
        "an object is compared through its projection to the token pools of storage_driver (all FrozenTrial/FrozenStudy fields "
        "and dict contents); identity of container objects is visible only through their contents",
        "reads and writes are issued by one thread (the two-thread variant is not part of this check); 'another worker' is a "
        "second client writing through the storage API",
        "writes whose reply differs from the Storage contract end the judged part of a trace (C01 judges replies)",
    ]


def selftests(ctx, traces, v):
    good = next((t for t in traces if t["tid"] in v.accepted and t["config"] == "grpc_inmemory" and t["hid"] == "storage-tour0"), None)
    if good is None:
        good = next((t for t in traces if t["tid"] in v.accepted and
                     any(e["a"] == "recheck" and any(e["vals"]) for e in t["ev"]) and
                     any(e["a"] == "post" for e in t["ev"])), None)
    if good is None:
        raise tlc.MachineryError("no accepted trace with rechecks and a read-back: binding self-test impossible")
    g = strip_trace(good)

    def stale_view(t):       # a held trial object silently follows a later write (what aliasing looks like)
        for k, e in enumerate(t["ev"]):
            if e["a"] == "read" and e["g"] == "trial":
                h = sum(1 for x in t["ev"][:k] if x["a"] == "read")
                for later in t["ev"][k:]:
                    if later["a"] == "recheck" and len(later["vals"]) > h and later["vals"][h]:
                        p = copy.deepcopy(t["tab"][later["vals"][h] - 1])
                        p["ua"] = dict(p["ua"], zz=0)
                        t["tab"].append(p)
                        later["vals"][h] = len(t["tab"])
                        return
        raise tlc.MachineryError("self-test: no trial handle with a later recheck")

    def wrong_read(t):       # the object handed out is not the current value
        for e in t["ev"]:
            if e["a"] == "read" and e["g"] == "trial":
                p = copy.deepcopy(t["tab"][e["v"] - 1])
                p["state"] = "FAIL" if p["state"] != "FAIL" else "COMPLETE"
                t["tab"].append(p)
                e["v"] = len(t["tab"])
                return
        raise tlc.MachineryError("self-test: no trial read")

    def wrong_post(t):       # the read-back state shows the modification of a copy
        for e in reversed(t["ev"]):
            if e["a"] == "post" and e["post"].get("studies"):
                e["post"]["studies"][0]["ua"] = dict(e["post"]["studies"][0]["ua"], zz=0)
                return
        raise tlc.MachineryError("self-test: no read-back event")

    strict = {"C20_STRICT": "1"}
    ctx.binding_selftest("HandlesTrace", "HandlesTrace", g, stale_view, "held object follows a later write", extra_env=strict)
    ctx.binding_selftest("HandlesTrace", "HandlesTrace", g, wrong_read, "object at read time is not the current value",
                         extra_env=strict)
    ctx.binding_selftest("HandlesTrace", "HandlesTrace", g, wrong_post, "read-back shows a modified copy", extra_env=strict)


def replay(ctx, data):
    tr = run_scripts(data["config"], [{"hid": data.get("hid", "replay"), "ops": data["ops"]}])
    for i, t in enumerate(tr):
        t["tid"] = i + 1
    v = validate(tr)
    ctx.validated(v, "replay")
    classify_and_report(ctx, tr, v)
