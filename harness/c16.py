"""C16 — pruners never prune what their contract protects.

Spec: specs/Pruners.tla (the safety envelope), PrunersMC (algorithm models of the pruners checked to stay
inside the envelope, exhaustive small instances; also the generator of call histories via TLC -simulate),
PrunersTrace (conformance: every recorded study is replayed by TLC through the envelope).

The harness only (a) chooses pruner parameters and call histories (TLC behaviours + a seeded generator
biased to the warm-up / start-up / interval / strictly-best boundaries), (b) PLAYS them through the real
API (study.ask, trial.report, trial.should_prune, study.tell, several RUNNING trials interleaved) and
(c) writes down what was called and what should_prune answered.  Whether an answer is admissible is
decided by TLC alone.  Hyperband brackets are recorded for (study name, trial number) pairs on several
storages / id offsets / pruner instances and TLC checks that they form a function of that pair.
"""
from __future__ import annotations

import concurrent.futures as cf
import math
import tempfile

from . import common, tlc

NAN = 9999
POS_INF, NEG_INF = 1000, -1000      # reported +-inf (= NoHi / NoLo of Pruners.tla: an open bound is an infinite bound)
NOLO, NOHI = -1000, 1000
MC_QUICK = ["PrunersMC_q_pct", "PrunersMC_q_thr", "PrunersMC_q_pat", "PrunersMC_q_sha", "PrunersMC_q_hb"]
MC_THOROUGH = ["PrunersMC_t_pct", "PrunersMC_t_thr", "PrunersMC_t_pat", "PrunersMC_t_sha", "PrunersMC_t_hb"]
ACTIONS = ["MCNewTrial", "MCReport", "Decide", "MCFinish"]


# ---------------------------------------------------------------------------------------------------
# real pruners from an abstract configuration
# ---------------------------------------------------------------------------------------------------
def build_pruner(c):
    import optuna.pruners as P

    k = c["kind"]
    if k == "nop":
        return P.NopPruner()
    if k == "median":
        return P.MedianPruner(n_startup_trials=c["nst"], n_warmup_steps=c["nwu"], interval_steps=c["ivl"],
                              n_min_trials=c["nmin"])
    if k == "percentile":
        return P.PercentilePruner(float(c["pct"]), n_startup_trials=c["nst"], n_warmup_steps=c["nwu"],
                                  interval_steps=c["ivl"], n_min_trials=c["nmin"])
    if k == "threshold":
        return P.ThresholdPruner(lower=None if c["lo"] == NOLO else float(c["lo"]),
                                 upper=None if c["hi"] == NOHI else float(c["hi"]),
                                 n_warmup_steps=c["nwu"], interval_steps=c["ivl"])
    if k == "sha":
        return P.SuccessiveHalvingPruner(min_resource="auto" if c["minres"] == 0 else c["minres"],
                                         reduction_factor=c["rf"], min_early_stopping_rate=c["mesr"],
                                         bootstrap_count=c["boot"])
    if k == "hyperband":
        return P.HyperbandPruner(min_resource=c["minres"], max_resource="auto" if c["maxres"] == 0 else c["maxres"],
                                 reduction_factor=c["rf"], bootstrap_count=c["boot"])
    if k == "patient":
        w = None if c["w"]["kind"] == "none" else build_pruner(c["w"])
        return P.PatientPruner(w, patience=c["pat"], min_delta=float(c["md"]))
    raise tlc.MachineryError(f"unknown pruner kind {k}")


class Storages:
    """Storages on which studies are played.  `mem`: a fresh InMemoryStorage per study (id == number);
    `memoff`: one shared InMemoryStorage in which other studies with trials exist (id != number);
    `sqlite`: one shared RDB file, same (ids are global across studies)."""

    def __init__(self):
        self.dir = tempfile.mkdtemp(prefix="c16-", dir=tlc.scratch())
        self._shared = {}
        self._n = 0

    def get(self, kind):
        import optuna

        if kind == "mem":
            return optuna.storages.InMemoryStorage()
        if kind not in self._shared:
            if kind == "memoff":
                st = optuna.storages.InMemoryStorage()
            elif kind == "sqlite":
                st = optuna.storages.RDBStorage(f"sqlite:///{self.dir}/c16.db")
            else:
                raise tlc.MachineryError(f"unknown storage {kind}")
            decoy = optuna.create_study(storage=st, study_name="decoy")
            for _ in range(3):
                decoy.tell(decoy.ask(), 0.0)
            self._shared[kind] = st
        return self._shared[kind]

    def fresh_name(self):
        self._n += 1
        return f"c16_{self._n}"


class Player:
    """Plays one study through the real API and logs the calls as trace events."""

    def __init__(self, c, storages, skind="mem", name=None, pruner=None):
        import optuna

        self.c = c
        self.skind = skind
        self.pruner = pruner if pruner is not None else build_pruner(c)
        self.study = optuna.create_study(
            storage=storages.get(skind), study_name=name or storages.fresh_name(),
            direction="minimize" if c["dir"] == "min" else "maximize",
            sampler=optuna.samplers.RandomSampler(seed=0), pruner=self.pruner)
        self.trials = []
        self.running = set()
        self.ev = []

    def new(self):
        t = self.study.ask()
        self.trials.append(t)
        self.running.add(t.number)
        self.ev.append({"a": "NewTrial", "t": int(t.number)})
        return t.number

    def rep(self, t, s, v):
        x = math.nan if v == NAN else math.inf if v == POS_INF else -math.inf if v == NEG_INF else float(v)
        self.trials[t].report(x, s)
        self.ev.append({"a": "Report", "t": t, "s": s, "v": v})

    def sp(self, t):
        try:
            d = self.trials[t].should_prune()
        except Exception as e:  # an exception of the pruner on a legal history is an answer no action allows
            self.ev.append({"a": "ShouldPrune", "t": t, "d": 8, "exc": repr(e)[:200]})
            return False
        if type(d).__name__ not in ("bool", "bool_"):       # numpy.bool_ is what the percentile pruner returns
            code = 7
        else:
            code = 1 if d else 0
        self.ev.append({"a": "ShouldPrune", "t": t, "d": code})
        return bool(d)

    def fin(self, t, st):
        from optuna.trial import TrialState

        if st == "COMPLETE":
            self.study.tell(self.trials[t], 0.0)
        else:
            self.study.tell(self.trials[t], state=TrialState.PRUNED if st == "PRUNED" else TrialState.FAIL)
        got = self.study._storage.get_trial(self.trials[t]._trial_id).state.name
        self.running.discard(t)
        self.ev.append({"a": "Finish", "t": t, "st": got})

    def imported(self, script, st):
        """Second scenario family: a finished trial brought in with study.add_trial (no pruner ever saw it);
        the abstract history is the same as asking, reporting and telling it."""
        import optuna
        from optuna.trial import TrialState

        iv = {}
        for s_, v in script:
            iv.setdefault(s_, math.nan if v == NAN else math.inf if v == POS_INF else -math.inf if v == NEG_INF else float(v))
        state = TrialState.COMPLETE if st == "COMPLETE" else TrialState.PRUNED
        self.study.add_trial(optuna.trial.create_trial(
            state=state, value=0.0 if st == "COMPLETE" else None, intermediate_values=iv))
        t = len(self.trials)
        fz = self.study.get_trials(deepcopy=False)[-1]
        if fz.number != t:
            raise tlc.MachineryError("imported trial did not get the next number")
        self.trials.append(None)
        self.ev.append({"a": "NewTrial", "t": t, "imported": 1})
        for s_, v in script:
            self.ev.append({"a": "Report", "t": t, "s": s_, "v": v})
        self.ev.append({"a": "Finish", "t": t, "st": fz.state.name})

    def apply(self, e):
        a = e["a"]
        if a == "NewTrial":
            self.new()
        elif a == "Report":
            self.rep(e["t"], e["s"], e["v"])
        elif a == "ShouldPrune":
            self.sp(e["t"])
        elif a == "Finish":
            self.fin(e["t"], e["st"])


# ---------------------------------------------------------------------------------------------------
# configurations
# ---------------------------------------------------------------------------------------------------
def _pct_cfg(rng, kind, d, steps_hint=4, fin_hint=2):
    nwu = max(0, rng.choice([0, 0, 1, 2, 3, steps_hint - 1, steps_hint // 2]))
    return {"kind": kind, "dir": d, "pct": 50 if kind == "median" else rng.choice([0, 25, 25, 50, 75, 75, 100]),
            "nst": max(0, rng.choice([0, 0, 1, fin_hint - 1, fin_hint, fin_hint + 1])),
            "nwu": nwu, "ivl": rng.choice([1, 1, 2, 3]), "nmin": rng.choice([1, 1, 1, 2])}


def _thr_cfg(rng, d, steps_hint=4):
    while True:
        lo, hi = rng.choice([NOLO, 0, 1, 2]), rng.choice([NOHI, 0, 1, 2, 3])       # 0 is a bound like any other
        if lo <= hi and not (lo == NOLO and hi == NOHI):
            break
    return {"kind": "threshold", "dir": d, "lo": lo, "hi": hi,
            "nwu": max(0, rng.choice([0, 0, 1, 2, 3, steps_hint - 1])), "ivl": rng.choice([1, 1, 2, 3])}


def _sha_cfg(rng, d):
    minres = rng.choice([0, 1, 1, 2])
    return {"kind": "sha", "dir": d, "minres": minres, "rf": rng.choice([2, 2, 3, 4]), "mesr": rng.choice([0, 0, 1]),
            "boot": 0 if minres == 0 else rng.choice([0, 0, 0, 1, 2])}


def _hb_cfg(rng, d):
    maxres = rng.choice([0, 2, 4, 9])
    return {"kind": "hyperband", "dir": d, "minres": rng.choice([1, 1, 2]) if maxres != 0 else 1, "maxres": maxres,
            "rf": rng.choice([2, 3]), "boot": 0 if maxres == 0 else rng.choice([0, 0, 0, 1])}


def random_cfg(rng, kind=None, steps_hint=4, fin_hint=2):
    d = rng.choice(["min", "max"])
    kind = kind or rng.choice(["percentile", "percentile", "median", "median", "threshold", "threshold", "sha", "sha",
                               "hyperband", "patient", "patient", "nop"])
    if kind in ("percentile", "median"):
        return _pct_cfg(rng, kind, d, steps_hint, fin_hint)
    if kind == "threshold":
        return _thr_cfg(rng, d, steps_hint)
    if kind == "sha":
        return _sha_cfg(rng, d)
    if kind == "hyperband":
        return _hb_cfg(rng, d)
    if kind == "nop":
        return {"kind": "nop", "dir": d}
    wk = rng.choice(["none", "none", "median", "percentile", "threshold", "sha", "nop"])
    w = {"kind": "none"} if wk == "none" else random_cfg(rng, wk, steps_hint, fin_hint)
    if wk != "none":
        w["dir"] = d
    return {"kind": "patient", "dir": d, "pat": rng.choice([0, 1, 1, 2, 3]), "md": rng.choice([0, 0, 1]), "w": w}


# ---------------------------------------------------------------------------------------------------
# histories
# ---------------------------------------------------------------------------------------------------
def play_tlc_behaviour(rng, beh, storages, skind):
    """A behaviour of PrunersMC ("sim" family) = the order of the calls; the pruner parameters are chosen
    here, near the steps / finished-trial counts that occur in the behaviour."""
    steps = [s.args[1] for s in beh if s.action == "MCReport"]
    nfin = sum(1 for s in beh if s.action == "MCFinish")
    c = random_cfg(rng, None, (max(steps) if steps else 2), max(1, nfin - 1))
    p = Player(c, storages, skind)
    auto_sp = rng.random() < 0.8
    for s in beh:
        if s.action == "MCNewTrial":
            p.new()
        elif s.action == "MCReport":
            t, st, v = s.args
            p.rep(t, st, v)
            if auto_sp and rng.random() < 0.8:
                p.sp(t)
        elif s.action == "Decide":
            p.sp(s.args[0])
        elif s.action == "MCFinish":
            p.fin(s.args[0], s.args[1])
    return p


def _value(rng, role, d, p_nan):
    """Others report 2..3 (min) / 1..2 (max); the focus trial reports by role."""
    if rng.random() < p_nan:
        return NAN
    lo_good = d == "min"
    if role == "other":
        return rng.choice([2, 3, 3, 4]) if lo_good else rng.choice([0, 1, 1, 2])
    if role == "best":
        return rng.choice([0, 1]) if lo_good else rng.choice([3, 4])
    if role == "tied":
        return rng.choice([1, 2, 2]) if lo_good else rng.choice([2, 2, 3])
    if role == "worse":
        return rng.choice([3, 4]) if lo_good else rng.choice([0, 1])
    return rng.randint(0, 4)


def _steps(rng, c, long_):
    """Step list around warm-up / interval / rung boundaries, with occasional gaps, disorder, duplicates."""
    k = c["w"] if c["kind"] == "patient" and c["w"]["kind"] != "none" else c
    if "nwu" in k:
        n = k["nwu"] + k["ivl"] + rng.choice([-1, 0, 1, 2])
    elif k["kind"] in ("sha", "hyperband"):
        n = rng.choice([2, 3, 5, 9]) if long_ else rng.choice([1, 2, 3, 4])
    else:
        n = rng.randint(1, 6)
    if c["kind"] == "patient":
        n = max(n, c["pat"] + rng.choice([0, 1, 2, 3]))
    n = max(1, min(n, 10))
    st = list(range(rng.choice([0, 0, 0, 1]), n + 1))
    if rng.random() < 0.3:
        st = [s for s in st if rng.random() < 0.7] or st[:1]
    if rng.random() < 0.12:
        rng.shuffle(st)
    if rng.random() < 0.1:
        st.insert(rng.randrange(len(st) + 1), rng.choice(st))
    return st


def play_random(rng, storages, skind, kind=None):
    n_trials = rng.choice([1, 2, 2, 3, 3, 4, 5])
    c = random_cfg(rng, kind, 4, n_trials - 1)
    p = Player(c, storages, skind)
    d = c["dir"]
    p_nan = rng.choice([0, 0, 0, 0.06, 0.2])
    focus_role = rng.choice(["best", "best", "tied", "worse", "random"])
    uniform = rng.random() < 0.15            # no role structure at all
    interleave = rng.random() < 0.35
    long_ = rng.random() < 0.5
    scripts = []
    for i in range(n_trials):
        role = "random" if uniform else focus_role if i == n_trials - 1 else "other"
        script = [(s, _value(rng, role, d, p_nan if role != "best" else p_nan / 4)) for s in _steps(rng, c, long_)]
        if c["kind"] == "threshold":       # a diverged metric: +-inf lies inside an open bound and outside a closed one
            script = [(s, rng.choice([POS_INF, NEG_INF]) if rng.random() < 0.15 else v) for s, v in script]
        scripts.append(script)
    p_sp = rng.choice([1.0, 0.85, 0.5])
    react = rng.random() < 0.7               # a pruned answer ends the trial (what a real objective does)

    def end(t, pruned):
        if pruned:
            p.fin(t, "PRUNED")
        else:
            r = rng.random()
            if r < 0.8:
                p.fin(t, "COMPLETE")
            elif r < 0.88:
                p.fin(t, "FAIL")
            elif r < 0.95:
                p.fin(t, "PRUNED")
            # else: left RUNNING

    n_import = rng.choice([0, 1, 2]) if rng.random() < 0.12 else 0
    if not interleave:
        for i in range(n_trials):
            if i < min(n_import, n_trials - 1):
                p.imported(scripts[i], rng.choice(["COMPLETE", "COMPLETE", "PRUNED"]))
                continue
            t = p.new()
            pruned = False
            for s, v in scripts[i]:
                p.rep(t, s, v)
                if rng.random() < p_sp and p.sp(t) and react:
                    pruned = True
                    break
            if rng.random() < 0.1 and not pruned:
                p.sp(t)
            end(t, pruned)
    else:
        pos = {}
        todo = list(range(n_trials))
        live = []
        while todo or live:
            if todo and (not live or rng.random() < 0.35):
                i = todo.pop(0)
                t = p.new()
                pos[t] = (i, 0)
                live.append(t)
                continue
            t = rng.choice(live)
            i, j = pos[t]
            if j >= len(scripts[i]):
                live.remove(t)
                end(t, False)
                continue
            s, v = scripts[i][j]
            pos[t] = (i, j + 1)
            p.rep(t, s, v)
            if rng.random() < p_sp and p.sp(t) and react:
                live.remove(t)
                end(t, True)
    return p


# ---------------------------------------------------------------------------------------------------
# Hyperband brackets
# ---------------------------------------------------------------------------------------------------
def bracket_trace(rng, storages, params, names, n_numbers):
    """Brackets the real HyperbandPruner assigns, observed for the same (study name, number) pairs on a fresh
    in-memory storage, on in-memory / sqlite storages whose trial ids are offset, with different histories
    and separate pruner instances, and with one pruner object shared by studies in different storages."""
    import optuna

    ev = []
    c = dict(params, kind="hyperband", dir="min")
    shared = build_pruner(c)      # ONE pruner object serving studies in different storages (trial ids collide)
    for skind in ("mem", "memoff", "sqlite", "mem", "mem+shared", "mem+shared", "memoff+shared"):
        skind, _, mode = skind.partition("+")
        for name in (names if not mode else list(reversed(names))):
            st = storages.get(skind)
            try:
                optuna.delete_study(study_name=name, storage=st)
            except KeyError:
                pass
            p = Player(c, storages, skind, name=name, pruner=shared if mode else None)
            for _ in range(n_numbers):
                t = p.new()
                if rng.random() < 0.5:
                    p.rep(t, rng.randint(0, 3), rng.randint(0, 3))
                if t == 0:
                    p.sp(t)                      # initialises the brackets (explicit max_resource, D9)
                if rng.random() < 0.4:
                    p.fin(t, rng.choice(["COMPLETE", "PRUNED"]))
            for fz in p.study.get_trials(deepcopy=False):
                b = p.pruner._get_bracket_id(p.study, fz)
                ev.append({"a": "Bracket", "name": name, "n": int(fz.number), "b": int(b), "storage": skind,
                           "id": int(fz._trial_id)})
    return {"cfg": c, "ev": ev}


# ---------------------------------------------------------------------------------------------------
# judging
# ---------------------------------------------------------------------------------------------------
def _describe(tr, reached):
    ev = tr["ev"]
    bad = ev[reached - 1] if 0 < reached <= len(ev) else None
    hist = ev[: max(0, reached - 1)]
    if bad and bad["a"] == "Bracket":
        same = [e for e in hist if e["name"] == bad["name"] and e["n"] == bad["n"]]
        return (f"Hyperband bracket is not a function of (study name, number): ({bad['name']!r}, {bad['n']}) -> "
                f"{bad['b']} on {bad['storage']} (trial id {bad['id']}) but earlier {[(e['b'], e['storage'], e['id']) for e in same]}; "
                f"pruner {tr['cfg']}")
    short = " ".join(
        f"new{e['t']}" if e["a"] == "NewTrial" else
        f"rep({e['t']},s{e['s']},{'nan' if e['v'] == NAN else e['v']})" if e["a"] == "Report" else
        f"sp({e['t']})={e['d']}" if e["a"] == "ShouldPrune" else f"fin({e['t']},{e['st']})" for e in hist)
    return (f"event {reached} {bad} is outside the envelope of Pruners.tla for pruner {tr['cfg']} "
            f"(storage {tr.get('storage')}) after history: {short}")


def judge(ctx, traces, label):
    v = tlc.validate("PrunersTrace", "PrunersTrace", traces, shards=16, timeout=1500)
    ctx.validated(v, label)
    by = {t["tid"]: t for t in traces}
    for tid in sorted(v.rejected):
        tr = by[tid]
        ctx.violation(_describe(tr, v.rejected[tid]["reached"]), {"trace": tr, "spec": "PrunersTrace",
                                                                 "rejected_at_event": v.rejected[tid]["reached"]})
        if len(ctx.violations) >= 8:
            break
    return v


def _models(ctx):
    cfgs = MC_QUICK if ctx.quick else MC_THOROUGH
    with cf.ThreadPoolExecutor(max_workers=len(cfgs)) as ex:
        futs = {c: ex.submit(tlc.require_model, "PrunersMC", c, must_cover=ACTIONS, workers=4, coverage=True,
                             timeout=300 if ctx.quick else 3000) for c in cfgs}
        for c in cfgs:
            ctx.model(futs[c].result(), c)


def run(ctx):
    ctx.rule = ("histories = behaviours of PrunersMC (TLC -simulate; order of ask/report/should_prune/tell across "
                "several RUNNING trials) + seeded random studies biased to the warm-up, start-up, interval, rung and "
                "strictly-best boundaries, each with a pruner configuration from the parameter grids, both directions, "
                "in-memory / id-offset / sqlite storages; every study is played through the real API and is one trace "
                "judged by TLC against Pruners.tla; distinct = distinct (configuration, history, decisions) with at "
                "least one should_prune call")
    import time
    ph = {}
    t0 = time.time()
    _models(ctx)
    ph["models_s"] = round(time.time() - t0, 1)
    common.use_repo()
    rng = ctx.rng
    storages = Storages()
    traces = []

    def add(p, origin):
        tr = {"tid": len(traces) + 1, "cfg": p.c, "ev": p.ev, "storage": p.skind, "origin": origin}
        traces.append(tr)
        ctx.count_case({"c": p.c, "ev": p.ev}, nontrivial=any(e["a"] == "ShouldPrune" for e in p.ev))

    n_sim = 900 if ctx.quick else 12000
    t0 = time.time()
    behs = tlc.simulate("PrunersMC", "PrunersMC_sim", num=n_sim, depth=34, seed=ctx.seed + 1, timeout=600)
    ph["simulate_s"] = round(time.time() - t0, 1)
    t0 = time.time()
    for i, b in enumerate(behs):
        add(play_tlc_behaviour(rng, b, storages, "mem" if i % 10 else "memoff"), "tlc")
    n_rand = 2000 if ctx.quick else 40000
    for i in range(n_rand):
        add(play_random(rng, storages, "mem" if i % 12 else "memoff"), "random")
    n_sql = 40 if ctx.quick else 600
    for i in range(n_sql):
        add(play_random(rng, storages, "sqlite", kind=["hyperband", "sha", "percentile", "patient"][i % 4]), "random-sqlite")
    n_plays = len(traces)
    # Hyperband brackets: one trace per parameter setting
    hb_params = [{"minres": 1, "maxres": 9, "rf": 3, "boot": 0}, {"minres": 1, "maxres": 16, "rf": 2, "boot": 0},
                 {"minres": 2, "maxres": 9, "rf": 2, "boot": 1}]
    if not ctx.quick:
        hb_params += [{"minres": 1, "maxres": 81, "rf": 3, "boot": 0}, {"minres": 1, "maxres": 4, "rf": 2, "boot": 0}]
    for hp in hb_params:
        bt = bracket_trace(rng, storages, hp, ["alpha", "beta"], 6 if ctx.quick else 12)
        bt.update({"tid": len(traces) + 1, "storage": "several", "origin": "bracket"})
        traces.append(bt)
        ctx.count_case(bt, nontrivial=True)

    ph["play_s"] = round(time.time() - t0, 1)
    t0 = time.time()
    v = judge(ctx, traces, "played studies + bracket observations")
    ph["validate_s"] = round(time.time() - t0, 1)
    ctx.notes["phases"] = ph
    print(f"[{ctx.pid}] phases {ph}", flush=True)
    kinds = {}
    for t in traces[:n_plays]:
        k = t["cfg"]["kind"]
        a = kinds.setdefault(k, {"studies": 0, "should_prune": 0, "pruned_answers": 0})
        a["studies"] += 1
        a["should_prune"] += sum(1 for e in t["ev"] if e["a"] == "ShouldPrune")
        a["pruned_answers"] += sum(1 for e in t["ev"] if e["a"] == "ShouldPrune" and e["d"] == 1)
    ctx.notes["per_pruner"] = kinds
    ctx.notes["studies"] = {"tlc_behaviours": len(behs), "random": n_rand, "sqlite": n_sql, "bracket_traces": len(hb_params)}
    for t in traces[:: max(1, len(traces) // 4)][:4]:
        ctx.sample({"cfg": t["cfg"], "ev": t["ev"][:12]})

    # binding self-tests: a flipped threshold decision and a changed bracket must be rejected
    def flip(t):
        e = next(e for e in t["ev"] if e["a"] == "ShouldPrune")
        e["d"] = 1 - e["d"]

    thr = next((t for t in traces[:n_plays] if t["cfg"]["kind"] == "threshold" and t["tid"] in v.accepted
                and any(e["a"] == "ShouldPrune" for e in t["ev"])), None)
    if thr is None:
        raise tlc.MachineryError("no accepted threshold study to run the binding self-test on")
    ctx.binding_selftest("PrunersTrace", "PrunersTrace", thr, flip, "threshold decision flipped")
    bt = next((t for t in traces[n_plays:] if t["tid"] in v.accepted), None)
    if bt is not None:
        def bump(t):
            t["ev"][-1]["b"] += 1
        ctx.binding_selftest("PrunersTrace", "PrunersTrace", bt, bump, "bracket changed")
    ctx.assumptions += [
        "values are small integers (and NaN), so percentiles 0/25/50/75/100 and all comparisons are exact",
        "start-up gate: the envelope counts FINISHED trials (COMPLETE, PRUNED or FAIL), as the docstring says; the code "
        "counts COMPLETE only, which is stricter and inside the envelope",
        "patience window = the most recent patience+1 reported steps (the implemented reading of the docstring)",
        "strictly-best premise is false as soon as a NaN was reported by the trial or by any other trial",
        "D9: Hyperband brackets are observed with an explicit max_resource only",
        "n_min_trials is not part of the envelope (not named by the property)",
    ]


def replay(ctx, data):
    common.use_repo()
    import random

    tr = data["trace"]
    storages = Storages()
    if tr.get("origin") == "bracket":
        new = bracket_trace(random.Random(data.get("seed", 0)), storages,
                            {k: tr["cfg"][k] for k in ("minres", "maxres", "rf", "boot")},
                            sorted({e["name"] for e in tr["ev"]}), 1 + max(e["n"] for e in tr["ev"]))
        new.update({"tid": 1, "storage": "several", "origin": "bracket"})
    else:
        p = Player(tr["cfg"], storages, tr.get("storage", "mem"))
        evs = tr["ev"]
        i = 0
        while i < len(evs):
            e = evs[i]
            if e["a"] == "NewTrial" and e.get("imported"):
                j = i + 1
                while evs[j]["a"] == "Report":
                    j += 1
                p.imported([(x["s"], x["v"]) for x in evs[i + 1:j]], evs[j]["st"])
                i = j + 1
                continue
            p.apply(e)
            i += 1
        new = {"tid": 1, "cfg": p.c, "ev": p.ev, "storage": p.skind, "origin": "replay"}
    judge(ctx, [new], "replay")
