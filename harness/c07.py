"""C07 — the journal file is an intact, totally ordered log under concurrent writers.

Specs: JournalLog (property level), JournalFile + JournalFileMC (syscall-level algorithm, exhaustive),
JournalFileTrace (validation of executions of the real code run over the syscall shim).
"""
from __future__ import annotations

from . import tlc
from . import jfile_check as jc

COVER = ["AStart", "TryLock", "StatLock", "Sleep", "DropTail", "WritePiece", "ReleaseRename", "OpenRead", "ReadLine",
         "ReturnLogs"]


def run(ctx):
    ctx.rule = ("executions of the real JournalFileBackend + both lock classes over the syscall-shim file system, one "
                "thread runnable at a time, preemption at every system call, writes delivered in chunks: (B) TLC -simulate "
                "behaviours of JournalFileMC replayed step by step (call kind and file/lock/read state compared with the "
                "spec state), (A) seeded random schedules of larger runs; every recorded execution validated by TLC against "
                "JournalFileTrace; distinct = distinct (lock kind, sequence of (call, worker)) executions")
    cfg = "c07q" if ctx.quick else "c07t"
    r = tlc.require_model("JournalFileMC", "JournalFileMC_" + cfg, must_cover=COVER, timeout=3000)
    ctx.model(r, "JournalFileMC_" + cfg)
    traces = jc.replay_family(ctx, "c07q", 120 if ctx.quick else 1500)
    n = 40 if ctx.quick else 500
    tasks = [(ctx.seed * 100 + i, n, False, shape) for i, shape in
             enumerate([(2, 1, 2, 2), (3, 1, 3, 2), (3, 2, 2, 3), (2, 2, 3, 3)] * (1 if ctx.quick else 3))]
    traces += jc.pool_map(jc._random_chunk, tasks)
    v = jc.judge(ctx, traces, "concurrent appends/reads, no crash", allow_k4=False)
    for t in traces[:: max(1, len(traces) // 3)][:3]:
        ctx.sample({"lock": t["lock"], "events": t["ev"][:25]})
    if not ctx.violations:
        jc.selftest(ctx, traces, v)
    ctx.assumptions += [
        "file-system semantics are those of the shim (atomic symlink/O_EXCL create, rename, append writes in chunks); "
        "NFS anomalies are out of scope",
        "bytes are abstracted to pieces in the model; the real code runs on real bytes",
    ]


def replay(ctx, data):
    traces = jc.rerun(data)
    jc.judge(ctx, traces, "replay", allow_k4=False)
