SPECIFICATION Spec
CONSTANTS
  MaxRetries = 3
  Outcomes = {"ok", "notfound", "error"}
  Ops = {"open_reader", "write", "remove"}
  RemoveLoopsOn = TRUE
INVARIANT AtMostMaxRetries
INVARIANT SleepsAreSchedule
INVARIANT StopsAtFirstSuccess
INVARIANT NotFoundNotRetried
INVARIANT ErrorOnlyAfterAll
CHECK_DEADLOCK FALSE
