------------------------------- MODULE Suggest -------------------------------
(* Property-level specification of parameter suggestion inside ONE trial (C10).                     *)
(* Values are the observation records of Domain (exact lattice values in the model-checked          *)
(* instance, projections of real Python values in SuggestTrace); distributions are Domain records.  *)
(*                                                                                                 *)
(* The state is what Trial._suggest (optuna/trial/_trial.py) reads and writes:                      *)
(*   fixed    name -> value        system_attrs["fixed_params"] of the trial (enqueue_trial)        *)
(*   sfixed   name -> value        PartialFixedSampler's fixed parameters (answered by its          *)
(*                                 sample_independent; never part of the relative search space)     *)
(*   relSpace name -> distribution the sampler's relative search space for this trial               *)
(*   relVal   name -> value        the relative sample (drawn at most once per trial)               *)
(*   params, dists                 what the trial has recorded so far (trial.params/.distributions) *)
(*   stored                        the parameters the storage holds for the trial                   *)
(*   last                          the last call and its outcome                                    *)
(* and the five-way decision: reuse an already suggested name / fixed parameter / single-point      *)
(* domain / relative sample (if the name is in the relative sample, the distributions are compatible *)
(* and the new distribution contains the value) / independent sample.  The sampler is a             *)
(* nondeterministic choice constrained only to the domain.                                          *)
EXTENDS Domain

VARIABLES fixed, sfixed, relSpace, relVal, params, dists, stored, last
svars == <<fixed, sfixed, relSpace, relVal, params, dists, stored, last>>

NoD   == D("-", 0, 0, 0, 0, <<>>)
NoVal == Lat("-", 0)
NoCall == [name |-> "-", d |-> NoD, ret |-> NoVal, br |-> "none"]
Put(f, k, v) == (k :> v) @@ f         \* left operand of @@ wins

SuggestInit(fx, sfx, rs, rv) ==
  /\ fixed = fx /\ sfixed = sfx /\ relSpace = rs /\ relVal = rv
  /\ params = <<>> /\ dists = <<>> /\ stored = <<>> /\ last = NoCall

Done(n, d, v, br) == last' = [name |-> n, d |-> d, ret |-> v, br |-> br]
Record(n, d, v, br) ==
  /\ params' = Put(params, n, v)
  /\ dists'  = Put(dists, n, d)
  /\ stored' = Put(stored, n, v)              \* set_trial_param with the internal representation of v
  /\ Done(n, d, v, br)
  /\ UNCHANGED <<fixed, sfixed, relSpace, relVal>>
Nothing == UNCHANGED <<fixed, sfixed, relSpace, relVal, params, dists, stored>>

Fresh(n) == n \notin DOMAIN params
RelUsable(n, d) == /\ n \in DOMAIN relVal /\ n \in DOMAIN relSpace
                   /\ Compatible(relSpace[n], d)
                   /\ ContainsObs(d, relVal[n])          \* distribution._contains(value): exact, no slack

\* 1. the name was suggested before in this trial: the recorded value, whatever the new range is
Reuse(n, d) == /\ ~Fresh(n) /\ Compatible(dists[n], d)
               /\ Done(n, d, params[n], "reuse") /\ Nothing
ReuseIncompatible(n, d) == /\ ~Fresh(n) /\ ~Compatible(dists[n], d)       \* ValueError, nothing recorded
                           /\ Done(n, d, NoVal, "error") /\ Nothing
\* 2. a fixed (enqueued) parameter wins.  Deviation D7: it wins even if the declared domain does not contain it
\*    (Trial._is_fixed_param only warns).
Fixed(n, d) == Fresh(n) /\ n \in DOMAIN fixed /\ Record(n, d, fixed[n], "fixed")
\* 3. single-point domain
SinglePoint(n, d) == Fresh(n) /\ n \notin DOMAIN fixed /\ Single(d) /\ Record(n, d, SingleValue(d), "single")
\* 4. relative sample
Relative(n, d) == /\ Fresh(n) /\ n \notin DOMAIN fixed /\ ~Single(d)
                  /\ RelUsable(n, d)
                  /\ Record(n, d, relVal[n], "relative")
RelativeIncompatible(n, d) == /\ Fresh(n) /\ n \notin DOMAIN fixed /\ ~Single(d)
                              /\ n \in DOMAIN relVal /\ n \in DOMAIN relSpace /\ ~Compatible(relSpace[n], d)
                              /\ Done(n, d, NoVal, "error") /\ Nothing
\* 5. independent sample: any member of the domain (PartialFixedSampler: its fixed value, D7 again)
Independent(n, d, v) == /\ Fresh(n) /\ n \notin DOMAIN fixed /\ ~Single(d)
                        /\ ~(n \in DOMAIN relVal /\ n \in DOMAIN relSpace /\ ~Compatible(relSpace[n], d))
                        /\ ~RelUsable(n, d)
                        /\ IF n \in DOMAIN sfixed THEN v = sfixed[n] ELSE Admits(d, v)
                        /\ Record(n, d, v, IF n \in DOMAIN sfixed THEN "sfixed" ELSE "independent")

\* ------------------------------------------------------------------ properties
IsFixedValue(n) == \/ n \in DOMAIN fixed /\ params[n] = fixed[n]
                   \/ n \in DOMAIN sfixed /\ params[n] = sfixed[n]
ValueInDomain        == \A n \in DOMAIN params : Admits(dists[n], params[n]) \/ IsFixedValue(n)      \* D7
FixedWins            == \A n \in DOMAIN params :
                          /\ n \in DOMAIN fixed => params[n] = fixed[n]
                          /\ (n \in DOMAIN sfixed /\ n \notin DOMAIN fixed /\ ~Single(dists[n])) => params[n] = sfixed[n]
StoredEqualsReturned == /\ stored = params
                        /\ DOMAIN dists = DOMAIN params
                        /\ last.br \notin {"none", "error"} => (last.name \in DOMAIN params /\ last.ret = params[last.name])
RelativeIsContained  == last.br = "relative" => (ContainsObs(last.d, last.ret) /\ last.ret = relVal[last.name])
\* once a name has a value it keeps it (and its distribution) for the rest of the trial
SameNameSameValue    == [][\A n \in DOMAIN params : /\ n \in DOMAIN params' /\ params'[n] = params[n]
                                                    /\ dists'[n] = dists[n]]_svars
===============================================================================
