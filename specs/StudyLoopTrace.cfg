SPECIFICATION Spec
INVARIANT Report
INVARIANT Inv
CHECK_DEADLOCK FALSE
