SPECIFICATION TSpec
CONSTANTS
  MaxRetries = 3
  Outcomes = {"ok", "notfound", "error"}
  Ops = {"open_reader", "write", "remove"}
  RemoveLoopsOn = TRUE
INVARIANT Report
CHECK_DEADLOCK FALSE
