SPECIFICATION Spec
INVARIANT Report
INVARIANT FlagReport
INVARIANT Inv
CHECK_DEADLOCK FALSE
