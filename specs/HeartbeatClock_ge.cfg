SPECIFICATION Spec
CONSTANTS Trials = {1, 2} Interval = 2 Grace = 4 MaxDelay = 2 MaxNow = 9 StrictOlder = FALSE
PROPERTY LiveNeverFailed
CHECK_DEADLOCK FALSE
