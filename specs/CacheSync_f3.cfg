SPECIFICATION Spec
CONSTANTS Clients = {1, 2} Studies = {1, 2} MaxTrials = 4 FixCreate = FALSE PointReadCaches = FALSE
INVARIANT ViewEqualsBackend
INVARIANT FinishedNeverStale
INVARIANT UnfIsUnfinishedInCache
CHECK_DEADLOCK FALSE
