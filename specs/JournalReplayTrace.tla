--------------------------- MODULE JournalReplayTrace ---------------------------
(* Conformance of the real journal replay code with JournalReplay (C06).                            *)
(* Several real JournalStorage objects (workers, each with its own worker-id prefix) share one       *)
(* journal backend; in addition raw JournalStorageReplayResult objects are driven directly with      *)
(* arbitrary batch splits under a chosen worker identity, and storages are (re)opened from a          *)
(* snapshot plus tail or from scratch.  Events (o = object, w = worker identity of the object):       *)
(*   issue : a storage call through object o -> one log record; reply, cursor k and view are logged   *)
(*   append: a record written through a storage object shared by threads (its place in the log only)  *)
(*   sync  : a getter on object o (reads everything)                                                  *)
(*   apply : apply_logs on a raw replay object with the next n unread records                         *)
(*   open  : a new object built from the backend (snapshot + tail, or full replay)                    *)
(* Whatever the path, the view of an object that has read k records must be Project(Fold(log, k)),     *)
(* an error may surface only for a rejected record at its issuer, and without an error the whole      *)
(* batch must have been consumed.                                                                     *)
EXTENDS JournalReplay, TraceBase

VARIABLES log, cur
vars == <<tix, l, log, cur>>

Is(e) == Consume /\ Ev.e = e
RetEq(a, b) == a.k = b.k /\ a.v = b.v
ViewOK(k) == Ev.view = Project(Fold(log', k))
CurOf(o) == IF o \in DOMAIN cur THEN cur[o] ELSE 0
SetCur(o, k) == cur' = [x \in DOMAIN cur \cup {o} |-> IF x = o THEN k ELSE cur[x]]

Init == TraceInitBase /\ log = <<>> /\ cur = <<>>

Undefined ==      \* a call outside the defined contract ends the judged part of the trace (never a verdict)
  /\ HasEv /\ Ev.e \in {"issue", "append"} /\ ~OpDefined(Fold(log, Len(log)), Ev.op)
  /\ PrintT(<<"UNDEF", Trace.tid, l>>)
  /\ l' = Len(Events) + 1 /\ UNCHANGED <<tix, log, cur>>

Issue ==
  /\ Is("issue") /\ OpDefined(Fold(log, Len(log)), Ev.op)
  /\ log' = Append(log, [w |-> Ev.w, op |-> Ev.op])
  /\ RetEq(Ev.ret, ApplyOp(Fold(log, Len(log)), Ev.op).ret)     \* the issuer gets the contract's reply / error class
  /\ Ev.k = Len(log') /\ ViewOK(Ev.k) /\ SetCur(Ev.o, Ev.k)

AppendRec ==  \* a record written by a thread of a shared storage object: only its place in the log is known
  /\ Is("append") /\ OpDefined(Fold(log, Len(log)), Ev.op)
  /\ log' = Append(log, [w |-> Ev.w, op |-> Ev.op]) /\ UNCHANGED cur

Sync ==
  /\ Is("sync") /\ UNCHANGED log
  /\ Ev.err = "none"                                             \* nobody but the issuer sees an error
  /\ Ev.k = Len(log) /\ ViewOK(Ev.k) /\ SetCur(Ev.o, Ev.k)

Apply ==
  /\ Is("apply") /\ UNCHANGED log
  /\ LET k0 == CurOf(Ev.o)  k == Ev.k IN
       /\ k0 <= k /\ k <= k0 + Ev.n /\ k <= Len(log)             \* the cursor never moves back or past the batch
       /\ IF Ev.err = "none" THEN k = k0 + Ev.n                   \* no error: the whole batch was consumed
          ELSE /\ k > k0 /\ log[k].w = Ev.w /\ Rejected(log, k) /\ ErrorOf(log, k) = Ev.err
       /\ ViewOK(k) /\ SetCur(Ev.o, k)

Open ==
  /\ Is("open") /\ UNCHANGED log
  /\ Ev.err = "none" /\ Ev.k = Len(log) /\ ViewOK(Ev.k) /\ SetCur(Ev.o, Ev.k)

Next == Undefined \/ Issue \/ AppendRec \/ Sync \/ Apply \/ Open
Spec == Init /\ [][Next]_vars
Inv == StateInv(Fold(log, Len(log)))
=================================================================================
