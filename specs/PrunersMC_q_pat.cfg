SPECIFICATION Spec
CONSTANTS Family = "pat"  MaxTrials = 1  MaxStep = 3  MaxVal = 2  MaxReports = 4  WithNaN = TRUE  WithFail = FALSE
INVARIANT AlgoWithinEnvelope
INVARIANT EnvelopeSatisfiable
INVARIANT CheckStepIsCode
INVARIANT NopNeverPrunes
CHECK_DEADLOCK FALSE
