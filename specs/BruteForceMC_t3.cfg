SPECIFICATION Spec
CONSTANTS MaxD = 2  MaxB = 3  MaxLeaves = 99  Caps = {9}  MaxAborts = 0
INVARIANT TypeOK
INVARIANT NoDuplicateLeaf
INVARIANT AllLeavesVisitedAtStop
INVARIANT NoTrialAfterExhaustion
INVARIANT AlgAgrees
CHECK_DEADLOCK TRUE
