SPECIFICATION Spec
CONSTANTS Dim = 1  MaxN = 4  MaxV = 3
INVARIANT SingleObjective
CHECK_DEADLOCK FALSE
