-------------------------------- MODULE Pareto --------------------------------
(* Property-level specification of the multi-objective kernels (C15, used by C12/C13):            *)
(*   - dominance, Pareto front, non-domination rank by repeated peeling (plain and constrained),   *)
(*   - hypervolume as the NUMBER OF UNIT CELLS of the integer lattice dominated by the set and     *)
(*     bounded by the reference point (exact for lattice points; no floating point involved),      *)
(*   - the best possible subset of a given size (exhaustive) and the (1-1/e) acceptance test.      *)
(* All objectives are minimised.  Coordinates are integers; -inf/+inf are the sentinels below.     *)
EXTENDS Integers, Sequences, FiniteSets, TLC

NegInf   == -1000
PosInf   == 1000
Infinite == -1          \* an infinite volume
NaNPen   == 9999        \* "no constraint value recorded" (penalty is NaN)

Idx(pts) == 1..Len(pts)
D(pts)   == Len(pts[1])

Leq(p, q)       == \A i \in 1..Len(p) : p[i] <= q[i]
Dominates(p, q) == Leq(p, q) /\ p # q

\* ---------------------------------------------------------------- front and rank by peeling
FrontIdx(pts, I) == {i \in I : ~\E j \in I : Dominates(pts[j], pts[i])}

RECURSIVE PeelRank(_, _, _)
PeelRank(pts, I, r) ==            \* function I -> rank, r = rank of the first front
  IF I = {} THEN <<>>
  ELSE LET F == FrontIdx(pts, I) IN [i \in F |-> r] @@ PeelRank(pts, I \ F, r + 1)

MaxOr(S, dflt) == IF S = {} THEN dflt ELSE CHOOSE x \in S : \A y \in S : y <= x

\* Constrained variant (docstring of _fast_non_domination_rank): feasible (penalty <= 0) first by
\* peeling, then infeasible in order of increasing penalty, then "no penalty information" by peeling.
ConstrainedRank(pts, pen) ==
  LET feas  == {i \in Idx(pts) : pen[i] # NaNPen /\ pen[i] <= 0}
      infe  == {i \in Idx(pts) : pen[i] # NaNPen /\ pen[i] > 0}
      unk   == {i \in Idx(pts) : pen[i] = NaNPen}
      r1    == PeelRank(pts, feas, 0)
      base2 == MaxOr({r1[i] : i \in feas}, -1) + 1
      r2    == [i \in infe |-> base2 + Cardinality({pen[j] : j \in {k \in infe : pen[k] < pen[i]}})]
      base3 == MaxOr({r1[i] : i \in feas} \cup {r2[i] : i \in infe}, -1) + 1
      r3    == PeelRank(pts, unk, base3)
  IN  r1 @@ r2 @@ r3

Rank(pts, pen) == IF pen = <<>> THEN PeelRank(pts, Idx(pts), 0) ELSE ConstrainedRank(pts, pen)

\* Contract of the n_below truncation: ranks are exact up to the rank K that completes the best
\* nb solutions; everything worse only has to be reported worse than K.
RankAnswerOK(pts, pen, nb, ans) ==
  LET R == Rank(pts, pen)
      n == IF nb = 0 THEN Len(pts) ELSE nb
      Ks == {r \in {R[i] : i \in Idx(pts)} : Cardinality({i \in Idx(pts) : R[i] <= r}) >= n}
      K == IF Ks = {} THEN MaxOr({R[i] : i \in Idx(pts)}, 0) ELSE CHOOSE r \in Ks : \A s \in Ks : r <= s
  IN  /\ Len(ans) = Len(pts)
      /\ \A i \in Idx(pts) : IF R[i] <= K THEN ans[i] = R[i] ELSE ans[i] > K

\* ---------------------------------------------------------------- hypervolume by cell counting
Strict(p, ref)       == \A i \in 1..Len(p) : p[i] < ref[i]
HasInfExtent(p, ref) == \E i \in 1..Len(p) : ref[i] = PosInf \/ p[i] = NegInf
RefInfinite(ref)     == \E i \in 1..Len(ref) : ref[i] = PosInf

CellCount(pts, K, ref) ==   \* K: indices of points all of whose extents are finite
  IF K = {} THEN 0
  ELSE LET hi == MaxOr({ref[i] : i \in 1..Len(ref)}, 0)
           Cells == {c \in [1..Len(ref) -> 0..(hi - 1)] : \A i \in 1..Len(ref) : c[i] < ref[i]}
       IN Cardinality({c \in Cells : \E k \in K : \A i \in 1..Len(ref) : pts[k][i] <= c[i]})

\* Set of admissible answers for the dominated volume of the points with indices I.
\* Deviation D12: a box with one infinite and one zero extent (0 * inf) has measure 0, but the
\* property text does not fix the convention; for such degenerate inputs both 0-contribution and
\* Infinite are admitted.  Whenever some point has an infinite extent and is strictly inside the
\* reference point the volume is Infinite, exactly.
HVAllowed(pts, I, ref) ==
  LET exactInf == \E k \in I : Strict(pts[k], ref) /\ HasInfExtent(pts[k], ref)
      degen    == RefInfinite(ref) \/ \E k \in I : ~Strict(pts[k], ref) /\ HasInfExtent(pts[k], ref)
      fin      == {k \in I : ~HasInfExtent(pts[k], ref)}
      c        == CellCount(pts, fin, ref)
  IN  IF exactInf THEN {Infinite} ELSE IF degen THEN {c, Infinite} ELSE {c}

Unambiguous(pts, I, ref) == Cardinality(HVAllowed(pts, I, ref)) = 1
HV(pts, I, ref) == CHOOSE h \in HVAllowed(pts, I, ref) : TRUE      \* only used when Unambiguous

WeaklyDominatedRef(pts, ref) == \A k \in Idx(pts) : Leq(pts[k], ref)

\* ---------------------------------------------------------------- subset selection
Big(h) == IF h = Infinite THEN 1000000 ELSE h
KSubsets(S, k) == {T \in SUBSET S : Cardinality(T) = k}
BestSubsetHV(pts, k, ref) ==
  LET vals == {Big(HV(pts, T, ref)) : T \in KSubsets(Idx(pts), k)}
  IN  CHOOSE v \in vals : \A w \in vals : w <= v

\* 63212/100000 < 1 - 1/e = 0.6321205588...; the test is sound and 5e-7 weaker than the statement.
ApproxOK(pts, sel, k, ref) ==
  LET allUnamb == \A T \in KSubsets(Idx(pts), k) : Unambiguous(pts, T, ref)
      best == BestSubsetHV(pts, k, ref)
      got  == Big(HV(pts, sel, ref))
  IN  allUnamb => IF best = 1000000 THEN got = 1000000 ELSE 100000 * got >= 63212 * best

HsspAnswerOK(pts, k, ref, ans) ==       \* ans: sequence of selected (1-based) indices
  /\ Len(ans) = k
  /\ \A a \in 1..Len(ans) : ans[a] \in Idx(pts)
  /\ \A a, b \in 1..Len(ans) : a # b => ans[a] # ans[b]
  /\ ApproxOK(pts, {ans[a] : a \in 1..Len(ans)}, k, ref)

\* ---------------------------------------------------------------- exact 2-D volume by a sweep (large integer coordinates)
\* For two objectives and finite coordinates the dominated area is the sum of the rectangles of the front swept by
\* increasing first coordinate.  ParetoMC checks that it equals the cell count on the lattice instances; it is the oracle
\* where counting cells is not feasible (coordinates in the thousands).
RECURSIVE Sweep2D(_, _, _)
Sweep2D(F, ref, by) ==
  IF F = {} THEN 0
  ELSE LET p == CHOOSE q \in F : \A r \in F : q[1] <= r[1] IN
       (ref[1] - p[1]) * (by - p[2]) + Sweep2D(F \ {p}, ref, p[2])
HV2D(pts, I, ref) ==
  LET S == {pts[i] : i \in I}
      F == {p \in S : ~\E q \in S : Dominates(q, p)}
  IN  Sweep2D(F, ref, ref[2])
Best2D(pts, k, ref) ==
  LET vals == {HV2D(pts, T, ref) : T \in KSubsets(Idx(pts), k)} IN CHOOSE v \in vals : \A w \in vals : w <= v
Hssp2DAnswerOK(pts, k, ref, ans) ==
  /\ Len(ans) = k
  /\ \A a \in 1..Len(ans) : ans[a] \in Idx(pts)
  /\ \A a, b \in 1..Len(ans) : a # b => ans[a] # ans[b]
  \* 12/19 = 0.63158 < 1 - 1/e = 0.63212; small factors because TLC integers are 32 bit (areas reach 2e7 here)
  /\ 19 * HV2D(pts, {ans[a] : a \in 1..Len(ans)}, ref) >= 12 * Best2D(pts, k, ref)

\* ---------------------------------------------------------------- the greedy design (algorithm level)
\* Plain greedy: repeatedly add the point with the largest hypervolume gain.  Checked in ParetoMC to
\* meet ApproxOK on every input of the bounded instance (submodularity made concrete).
RECURSIVE Greedy(_, _, _, _)
Greedy(pts, sel, k, ref) ==
  IF Cardinality(sel) = k THEN sel
  ELSE LET cand == Idx(pts) \ sel
           gain(i) == Big(HV(pts, sel \cup {i}, ref))
           best == CHOOSE i \in cand : \A j \in cand : gain(j) <= gain(i)
       IN Greedy(pts, sel \cup {best}, k, ref)
===============================================================================
