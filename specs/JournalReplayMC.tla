----------------------------- MODULE JournalReplayMC -----------------------------
(* Bounded instance: Workers replaying one log of at most MaxLog records drawn from a pool that      *)
(* contains every rejected kind (duplicate study, finished trial, unknown id, incompatible           *)
(* distribution), with every sync point, every batch split, snapshot save/restore and re-opening.    *)
EXTENDS JournalReplay
CONSTANTS Workers, MaxLog, SmallPool

VARIABLES log, cur, stW, snap, lastRaise
vars == <<log, cur, stW, snap, lastRaise>>

DF  == [c |-> "float", g |-> 0, k |-> 0]
DC0 == [c |-> "cat", g |-> 0, k |-> 0]
WaitingT == [has |-> 1, state |-> "WAITING", values |-> NoneV, params |-> EmptyMap, ua |-> EmptyMap, sa |-> EmptyMap,
             iv |-> EmptyMap, ts |-> 0, tc |-> 0]
AllOps ==
  { [a |-> "create_study", name |-> "A", dirs |-> <<0>>],
    [a |-> "delete_study", s |-> 1],
    [a |-> "create_trial", s |-> 1, tm |-> NoTemplate],
    [a |-> "create_trial", s |-> 1, tm |-> WaitingT],
    [a |-> "set_state", t |-> 1, state |-> "RUNNING", values |-> NoneV],
    [a |-> "set_state", t |-> 1, state |-> "COMPLETE", values |-> <<0>>],
    [a |-> "set_trial_ua", t |-> 1, key |-> "k1", v |-> 1],
    [a |-> "set_param", t |-> 1, name |-> "x", v |-> 3, d |-> DF],
    [a |-> "set_param", t |-> 2, name |-> "x", v |-> 3, d |-> DC0] }

Ops == IF SmallPool THEN {o \in AllOps : o.a \notin {"set_param", "delete_study", "set_trial_ua"}} ELSE AllOps

NoSnap == [has |-> 0]
Init == /\ log = <<>> /\ cur = [w \in Workers |-> 0] /\ stW = [w \in Workers |-> Empty]
        /\ snap = NoSnap /\ lastRaise = [w |-> 0, err |-> "none"]

Run(w, lg, upto) ==
  LET b == RunBatch(w, lg, stW[w], cur[w], upto) IN
  /\ stW' = [stW EXCEPT ![w] = b.st] /\ cur' = [cur EXCEPT ![w] = b.cur]
  /\ lastRaise' = [w |-> w, err |-> b.raised]

Issue(w, op) ==                  \* append one record, then the issuer syncs up to the end of the log
  /\ Len(log) < MaxLog /\ OpDefined(Fold(log, Len(log)), op)
  /\ log' = Append(log, [w |-> w, op |-> op])
  /\ Run(w, log', Len(log'))
  /\ UNCHANGED snap
Sync(w) ==                       \* a getter: read everything that is there
  /\ cur[w] < Len(log) /\ Run(w, log, Len(log)) /\ UNCHANGED <<log, snap>>
SyncPartial(w, k) ==             \* apply_logs driven with only k of the unread records
  /\ cur[w] + k < Len(log) /\ Run(w, log, cur[w] + k) /\ UNCHANGED <<log, snap>>
SaveSnapshot(w) ==
  /\ snap' = [has |-> 1, cur |-> cur[w], st |-> stW[w]] /\ UNCHANGED <<log, cur, stW, lastRaise>>
OpenFromSnapshot(w) ==
  /\ snap.has = 1
  /\ stW' = [stW EXCEPT ![w] = snap.st] /\ cur' = [cur EXCEPT ![w] = snap.cur]
  /\ lastRaise' = [w |-> w, err |-> "none"] /\ UNCHANGED <<log, snap>>
OpenFresh(w) ==
  /\ cur[w] > 0
  /\ stW' = [stW EXCEPT ![w] = Empty] /\ cur' = [cur EXCEPT ![w] = 0]
  /\ lastRaise' = [w |-> w, err |-> "none"] /\ UNCHANGED <<log, snap>>

Next == \E w \in Workers :
          \/ \E op \in Ops : Issue(w, op)
          \/ Sync(w) \/ (\E k \in 1..MaxLog : SyncPartial(w, k)) \/ SaveSnapshot(w) \/ OpenFromSnapshot(w) \/ OpenFresh(w)
Spec == Init /\ [][Next]_vars

StateIsFold == \A w \in Workers : stW[w] = Fold(log, cur[w])
Converge    == \A a, b \in Workers : cur[a] = cur[b] => stW[a] = stW[b]
FoldIsSound == StateInv(Fold(log, Len(log)))
\* a rejected operation raises only at its issuer, and exactly with the contract's error class
IssuerOnlyErrors ==
  [][lastRaise'.err # "none" =>
       LET w == lastRaise'.w  k == cur'[w] IN
       (~EagerCursor) => (log'[k].w = w /\ Rejected(log', k) /\ ErrorOf(log', k) = lastRaise'.err)]_vars
CursorMonotone ==
  [][\A w \in Workers : cur'[w] >= cur[w] \/ lastRaise'.w = w]_vars
=================================================================================
