---------------------------- MODULE StudyLoopTrace ----------------------------
(* Conformance of the real Study.optimize / Study.tell with StudyLoop (C02).                         *)
(*                                                                                                  *)
(* type "opt": one recorded call of the real optimize().  The trace carries the configuration        *)
(*   (cfg), the script the scripted objective / sampler / callback followed, indexed by trial        *)
(*   number + 1 (script[n] = [o, saA, saT, cb]), and ONE event: what the study looked like after     *)
(*   optimize returned or raised (every trial's state and values, what the two callbacks saw, the    *)
(*   class of the exception that escaped).  TLC runs the StudyLoop machine on the script - for       *)
(*   n_jobs > 1 over every interleaving of the workers - and accepts the trace iff some behaviour    *)
(*   ends in exactly the recorded study.                                                            *)
(* type "tell": a sequence of real study.tell calls on one trial (cfg.pre = <<"R">> after ask(),     *)
(*   <<"W">> for an enqueued trial); every event records the trial before and after the call, the    *)
(*   arguments and the reply.  Judged at property level (TellPropOK); a deviation from the           *)
(*   documented argument table only is printed as DRIFT.                                            *)
EXTENDS StudyLoop, TraceBase

vars == <<tix, l, trials, i, stop, cbA, cbB, raised, phase, done>>

c      == Trace.cfg
S(n)   == Trace.script[n]
IsOpt  == Trace.type = "opt"
IsTell == Trace.type = "tell"
Same   == UNCHANGED <<tix, l>>

TSubmit(w)   == IsOpt /\ w \in Workers(c) /\ Submit(c, w) /\ Same
TAsk(w)      == IsOpt /\ w \in Workers(c) /\ Ask(c, w, S(NextTrial).saA) /\ Same
TRun(w)      == IsOpt /\ w \in Workers(c) /\ phase[w].p = "asked" /\ Run(c, w, S(phase[w].n).o) /\ Same
TTellStep(w) == IsOpt /\ w \in Workers(c) /\ phase[w].p = "ran" /\ Tell(c, w, S(phase[w].n).saT) /\ Same
TCallback(w) == IsOpt /\ w \in Workers(c) /\ phase[w].p = "told" /\ Callback(c, w, S(phase[w].n).cb) /\ Same
TNotice(w)   == IsOpt /\ w \in Workers(c) /\ Notice(c, w) /\ Same
TFinish      == IsOpt /\ Finish(c) /\ Same

Proj(t) == [state |-> t.state, values |-> t.values]
TFinal ==
  /\ IsOpt /\ done /\ Consume /\ Ev.a = "final"
  /\ Ev.trials = [n \in 1..Len(trials) |-> Proj(trials[n])]
  /\ Ev.cbA = cbA /\ Ev.cbB = cbB
  \* which exception surfaces when the SAMPLER raised is not part of the property: something has to escape
  /\ IF Ev.raised = raised THEN TRUE
     ELSE raised = "SE" /\ Ev.raised \notin {"none", "E1", "E2", "KI", "SE", "CE"} /\ PrintT(<<"OTHEREXC", Trace.tid, l>>)
  /\ UNCHANGED loopvars

TTellCall ==
  /\ IsTell /\ Consume /\ Ev.a = "tell"
  /\ Ev.pre = Proj(trials[1])
  /\ TellPropOK(Ev, c.nobj)
  /\ IF TellTableOK(Ev, c.nobj) THEN TRUE ELSE PrintT(<<"DRIFT", Trace.tid, l>>)
  /\ trials' = [trials EXCEPT ![1].state = Ev.post.state, ![1].values = Ev.post.values]
  /\ UNCHANGED <<i, stop, cbA, cbB, raised, phase, done>>

Init == TraceInitBase /\ LoopInit(c)
Next == \/ \E w \in 1..2 : TSubmit(w)
        \/ \E w \in 1..2 : TAsk(w)
        \/ \E w \in 1..2 : TRun(w)
        \/ \E w \in 1..2 : TTellStep(w)
        \/ \E w \in 1..2 : TCallback(w)
        \/ \E w \in 1..2 : TNotice(w)
        \/ TFinish
        \/ TFinal
        \/ TTellCall
Spec == Init /\ [][Next]_vars

\* the properties of StudyLoop, in every state of every replayed call
Inv == IsOpt => /\ NoRunningAtReturn /\ FailHasNoValues /\ EscapedIsFromATrial /\ CallbacksExactlyOnce /\ ExactlyNTrials(c)
===============================================================================
