SPECIFICATION Spec
CONSTANTS Dim = 1  MaxN = 3  MaxV = 2
INVARIANT SomeKeeps
CHECK_DEADLOCK FALSE
