SPECIFICATION Spec
CONSTANTS Clients = {1, 2} Studies = {1} MaxTrials = 4 FixCreate = TRUE
INVARIANT ViewEqualsBackend
INVARIANT FinishedNeverStale
INVARIANT UnfIsUnfinishedInCache
CHECK_DEADLOCK FALSE
