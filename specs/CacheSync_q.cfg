SPECIFICATION Spec
CONSTANTS Clients = {1, 2} Studies = {1} MaxTrials = 4 FixCreate = TRUE PointReadCaches = FALSE
INVARIANT ViewEqualsBackend
INVARIANT FinishedNeverStale
INVARIANT UnfIsUnfinishedInCache
INVARIANT WatermarkSound
CHECK_DEADLOCK FALSE
