SPECIFICATION Spec
CONSTANTS
  MaxN = 3
  Jobs = {1}
  Kinds = {"float", "int", "bool", "numstr", "inf", "neginf", "neg", "bytes", "none", "nan", "badstr", "hugeint", "badobj", "hostile", "list_ok", "list_numstr", "list_infs", "list_short", "list_long", "list_nan_first", "list_nan_last", "list_badelem", "list_hugeint"}
  WithPre = TRUE
  RepKinds = {"pruned", "float", "none"}
  Misbehave = TRUE
  AskMisbehave = TRUE
  Swallow = FALSE
INVARIANT Inv
PROPERTY TellNeverAltersFinished
PROPERTY OthersUntouched
PROPERTY CompleteIffFeasible
PROPERTY ValuesAreTheFloats
PROPERTY UncaughtPropagatesAfterFail
PROPERTY ReturnIsFinal
CHECK_DEADLOCK TRUE
