SPECIFICATION Spec
CONSTANTS MaxN = 4  Caps = {1, 2, 9}  MaxEnq = 2
INVARIANT TypeOK
INVARIANT NoDuplicateCell
INVARIANT AllCellsVisitedAtStop
INVARIANT NoTrialAfterExhaustion
PROPERTY Terminates
CHECK_DEADLOCK TRUE
