----------------------------- MODULE StudyLoopMC -----------------------------
(* Bounded instance of StudyLoop: every configuration (1-2 objectives, catch with/without E1,       *)
(* n_trials <= MaxN, n_jobs in Jobs, a study that already holds one finished / enqueued / foreign    *)
(* RUNNING trial) and every sequence of outcomes from the pool, every sampler / callback behaviour, *)
(* every interleaving of the workers.  TLC checks that the machine has the properties of C02 (the   *)
(* property text made exact is consistent and not vacuous) and, with -simulate, produces scenarios  *)
(* (configuration + per-trial script) that the harness plays through the real Study.optimize.       *)
EXTENDS StudyLoop
CONSTANTS MaxN, Jobs, Kinds, WithPre, RepKinds, Misbehave, AskMisbehave,
          Swallow     \* TRUE only in the negative spec test: optimize may return although a worker failed (defect F12)

VARIABLE c
vars == <<trials, i, stop, cbA, cbB, raised, phase, done, c>>

Pres == IF WithPre THEN {<<>>, <<"C">>, <<"W">>, <<"R">>} ELSE {<<>>}
Configs == {[nobj |-> nobj, catch |-> catch, n |-> n, jobs |-> j, pre |-> pre] :
              nobj \in {1, 2}, catch \in {0, 1}, n \in 0..MaxN, j \in Jobs, pre \in Pres}

RepsOf(kind) == IF kind \in RepKinds THEN Reports ELSE {"none"}
Outcomes == {Outcome("ret", kind, s, rep) : kind \in (Kinds \cap RetKinds), s \in {0, 1}, rep \in Reports}
       \cup {Outcome("raise", kind, s, rep) : kind \in RaiseKinds, s \in {0, 1}, rep \in Reports}
InPool(o, nobj) == WFOutcome(o, nobj) /\ o.rep \in RepsOf(o.kind)
SamplerActs  == IF Misbehave THEN {"ok", "raise"} ELSE {"ok"}
AskActs      == IF AskMisbehave THEN {"ok", "raise"} ELSE {"ok"}
CallbackActs == IF Misbehave THEN {"ok", "stop", "raise"} ELSE {"ok"}

Init == c \in Configs /\ LoopInit(c)

AllWorkers == 1..(CHOOSE j \in Jobs : \A k \in Jobs : k <= j)
W(w) == w \in Workers(c)

MSubmit(w)        == W(w) /\ Submit(c, w) /\ UNCHANGED c
MAsk(w, sa)       == W(w) /\ Ask(c, w, sa) /\ UNCHANGED c
MRun(w)           == W(w) /\ \E o \in Outcomes : InPool(o, c.nobj) /\ Run(c, w, o) /\ UNCHANGED c
MTell(w, sa)      == W(w) /\ Tell(c, w, sa) /\ UNCHANGED c
MCallback(w, act) == W(w) /\ Callback(c, w, act) /\ UNCHANGED c
MNotice(w)        == W(w) /\ Notice(c, w) /\ UNCHANGED c
MFinish           == Finish(c) /\ UNCHANGED c
\* the modelled defect F12: the submit loop ends and the executor joins the workers without looking at their results
MFinishSwallow    == Swallow /\ ~done /\ Quiet(c) /\ (stop \/ i = c.n) /\ done' = TRUE
                     /\ UNCHANGED <<trials, i, stop, cbA, cbB, raised, phase, c>>
Terminated        == done /\ UNCHANGED vars          \* so that a stuck unfinished call shows as a deadlock

Next == \/ \E w \in AllWorkers : MSubmit(w)
        \/ \E w \in AllWorkers, sa \in AskActs : MAsk(w, sa)
        \/ \E w \in AllWorkers : MRun(w)
        \/ \E w \in AllWorkers, sa \in SamplerActs : MTell(w, sa)
        \/ \E w \in AllWorkers, act \in CallbackActs : MCallback(w, act)
        \/ \E w \in AllWorkers : MNotice(w)
        \/ MFinish
        \/ MFinishSwallow
        \/ Terminated
Spec == Init /\ [][Next]_vars

\* ------------------------------------------------------------------ what TLC checks
Inv == /\ TypeOK(c) /\ NoRunningAtReturn /\ FailHasNoValues /\ EscapedIsFromATrial /\ CallbacksExactlyOnce
       /\ CallbacksOnlyMine /\ ExactlyNTrials(c)

TellNeverAltersFinished    == [][FinishedFrozen]_vars
OthersUntouched            == [][ForeignUntouched]_vars
CompleteIffFeasible        == [][CompleteIffFeasibleStep(c)]_vars
ValuesAreTheFloats         == [][ValuesAreTheFloatsStep(c)]_vars
UncaughtPropagatesAfterFail == [][UncaughtPropagatesAfterFailStep(c)]_vars
\* once optimize has returned nothing changes any more, and what escaped stays what escaped
ReturnIsFinal              == [][done => UNCHANGED vars]_vars
==============================================================================
