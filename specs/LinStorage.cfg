SPECIFICATION Spec
CONSTANT EagerCursor = FALSE
INVARIANT Report
INVARIANT Inv
CHECK_DEADLOCK FALSE
