------------------------------- MODULE JournalFile -------------------------------
(* Algorithm-level specification of optuna/storages/journal/_file.py at system-call granularity     *)
(* (C05, C07): JournalFileBackend.append_logs / read_logs and the symlink / O_EXCL lock with its     *)
(* grace-period takeover.  One action per system call that other processes can observe:             *)
(*   TryLock (symlink | open O_EXCL)   StatLock (stat + grace test)   Sleep   TakeoverRename         *)
(*   DropTail (seek-end, read back, truncate: one step, it runs under the lock)                     *)
(*   WritePiece (a buffered record reaches the file in NChunks pieces)   ReleaseRename              *)
(*   OpenRead (open + stat size + seek to the cached offset)   ReadLine   ReturnLogs / RaiseDecode   *)
(*   Crash (process death at any point of an append)                                                *)
(* unlink of the renamed lock, fsync, close and flush have no effect another process can see.        *)
(* The two lock classes differ only in the system call used by TryLock, which has the same          *)
(* semantics (atomic create-if-absent), so one action stands for both.                              *)
(* Bytes are abstracted to chunk units: a record is NChunks pieces of length 1.                      *)
(* Properties come from JournalLog (the property-level view).  Recorded finding K4 is the history    *)
(* flag k4: set when TakeoverRename removes the lock of a live worker inside its critical section.   *)
EXTENDS JournalLog
CONSTANTS Writers, Readers, NAppends, NChunks, NReads, AllowCrash, AllowTakeover, DropTornTail

VARIABLES file, lockGen, lockOwner, nextGen, pc, todo, pieces, seenGen, acked, before, rd, offs, consumed,
          nreads, alive, bad, k4
vars == <<file, lockGen, lockOwner, nextGen, pc, todo, pieces, seenGen, acked, before, rd, offs, consumed, nreads,
          alive, bad, k4>>

Workers == Writers \cup Readers
None == "none"
Rec(w, k) == w * 10 + k
PiecesOf(r) == [i \in 1..NChunks |-> [r |-> r, a |-> i - 1, b |-> i, n |-> NChunks]]
Range(s) == {s[i] : i \in 1..Len(s)}
Goto(w, lbl) == pc' = [pc EXCEPT ![w] = lbl]
InCS(w) == pc[w] \in {"check", "write", "rel"}

Init ==
  /\ file = <<>> /\ lockGen = 0 /\ lockOwner = 0 /\ nextGen = 1
  /\ pc = [w \in Workers |-> IF w \in Writers THEN "idle" ELSE "r_idle"]
  /\ todo = [w \in Writers |-> NAppends] /\ pieces = [w \in Writers |-> <<>>] /\ seenGen = [w \in Writers |-> 0]
  /\ acked = <<>> /\ before = [w \in Writers |-> {}]
  /\ rd = [w \in Readers |-> [from |-> 0]] /\ offs = [w \in Readers |-> (0 :> 0)] /\ consumed = [w \in Readers |-> 0]
  /\ nreads = [w \in Readers |-> NReads] /\ alive = Workers /\ bad = {} /\ k4 = FALSE

WUnch == UNCHANGED <<rd, offs, consumed, nreads>>
RUnch == UNCHANGED <<lockGen, lockOwner, nextGen, todo, pieces, seenGen, acked, before>>

\* ------------------------------------------------------------------ appender
AStart(w) ==
  /\ w \in Writers /\ w \in alive /\ pc[w] = "idle" /\ todo[w] > 0
  /\ before' = [before EXCEPT ![w] = Range(acked)] /\ Goto(w, "acq")
  /\ UNCHANGED <<file, lockGen, lockOwner, nextGen, todo, pieces, seenGen, acked, alive, bad, k4>> /\ WUnch

TryLock(w) ==                    \* os.symlink(...) / os.open(O_CREAT | O_EXCL)
  /\ w \in Writers /\ w \in alive /\ pc[w] = "acq"
  /\ IF lockGen = 0
       THEN /\ lockGen' = nextGen /\ lockOwner' = w /\ nextGen' = nextGen + 1
            /\ Goto(w, IF DropTornTail THEN "check" ELSE "write")
            /\ pieces' = [pieces EXCEPT ![w] = PiecesOf(Rec(w, todo[w]))]
       ELSE Goto(w, "stat") /\ UNCHANGED <<lockGen, lockOwner, nextGen, pieces>>
  /\ UNCHANGED <<file, todo, seenGen, acked, before, alive, bad, k4>> /\ WUnch

\* os.stat(lock).st_mtime, the bookkeeping of `mtime`, and the test "unchanged for longer than the grace period".
\* The grace period is assumed longer than any live critical section: it can only run out on a dead owner's lock.
OwnerDead == lockOwner # 0 /\ lockOwner \notin alive
StatLock(w) ==
  /\ w \in Writers /\ w \in alive /\ pc[w] = "stat"
  /\ IF lockGen = 0 THEN Goto(w, "acq") /\ UNCHANGED seenGen                                \* ENOENT: retry at once
     ELSE IF lockGen # seenGen[w] THEN seenGen' = [seenGen EXCEPT ![w] = lockGen] /\ Goto(w, "sleep")
     ELSE /\ UNCHANGED seenGen
          /\ \/ Goto(w, "sleep")
             \/ AllowTakeover /\ OwnerDead /\ Goto(w, "tk_rename")
  /\ UNCHANGED <<file, lockGen, lockOwner, nextGen, todo, pieces, acked, before, alive, bad, k4>> /\ WUnch

Sleep(w) ==
  /\ w \in Writers /\ w \in alive /\ pc[w] = "sleep" /\ Goto(w, "acq")
  /\ UNCHANGED <<file, lockGen, lockOwner, nextGen, todo, pieces, seenGen, acked, before, alive, bad, k4>> /\ WUnch

TakeoverRename(w) ==             \* self.release() inside acquire(): renames WHATEVER lock file exists now
  /\ w \in Writers /\ w \in alive /\ pc[w] = "tk_rename"
  /\ IF lockGen # 0
       THEN /\ lockGen' = 0 /\ lockOwner' = 0 /\ Goto(w, "sleep")
            /\ k4' = (k4 \/ (lockOwner \in alive /\ InCS(lockOwner)))
       ELSE Goto(w, "acq") /\ UNCHANGED <<lockGen, lockOwner, k4>>                          \* RuntimeError -> continue
  /\ UNCHANGED <<file, nextGen, todo, pieces, seenGen, acked, before, alive, bad>> /\ WUnch

DropTail(w) ==                   \* _drop_unterminated_tail(): cut a partial last record, under the lock
  /\ w \in Writers /\ w \in alive /\ pc[w] = "check"
  /\ LET ls == AllLines(file) IN
       file' = IF ls # <<>> /\ ~Terminated(ls[Len(ls)]) THEN SubSeq(file, 1, Len(file) - Len(ls[Len(ls)])) ELSE file
  /\ Goto(w, "write")
  /\ UNCHANGED <<lockGen, lockOwner, nextGen, todo, pieces, seenGen, acked, before, alive, bad, k4>> /\ WUnch

WritePiece(w) ==                 \* one write(2) of (part of) the buffered record
  /\ w \in Writers /\ w \in alive /\ pc[w] = "write" /\ pieces[w] # <<>>
  /\ file' = Append(file, Head(pieces[w])) /\ pieces' = [pieces EXCEPT ![w] = Tail(pieces[w])]
  /\ (IF Len(pieces[w]) = 1 THEN Goto(w, "rel") ELSE UNCHANGED pc)
  /\ UNCHANGED <<lockGen, lockOwner, nextGen, todo, seenGen, acked, before, alive, bad, k4>> /\ WUnch

ReleaseRename(w) ==              \* os.rename(lock, unique); append_logs returns (or RuntimeError: did not possess lock)
  /\ w \in Writers /\ w \in alive /\ pc[w] = "rel"
  /\ IF lockGen # 0
       THEN /\ lockGen' = 0 /\ lockOwner' = 0 /\ acked' = Append(acked, Rec(w, todo[w]))
            /\ bad' = bad \cup (IF AppendVisible(file, <<Rec(w, todo[w])>>, before[w]) THEN {} ELSE {"append-not-visible"})
       ELSE /\ bad' = bad \cup {"release-raised"} /\ UNCHANGED <<lockGen, lockOwner, acked>>
  /\ todo' = [todo EXCEPT ![w] = @ - 1] /\ Goto(w, "idle")
  /\ UNCHANGED <<file, nextGen, pieces, seenGen, before, alive, k4>> /\ WUnch

Crash(w) ==                      \* the process dies somewhere inside append_logs; one crash per behaviour
  /\ AllowCrash /\ w \in Writers /\ w \in alive /\ pc[w] # "idle" /\ Writers \subseteq alive
  /\ alive' = alive \ {w}
  /\ UNCHANGED <<file, lockGen, lockOwner, nextGen, pc, todo, pieces, seenGen, acked, before, bad, k4>> /\ WUnch

\* ------------------------------------------------------------------ reader (read_logs of one backend object)
OpenRead(w) ==                   \* open("rb"), os.stat().st_size, seek(cached offset of log_number_from)
  /\ w \in Readers /\ pc[w] = "r_idle" /\ nreads[w] > 0
  /\ LET from == consumed[w]
         hit == from \in DOMAIN offs[w]
         start == IF hit THEN offs[w][from] ELSE 0
         size == BytesOf(file) IN
     rd' = [rd EXCEPT ![w] = [from |-> from, pos |-> start, remaining |-> size - start,
                              lineNo |-> IF hit THEN from ELSE 0, err |-> None, out |-> <<>>,
                              ackedAtOpen |-> Range(acked)]]
  /\ Goto(w, "r_loop") /\ nreads' = [nreads EXCEPT ![w] = @ - 1]
  /\ UNCHANGED <<file, offs, consumed, alive, bad, k4>> /\ RUnch

\* index of the piece that starts at byte position p (pieces have length 1 here, so it is p + 1)
ReadLine(w) ==                   \* one iteration of `for log_number, line in enumerate(f, start)`
  /\ w \in Readers /\ pc[w] = "r_loop"
  /\ LET r == rd[w]  i == r.pos + 1 IN
     IF i > Len(file) THEN Goto(w, "r_ret") /\ UNCHANGED <<rd, offs>>                      \* EOF
     ELSE LET e == LineEnd(file, i)  ln == SubSeq(file, i, e)  rem == r.remaining - Len(ln) IN
       IF rem < 0 THEN Goto(w, "r_ret") /\ UNCHANGED <<rd, offs>>                          \* beyond the stat() snapshot
       ELSE IF r.err # None THEN Goto(w, "r_raise") /\ UNCHANGED <<rd, offs>>              \* a bad line was not the last
       ELSE LET offs1 == IF (r.lineNo + 1) \in DOMAIN offs[w] THEN offs[w]
                         ELSE offs[w] @@ ((r.lineNo + 1) :> (offs[w][r.lineNo] + Len(ln)))
                nxt == [r EXCEPT !.pos = e, !.remaining = rem, !.lineNo = r.lineNo + 1] IN
            IF r.lineNo < r.from
              THEN rd' = [rd EXCEPT ![w] = nxt] /\ offs' = [offs EXCEPT ![w] = offs1] /\ UNCHANGED pc
            ELSE IF ~Terminated(ln) \/ ~GoodLine(ln)                                       \* no newline / json error
              THEN /\ rd' = [rd EXCEPT ![w] = [nxt EXCEPT !.err = "decode"]]
                   /\ offs' = [offs EXCEPT ![w] = [n \in (DOMAIN offs1) \ {r.lineNo + 1} |-> offs1[n]]]
                   /\ UNCHANGED pc
              ELSE /\ rd' = [rd EXCEPT ![w] = [nxt EXCEPT !.out = Append(r.out, ln[1].r)]]
                   /\ offs' = [offs EXCEPT ![w] = offs1] /\ UNCHANGED pc
  /\ UNCHANGED <<file, consumed, nreads, alive, bad, k4>> /\ RUnch

CacheSeq(w) == LET d == DOMAIN offs[w] IN [i \in 1..Cardinality(d) |->
                 LET n == CHOOSE x \in d : Cardinality({y \in d : y < x}) = i - 1 IN <<n, offs[w][n]>>]

ReturnLogs(w) ==                 \* read_logs returns: the properties of a read are judged here
  /\ w \in Readers /\ pc[w] = "r_ret"
  /\ LET r == rd[w] IN
     /\ bad' = bad \cup (IF ReadSound(file, r.from, r.out, r.ackedAtOpen) THEN {} ELSE {"read-unsound"})
                   \cup (IF CacheExact(file, CacheSeq(w)) THEN {} ELSE {"cache-inexact"})
     /\ consumed' = [consumed EXCEPT ![w] = @ + Len(r.out)]
  /\ Goto(w, "r_idle")
  /\ UNCHANGED <<file, rd, offs, nreads, alive, k4>> /\ RUnch

RaiseDecode(w) ==
  /\ w \in Readers /\ pc[w] = "r_raise" /\ Goto(w, "r_idle") /\ bad' = bad \cup {"read-raised"}
  /\ UNCHANGED <<file, rd, offs, consumed, nreads, alive, k4>> /\ RUnch

Next == \E w \in Workers :
          \/ AStart(w) \/ TryLock(w) \/ StatLock(w) \/ Sleep(w) \/ TakeoverRename(w) \/ DropTail(w) \/ WritePiece(w)
          \/ ReleaseRename(w) \/ Crash(w) \/ OpenRead(w) \/ ReadLine(w) \/ ReturnLogs(w) \/ RaiseDecode(w)
Spec == Init /\ [][Next]_vars

\* ------------------------------------------------------------------ properties (modulo the recorded finding K4)
MutualExclusion  == k4 \/ \A a, b \in Writers : (a \in alive /\ b \in alive /\ InCS(a) /\ InCS(b)) => a = b
LogIntactInv     == k4 \/ LogIntact(file)
NoBadObservation == k4 \/ bad = {}
AckedSurvive     == k4 \/ \A i \in 1..Len(acked) : Occurs(Records(file), acked[i])
AckedInOrder     == k4 \/ \A i, j \in 1..Len(acked) : i < j => PosOf(Records(file), acked[i]) < PosOf(Records(file), acked[j])
K4Unreachable    == ~k4
==================================================================================
