SPECIFICATION Spec
CONSTANTS
  MaxN = 3
  Jobs = {1}
  Kinds = {"float", "int", "bool", "numstr", "inf", "neginf", "neg", "bytes", "none", "nan", "badstr", "hugeint", "badobj", "hostile", "list_ok", "list_numstr", "list_infs", "list_short", "list_long", "list_nan_first", "list_nan_last", "list_badelem", "list_hugeint"}
  WithPre = TRUE
  RepKinds = {"pruned", "float", "none"}
  Misbehave = TRUE
  AskMisbehave = FALSE
  Swallow = FALSE
CHECK_DEADLOCK FALSE
