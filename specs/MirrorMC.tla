------------------------------- MODULE MirrorMC -------------------------------
(* Exhaustive instance of Mirror: every history of at most MaxN COMPLETE trials with Dim objective    *)
(* values in -MaxV..MaxV that are pairwise distinct per objective (the quantifier of C13), built by     *)
(* AddTrial; every direction vector.  In each such state every decision model is compared with itself *)
(* on the mirrored input, for all parameters of the bounded ranges below.                             *)
(*   Dim = 1: the history doubles as (a) the values other trials reported at a step + the own values  *)
(*            of the deciding trial (every split of the history), (b) the own values in step order,    *)
(*            (c) the competing values of a rung, (d) the finished trials TPE splits, (e) best_trial.  *)
(*   Dim = 2: Pareto set (best_trials) and non-domination rank for EVERY subset of flipped objectives;  *)
(*            the two columns also serve as the values the current and the best trial reported at their *)
(*            shared steps for the Wilcoxon decision (ties and zero differences included).              *)
EXTENDS Mirror
CONSTANTS Dim, MaxN, MaxV

Vals   == [1..Dim -> (0 - MaxV)..MaxV]
Dirs   == [1..Dim -> {Min, Max}]
Mk(v)  == [s |-> "COMPLETE", v |-> v, hc |-> 0, c |-> <<>>]

VARIABLE h
vars == <<h>>
Init == h = <<>>
AddTrial(v) ==
  /\ Len(h) < MaxN
  /\ \A i \in 1..Len(h) : \A k \in 1..Dim : h[i].v[k] # v[k]        \* pairwise distinct per objective
  /\ h' = Append(h, Mk(v))
Next == \E v \in Vals : AddTrial(v)
Spec == Init /\ [][Next]_vars

N    == Len(h)
V1   == [i \in 1..N |-> h[i].v[1]]              \* first objective, in trial order
All  == {V1[i] : i \in 1..N}
Q4   == {1, 2, 3}                               \* percentiles 25, 50 (median), 75
Thr  == (0 - MaxV - 1)..(MaxV + 1)

MirrorPercentile ==
  \A d \in {Min, Max}, q4 \in Q4 : \A own \in (SUBSET All) \ {{}} :
     LET others == All \ own IN
       others # {} => PercentilePrune(d, q4, others, own) = PercentilePrune(Flip(d), q4, NegSet(others), NegSet(own))

PercentileIsSymmetric ==      \* the numpy percentile itself: P_q(-S) = -P_{100-q}(S)
  \A q4 \in Q4 : All # {} => Pct4(NegSet(All), q4) = Neg(Pct4(All, 4 - q4))

MirrorThreshold ==
  \A lo \in Thr, hi \in Thr : \A v \in All : ThresholdPrune(lo, hi, v) = ThresholdPrune(Neg(hi), Neg(lo), Neg(v))

MirrorPatient ==
  \A d \in {Min, Max}, pat \in 0..2, md \in 0..2 :
     PatientMaybePrune(d, pat, md, V1) = PatientMaybePrune(Flip(d), pat, md, NegSeq(V1))

MirrorRung ==
  \A d \in {Min, Max}, rf \in 2..4 : \A v \in All :
     Promotable(d, rf, v, All) = Promotable(Flip(d), rf, Neg(v), NegSet(All))

MirrorTpeSplit ==
  \A d \in {Min, Max}, nb \in 0..N :
     /\ Below(d, V1, nb) = Below(Flip(d), NegSeq(V1), nb)
     /\ \A st \in 0..1 :      \* as pruned trials whose last step is st or the trial index parity
          LET ps == [i \in 1..N |-> <<IF i % 2 = st THEN 1 ELSE 2, V1[i]>>] IN
            BelowPruned(d, ps, nb) = BelowPruned(Flip(d), NegPruned(ps), nb)

MirrorBest ==
  \A d \in {Min, Max} : /\ PlainBest(h, d) = PlainBest(NegHistory(h), Flip(d))
                        /\ EligibleBest(h, d) = EligibleBest(NegHistory(h), Flip(d))

SingleObjective == Dim = 1 => /\ MirrorPercentile /\ PercentileIsSymmetric /\ MirrorThreshold /\ MirrorPatient
                              /\ MirrorRung /\ MirrorTpeSplit /\ MirrorBest

MultiObjective ==
  \A dirs \in Dirs : \A F \in SUBSET (1..Dim) :
     /\ ParetoSet(h, dirs) = ParetoSet(NegOn(h, F), FlipOn(dirs, F))
     /\ RankOf(h, dirs) = RankOf(NegOn(h, F), FlipOn(dirs, F))

\* Wilcoxon (Dim = 2 instance read as two columns): column 1 = the current trial's values at the shared steps,
\* column 2 = the best trial's; the best trial may have reported one more value (any of the range).
Col(k) == [i \in 1..N |-> h[i].v[k]]
MirrorWilcoxon ==
  (Dim = 2 /\ N >= 1) =>
    LET cur == Col(1)  best == Col(2)  d == DiffSeq(cur, best)  nd == DiffSeq(NegSeq(cur), NegSeq(best))
        wp == WPlus4(d)  wm == WMinus4(d)  nwp == WPlus4(nd)  nwm == WMinus4(nd)
        sc == SeqSum(cur)  sb == SeqSum(best)  nsc == SeqSum(NegSeq(cur))  nsb == SeqSum(NegSeq(best))
        T4 == 2 * N * (N + 1)
        \* the decision is a step function of the critical value: every critical value around the steps + both ends
        Crit == {0, T4} \cup {x \in {wp - 1, wp, wm - 1, wm} : x >= 0}
    IN \A dir \in {Min, Max}, c4 \in Crit, ns \in 0..3 : \A extra \in {0} \cup {x \in (0 - MaxV)..MaxV : x # 0} : \A hasExtra \in {0, 1} :
         WilcoxonDecide(dir, N, wp, wm, sc, N, sb + hasExtra * extra, N + hasExtra, c4, ns)
           = WilcoxonDecide(Flip(dir), N, nwp, nwm, nsc, N, nsb - hasExtra * extra, N + hasExtra, c4, ns)
WilcoxonStatisticsPartition ==      \* W+ + W- = n(n+1)/2, and negating the differences swaps them
  (Dim = 2 /\ N >= 1) => LET d == DiffSeq(Col(1), Col(2)) IN
     /\ WPlus4(d) + WMinus4(d) = 2 * N * (N + 1)
     /\ WPlus4(NegSeq(d)) = WMinus4(d)
\* both answers occur (negative instances MirrorMC_wneg1/2.cfg must be violated)
WilcoxonNeverPrunes == ~(Dim = 2 /\ N >= 2 /\ \E c4 \in 0..(2 * N * (N + 1)) : WilcoxonPrune(Max, Col(1), Col(2), Col(2), c4, 0))
WilcoxonSafetyNeverDecides ==      \* the safety check overrules a "worse" verdict somewhere
  ~(Dim = 2 /\ N >= 2 /\ WPlus4(DiffSeq(Col(1), Col(2))) <= N * (N + 1)
      /\ ~WilcoxonPrune(Max, Col(1), Col(2), Col(2), N * (N + 1), 0))

\* modelled defect (negative instance MirrorMC_bad.cfg, must be violated): the percentile is NOT taken from the
\* other side for maximize - the theorem is sensitive to exactly the kind of edit C13 is about
BadPercentilePrune(d, q4, others, own) ==
  LET best == BestOf(d, own)  p4 == Pct4(others, q4) IN IF d = Max THEN 4 * best < p4 ELSE 4 * best > p4
MirrorBadPercentile ==
  \A d \in {Min, Max}, q4 \in Q4 : \A own \in (SUBSET All) \ {{}} :
     LET others == All \ own IN
       others # {} => BadPercentilePrune(d, q4, others, own) = BadPercentilePrune(Flip(d), q4, NegSet(others), NegSet(own))

\* sanity (not vacuous): both answers of every decision occur somewhere in the instance
SomePrunes   == ~(N = MaxN /\ Dim = 1 /\ \E own \in (SUBSET All) \ {{}, All} : PercentilePrune(Max, 2, All \ own, own))
SomeKeeps    == ~(N = MaxN /\ Dim = 1 /\ \E own \in (SUBSET All) \ {{}, All} : ~PercentilePrune(Max, 2, All \ own, own))
===============================================================================
