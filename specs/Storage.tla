-------------------------------- MODULE Storage --------------------------------
(* The BaseStorage contract (optuna/storages/_base.py docstrings), property level.                  *)
(*                                                                                                  *)
(* Abstract state st = [studies, trials]: both are sequences indexed by the order of creation       *)
(* (abstract id = position, 1-based; 0 stands for "an id that was never issued"); a deleted object  *)
(* keeps its slot with live = FALSE, so "an id names exactly one live object" and "deleted is gone" *)
(* are statements about the live flag.  Which concrete integers a backend hands out is not part of  *)
(* the contract (only freshness is) and is abstracted by the harness' creation-order numbering.     *)
(*                                                                                                  *)
(* Every call is a pure operator  Do<Call>(st, args) = [st |-> st', ret |-> reply]  (setters) or a   *)
(* predicate  <Getter>OK(st, args, reply)  (getters).  The model-checking module StorageMC, the     *)
(* trace module StorageTrace, the journal fold (JournalReplay) and the cache spec reuse them.       *)
(*                                                                                                  *)
(* Token universes (homogeneous, see BUILDING.md): objective/intermediate/param values are integers *)
(* (order-preserving indices into the harness' float pool; NegInfV/PosInfV/NaNV sentinels); JSON    *)
(* attribute values are integers (pool indices); distributions are records [c, g, k] (class, log    *)
(* flag, identity); states and error classes are strings; dates are 0 (None), 1/2 (template pool),  *)
(* GenDate (set by the backend's clock).                                                            *)
EXTENDS Integers, Sequences, FiniteSets, TLC

NoneV   == <<-999>>          \* FrozenTrial.values is None (no value token is -999)
NegInfV == -1000
PosInfV == 1000
NaNV    == 9999
NoDate  == 0
GenDate == 3

States   == {"RUNNING", "COMPLETE", "PRUNED", "FAIL", "WAITING"}
Finished(s) == s \in {"COMPLETE", "PRUNED", "FAIL"}

Ok(v)  == [k |-> "ok", v |-> v]
Err(e) == [k |-> "err", v |-> e]
Res(st, ret) == [st |-> st, ret |-> ret]

Put(m, key, v) == [x \in DOMAIN m \cup {key} |-> IF x = key THEN v ELSE m[x]]
EmptyMap == <<>>

Empty == [studies |-> <<>>, trials |-> <<>>]

LiveS(st, s) == s \in 1..Len(st.studies) /\ st.studies[s].live
LiveT(st, t) == t \in 1..Len(st.trials) /\ st.trials[t].live
LiveStudyIds(st) == {s \in 1..Len(st.studies) : st.studies[s].live}
LiveTrialIds(st) == {t \in 1..Len(st.trials) : st.trials[t].live}

\* distributions: same kind (class, log flag); categorical choices may not change  (distributions.py:636-671)
Compat(a, b) == a.c = b.c /\ a.g = b.g /\ (a.c = "cat" => a.k = b.k)

NoTemplate == [has |-> 0]

\* ------------------------------------------------------------------------------ studies
DoCreateStudy(st, name, dirs) ==
  IF name # "auto" /\ \E s \in LiveStudyIds(st) : st.studies[s].name = name
  THEN Res(st, Err("DuplicatedStudyError"))
  ELSE LET rec == [live |-> TRUE, name |-> name, dirs |-> dirs, ua |-> EmptyMap, sa |-> EmptyMap,
                   trials |-> <<>>, pd |-> EmptyMap]
       IN  Res([st EXCEPT !.studies = Append(@, rec)], Ok(Len(st.studies) + 1))

DoDeleteStudy(st, s) ==
  IF ~LiveS(st, s) THEN Res(st, Err("KeyError"))
  ELSE Res([st EXCEPT !.studies[s].live = FALSE,
                      !.trials = [t \in 1..Len(st.trials) |->
                                    IF st.trials[t].study = s THEN [st.trials[t] EXCEPT !.live = FALSE]
                                    ELSE st.trials[t]]],
           Ok(0))

DoSetStudyAttr(st, which, s, key, v) ==        \* which \in {"ua", "sa"}
  IF ~LiveS(st, s) THEN Res(st, Err("KeyError"))
  ELSE IF which = "ua" THEN Res([st EXCEPT !.studies[s].ua = Put(@, key, v)], Ok(0))
                       ELSE Res([st EXCEPT !.studies[s].sa = Put(@, key, v)], Ok(0))

ProjStudy(st, s) == [id |-> s, name |-> st.studies[s].name, dirs |-> st.studies[s].dirs,
                     ua |-> st.studies[s].ua, sa |-> st.studies[s].sa]

RECURSIVE SeqOfSet(_)
SeqOfSet(S) == IF S = {} THEN <<>>          \* ascending order
               ELSE LET m == CHOOSE x \in S : \A y \in S : x <= y IN <<m>> \o SeqOfSet(S \ {m})

AllStudies(st) == LET ids == SeqOfSet(LiveStudyIds(st)) IN [i \in 1..Len(ids) |-> ProjStudy(st, ids[i])]

StudyIdFromNameOK(st, name, ret) ==
  LET hits == {s \in LiveStudyIds(st) : st.studies[s].name = name}
  IN  IF hits = {} THEN ret.k = "err" /\ ret.v = "KeyError" ELSE ret.k = "ok" /\ ret.v \in hits

StudyFieldOK(st, field, s, ret) ==            \* field \in {"name", "dirs", "ua", "sa"}
  IF ~LiveS(st, s) THEN ret.k = "err" /\ ret.v = "KeyError"
  ELSE ret.k = "ok" /\ ret.v = (CASE field = "name" -> st.studies[s].name
                                   [] field = "dirs" -> st.studies[s].dirs
                                   [] field = "ua"   -> st.studies[s].ua
                                   [] field = "sa"   -> st.studies[s].sa)

\* ------------------------------------------------------------------------------ trials
NewTrial(st, s, tm) ==
  IF tm.has = 0
  THEN [live |-> TRUE, study |-> s, number |-> Len(st.studies[s].trials), state |-> "RUNNING", values |-> NoneV,
        params |-> EmptyMap, ua |-> EmptyMap, sa |-> EmptyMap, iv |-> EmptyMap, ts |-> GenDate, tc |-> NoDate]
  ELSE \* "a template trial is stored field for field" — everything but id and number
       [live |-> TRUE, study |-> s, number |-> Len(st.studies[s].trials), state |-> tm.state, values |-> tm.values,
        params |-> tm.params, ua |-> tm.ua, sa |-> tm.sa, iv |-> tm.iv, ts |-> tm.ts, tc |-> tm.tc]

\* All distributions recorded for `name` in the study of trial t (any trial, template-created included).
DistsOf(st, s, name) == {st.trials[u].params[name].d :
                           u \in {w \in LiveTrialIds(st) : st.trials[w].study = s /\ name \in DOMAIN st.trials[w].params}}

\* D13: a template whose parameter distributions are incompatible with what the study already recorded for the
\* same name is outside the contract (RDB rejects it with ValueError, the other backends store it).
CreateTrialDefined(st, s, tm) ==
  (LiveS(st, s) /\ tm.has = 1) =>
     \A name \in DOMAIN tm.params : \A o \in DistsOf(st, s, name) : Compat(o, tm.params[name].d)

DoCreateTrial(st, s, tm) ==
  IF ~LiveS(st, s) THEN Res(st, Err("KeyError"))
  ELSE LET t == Len(st.trials) + 1 IN
       Res([st EXCEPT !.trials = Append(@, NewTrial(st, s, tm)), !.studies[s].trials = Append(@, t)], Ok(t))

Updatable(st, t) == IF ~LiveT(st, t) THEN "KeyError"
                    ELSE IF Finished(st.trials[t].state) THEN "UpdateFinishedTrialError" ELSE "ok"

\* Out-of-contract calls are excluded by this precondition (named deviations, DESIGN.md 3.1):
\*  D10 a second set_trial_param for the same (trial, name) is unspecified (RDB keeps the first value);
\*  the compatibility verdict is only defined when the recorded distributions of the name agree with each
\*  other about the new one (they always do unless incompatible templates were imported).
SetParamDefined(st, t, name, d) ==
  LiveT(st, t) /\ ~Finished(st.trials[t].state) =>
     /\ name \notin DOMAIN st.trials[t].params
     /\ LET R == DistsOf(st, st.trials[t].study, name) IN
          \/ \A o \in R : Compat(o, d)
          \/ /\ \A o \in R : ~Compat(o, d)
             /\ name \in DOMAIN st.studies[st.trials[t].study].pd

DoSetParam(st, t, name, v, d) ==
  LET u == Updatable(st, t) IN
  IF u # "ok" THEN Res(st, Err(u))
  ELSE LET s == st.trials[t].study IN
       IF \E o \in DistsOf(st, s, name) : ~Compat(o, d) THEN Res(st, Err("ValueError"))
       ELSE Res([st EXCEPT !.trials[t].params = Put(@, name, [d |-> d, v |-> v]),
                           !.studies[s].pd = Put(@, name, d)], Ok(0))

\* D2: the values argument of a rejected RUNNING request is unspecified -> such calls carry no values.
SetStateDefined(state, vals) == state = "RUNNING" => vals = NoneV

DoSetStateValues(st, t, state, vals) ==
  LET u == Updatable(st, t) IN
  IF u # "ok" THEN Res(st, Err(u))
  ELSE LET cur == st.trials[t] IN
       IF state = "RUNNING" /\ cur.state # "WAITING" THEN Res(st, Ok(FALSE))
       ELSE Res([st EXCEPT !.trials[t].state = state,
                           !.trials[t].values = IF vals = NoneV THEN @ ELSE vals,
                           !.trials[t].ts = IF state = "RUNNING" THEN GenDate ELSE @,
                           !.trials[t].tc = IF Finished(state) THEN GenDate ELSE @], Ok(TRUE))

DoSetIV(st, t, step, v) ==
  LET u == Updatable(st, t) IN
  IF u # "ok" THEN Res(st, Err(u)) ELSE Res([st EXCEPT !.trials[t].iv = Put(@, step, v)], Ok(0))

DoSetTrialAttr(st, which, t, key, v) ==
  LET u == Updatable(st, t) IN
  IF u # "ok" THEN Res(st, Err(u))
  ELSE IF which = "ua" THEN Res([st EXCEPT !.trials[t].ua = Put(@, key, v)], Ok(0))
                       ELSE Res([st EXCEPT !.trials[t].sa = Put(@, key, v)], Ok(0))

ProjTrial(st, t) == LET r == st.trials[t] IN
  [id |-> t, number |-> r.number, state |-> r.state, values |-> r.values, params |-> r.params,
   ua |-> r.ua, sa |-> r.sa, iv |-> r.iv, ts |-> r.ts, tc |-> r.tc]

TrialsOf(st, s, states) ==        \* in order of number; states = <<"ALL">> or a sequence of state names
  LET ids == st.studies[s].trials
      keep == SelectSeq(ids, LAMBDA t : states = <<"ALL">> \/ \E i \in 1..Len(states) : states[i] = st.trials[t].state)
  IN  [i \in 1..Len(keep) |-> ProjTrial(st, keep[i])]

TrialOK(st, t, ret) ==
  IF ~LiveT(st, t) THEN ret.k = "err" /\ ret.v = "KeyError" ELSE ret.k = "ok" /\ ret.v = ProjTrial(st, t)

AllTrialsOK(st, s, states, ret) ==
  IF ~LiveS(st, s) THEN ret.k = "err" /\ ret.v = "KeyError" ELSE ret.k = "ok" /\ ret.v = TrialsOf(st, s, states)

NTrialsOK(st, s, state, ret) ==      \* state = "ALL" or a state name
  IF ~LiveS(st, s) THEN ret.k = "err" /\ ret.v = "KeyError"
  ELSE ret.k = "ok" /\ ret.v = Len(TrialsOf(st, s, <<state>>))

TrialIdFromNumberOK(st, s, n, ret) ==
  IF ~LiveS(st, s) \/ n < 0 \/ n >= Len(st.studies[s].trials) THEN ret.k = "err" /\ ret.v = "KeyError"
  ELSE ret.k = "ok" /\ ret.v = st.studies[s].trials[n + 1]

TrialNumberOK(st, t, ret) ==
  IF ~LiveT(st, t) THEN ret.k = "err" /\ ret.v = "KeyError" ELSE ret.k = "ok" /\ ret.v = st.trials[t].number

TrialParamOK(st, t, name, ret) ==     \* get_trial_param: the INTERNAL representation that was written
  IF ~LiveT(st, t) \/ name \notin DOMAIN st.trials[t].params THEN ret.k = "err" /\ ret.v = "KeyError"
  ELSE ret.k = "ok" /\ ret.v = st.trials[t].params[name].v

TrialFieldOK(st, field, t, ret) ==    \* get_trial_params / _user_attrs / _system_attrs
  IF ~LiveT(st, t) THEN ret.k = "err" /\ ret.v = "KeyError"
  ELSE ret.k = "ok" /\ ret.v = (CASE field = "params" -> st.trials[t].params
                                   [] field = "ua" -> st.trials[t].ua
                                   [] field = "sa" -> st.trials[t].sa)

\* get_best_trial: a COMPLETE trial no other COMPLETE trial beats (dirs[1] = 1 means maximise).  Which of
\* several equally good trials is returned is open.  D11: on a multi-objective study without COMPLETE
\* trials both documented errors apply and either is admitted.  If a COMPLETE trial has no usable
\* first value (None / NaN — only possible through imported templates) the optimum is undefined and any
\* COMPLETE trial is admitted.
BestTrialOK(st, s, ret) ==
  IF ~LiveS(st, s) THEN ret.k = "err" /\ ret.v = "KeyError"
  ELSE LET comp  == {t \in LiveTrialIds(st) : st.trials[t].study = s /\ st.trials[t].state = "COMPLETE"}
           multi == Len(st.studies[s].dirs) > 1
           val(t) == st.trials[t].values[1]
           odd   == \E t \in comp : st.trials[t].values = NoneV \/ st.trials[t].values = <<>> \/ val(t) = NaNV
           best  == IF odd THEN comp
                    ELSE {t \in comp : \A u \in comp :
                            IF st.studies[s].dirs[1] = 1 THEN val(u) <= val(t) ELSE val(t) <= val(u)}
       IN  IF comp = {} /\ multi THEN ret.k = "err" /\ ret.v \in {"ValueError", "RuntimeError"}
           ELSE IF comp = {} THEN ret.k = "err" /\ ret.v = "ValueError"
           ELSE IF multi THEN ret.k = "err" /\ ret.v = "RuntimeError"
           ELSE ret.k = "ok" /\ \E t \in best : ret.v = ProjTrial(st, t)

\* ------------------------------------------------------------------------------ whole readable state
Project(st) ==
  LET ids == SeqOfSet(LiveStudyIds(st)) IN
  [studies |-> [i \in 1..Len(ids) |-> ProjStudy(st, ids[i])],
   trials  |-> [i \in 1..Len(ids) |-> TrialsOf(st, ids[i], <<"ALL">>)]]

\* ------------------------------------------------------------------------------ state invariants
\* trial numbers are 0,1,2,.. in creation order per study
NumbersAreOrdinal(st) ==
  \A s \in 1..Len(st.studies) : \A i \in 1..Len(st.studies[s].trials) :
     LET t == st.studies[s].trials[i] IN st.trials[t].number = i - 1 /\ st.trials[t].study = s
\* every trial belongs to exactly one study's list; a live trial's study is live; a deleted study has no live trial
TrialsPartition(st) ==
  /\ \A t \in 1..Len(st.trials) : \E s \in 1..Len(st.studies) : \E i \in 1..Len(st.studies[s].trials) :
        st.studies[s].trials[i] = t /\ st.trials[t].study = s
  /\ \A t \in LiveTrialIds(st) : st.studies[st.trials[t].study].live
  /\ \A s \in 1..Len(st.studies) : ~st.studies[s].live =>
        \A i \in 1..Len(st.studies[s].trials) : ~st.trials[st.studies[s].trials[i]].live
\* one live study per name
NamesUnique(st) ==
  \A a, b \in LiveStudyIds(st) : (a # b /\ st.studies[a].name # "auto") => st.studies[a].name # st.studies[b].name

StateInv(st) == NumbersAreOrdinal(st) /\ TrialsPartition(st) /\ NamesUnique(st)

\* ------------------------------------------------------------------------------ action-level contract
\* (used as action properties by StorageMC; st -> st2 is one call)
FinishedIsFrozen(st, st2) ==
  \A t \in 1..Len(st.trials) : (st.trials[t].live /\ Finished(st.trials[t].state)) =>
       \/ st2.trials[t] = st.trials[t]
       \/ st2.trials[t] = [st.trials[t] EXCEPT !.live = FALSE]      \* only delete_study removes it
NeverReissued(st, st2) ==
  /\ Len(st2.studies) >= Len(st.studies) /\ Len(st2.trials) >= Len(st.trials)
  /\ \A s \in 1..Len(st.studies) : st2.studies[s].live => st.studies[s].live
  /\ \A t \in 1..Len(st.trials) : st2.trials[t].live => st.trials[t].live
================================================================================
