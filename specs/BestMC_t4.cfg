SPECIFICATION Spec
CONSTANTS Dim = 4  MaxN = 2  MaxC = 0  InfMode = 1
INVARIANT NonEmptyIffComplete
INVARIANT OnlyComplete
INVARIANT PlainIsOptimum
INVARIANT UnconstrainedIsPlain
INVARIANT FeasibleWhenPossible
INVARIANT StrictReadingAdmitted
INVARIANT SomeReplyAdmissible
INVARIANT ErrorOnlyWhenDocumented
INVARIANT ReplyMatchesSet
INVARIANT MultiIsRuntimeError
INVARIANT ParetoWithinCandidates
INVARIANT ParetoNonEmptyIff
INVARIANT ParetoNotDominated
INVARIANT ParetoCovers
INVARIANT ParetoKeepsDuplicates
INVARIANT OneObjectiveFront
INVARIANT Mirror
CHECK_DEADLOCK FALSE
