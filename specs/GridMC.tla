-------------------------------- MODULE GridMC --------------------------------
(* Exhaustive instance of Grid: every grid with 1..MaxN cells, every outcome pattern, every split of *)
(* the run into optimize calls with caps from Caps, at most MaxEnq user-enqueued trials at any point *)
(* between trials.  Checked: the invariants of the property, no deadlock, termination.                *)
EXTENDS Grid
CONSTANTS MaxN, Caps, MaxEnq

VARIABLE nenq
mcvars == <<vars, nenq>>

Init == (\E n \in 1..MaxN : InitFor(Product(<<n>>))) /\ nenq = 0

MCEnqueue       == nenq < MaxEnq /\ Enqueue /\ nenq' = nenq + 1
MCOptimize(cap) == Optimize(cap) /\ UNCHANGED nenq
MCStartTrial(e) == StartTrial(e) /\ UNCHANGED nenq
MCAssign(c)     == Assign(c) /\ UNCHANGED nenq
MCFinish(out)   == Finish(out) /\ UNCHANGED nenq
MCReturnSelf    == ReturnSelf /\ UNCHANGED nenq
MCReturnCap     == ReturnCap /\ UNCHANGED nenq
MCInterrupt     == Interrupt /\ UNCHANGED nenq
MCDone          == Done /\ UNCHANGED nenq

Next ==
  \/ MCEnqueue
  \/ \E cap \in Caps : MCOptimize(cap)
  \/ \E e \in BOOLEAN : MCStartTrial(e)
  \/ \E c \in Product(<<MaxN>>) : MCAssign(c)
  \/ \E out \in Outcomes : MCFinish(out)
  \/ MCReturnSelf
  \/ MCReturnCap
  \/ MCInterrupt
  \/ MCDone

Spec == Init /\ [][Next]_mcvars /\ WF_mcvars(Next)

TypeOK ==
  /\ running \in BOOLEAN /\ assigned \in BOOLEAN /\ kind \in {"grid", "enq"}
  /\ mode \in {"idle", "run", "stopped"} /\ left \in 0..100 /\ pend \in 0..MaxEnq /\ failed \in BOOLEAN

\* fairness on Next alone does not force the user to stop enqueueing/resuming: termination is stated
\* for the runs in which optimize is called again whenever the run was interrupted, which WF(Next) gives
\* because Enqueue is bounded.
Terminates == <>Stopped
===============================================================================
