------------------------------- MODULE LinStorage -------------------------------
(* C03: concurrent use of one storage is linearizable.                                               *)
(*                                                                                                  *)
(* A history is the totally ordered sequence of call starts and call ends of several workers (threads *)
(* or connections) on ONE storage.  It is accepted iff there is a placement of one linearization      *)
(* point per call, between its start and its end, such that executing the calls atomically in the      *)
(* order of their points, with the Storage contract's semantics, yields exactly the recorded replies   *)
(* and the recorded final state.  TLC searches the placements (the Lin action is internal).           *)
(*                                                                                                  *)
(* Events:  [e |-> "start", w, op, ret]   (ret = the reply the call eventually gave: the trace is      *)
(*                                         written after the run)                                     *)
(*          [e |-> "end", w]                                                                          *)
(*          [e |-> "final", post]         the state read back after all workers have finished          *)
(* A reply "Busy" (SQLite: database is locked) means the call had no effect.  A reply "Crashed" marks  *)
(* a call whose worker died inside it (no end event): it is wholly applied or wholly absent (C05).     *)
EXTENDS JournalReplay, TraceBase

VARIABLES st, pend, lin
vars == <<tix, l, st, pend, lin>>

Workers == {Trace.workers[i] : i \in 1..Len(Trace.workers)}
Idle == [a |-> "idle"]
Is(e) == Consume /\ Ev.e = e
RetEq(a, b) == a.k = b.k /\ a.v = b.v
IsGetter(op) == op.a \in {"get_trial", "get_all_trials", "get_n_trials", "get_best_trial", "get_trial_id_from_number",
                          "get_trial_number", "get_trial_param", "get_trial_params", "get_trial_ua", "get_trial_sa",
                          "get_study_id_from_name", "get_study_name", "get_study_dirs", "get_study_ua", "get_study_sa",
                          "get_all_studies"}

GetterOK(s, op, ret) ==
  CASE op.a = "get_trial"                -> TrialOK(s, op.t, ret)
    [] op.a = "get_all_trials"           -> AllTrialsOK(s, op.s, op.states, ret)
    [] op.a = "get_n_trials"             -> NTrialsOK(s, op.s, op.state, ret)
    [] op.a = "get_best_trial"           -> BestTrialOK(s, op.s, ret)
    [] op.a = "get_trial_id_from_number" -> TrialIdFromNumberOK(s, op.s, op.n, ret)
    [] op.a = "get_trial_number"         -> TrialNumberOK(s, op.t, ret)
    [] op.a = "get_trial_param"          -> TrialParamOK(s, op.t, op.name, ret)
    [] op.a = "get_trial_params"         -> TrialFieldOK(s, "params", op.t, ret)
    [] op.a = "get_trial_ua"             -> TrialFieldOK(s, "ua", op.t, ret)
    [] op.a = "get_trial_sa"             -> TrialFieldOK(s, "sa", op.t, ret)
    [] op.a = "get_study_id_from_name"   -> StudyIdFromNameOK(s, op.name, ret)
    [] op.a = "get_study_name"           -> StudyFieldOK(s, "name", op.s, ret)
    [] op.a = "get_study_dirs"           -> StudyFieldOK(s, "dirs", op.s, ret)
    [] op.a = "get_study_ua"             -> StudyFieldOK(s, "ua", op.s, ret)
    [] op.a = "get_study_sa"             -> StudyFieldOK(s, "sa", op.s, ret)
    [] op.a = "get_all_studies"          -> ret.k = "ok" /\ ret.v = AllStudies(s)

Init == TraceInitBase /\ st = Empty /\ pend = [w \in Workers |-> Idle] /\ lin = [w \in Workers |-> FALSE]

Start == /\ Is("start") /\ pend[Ev.w] = Idle
         /\ pend' = [pend EXCEPT ![Ev.w] = [a |-> "call", op |-> Ev.op, ret |-> Ev.ret]]
         /\ lin' = [lin EXCEPT ![Ev.w] = FALSE] /\ UNCHANGED st

\* the linearization point of w's pending call (internal: consumes no event)
Lin(w) ==
  /\ pend[w] # Idle /\ ~lin[w]
  /\ LET op == pend[w].op  ret == pend[w].ret IN
       IF ret.k = "err" /\ ret.v = "Busy" THEN UNCHANGED st
       ELSE IF ret.k = "err" /\ ret.v = "Crashed"                   \* the worker died inside the call (C05):
         THEN \/ UNCHANGED st                                        \*   wholly absent
              \/ IsGetter(op) /\ UNCHANGED st
              \/ ~IsGetter(op) /\ OpDefined(st, op) /\ st' = ApplyOp(st, op).st   \* or wholly applied
       ELSE IF IsGetter(op) THEN GetterOK(st, op, ret) /\ UNCHANGED st
       ELSE /\ OpDefined(st, op)
            /\ LET r == ApplyOp(st, op) IN RetEq(ret, r.ret) /\ st' = r.st
  /\ lin' = [lin EXCEPT ![w] = TRUE]
  /\ UNCHANGED <<tix, l, pend>>

End == /\ Is("end") /\ pend[Ev.w] # Idle /\ lin[Ev.w]
       /\ pend' = [pend EXCEPT ![Ev.w] = Idle] /\ UNCHANGED <<st, lin>>

Final == /\ Is("final")
         /\ \A w \in Workers : IF pend[w] = Idle THEN TRUE
                                ELSE pend[w].ret.k = "err" /\ pend[w].ret.v = "Crashed" /\ lin[w]
         /\ Ev.post = Project(st)                                   \* nothing lost, nothing half-done
         /\ UNCHANGED <<st, pend, lin>>

Next == Start \/ End \/ Final \/ \E w \in Workers : Lin(w)
Spec == Init /\ [][Next]_vars

\* corollaries, evaluated in every state of every accepted placement
Inv == StateInv(st)
=================================================================================
