--------------------------------- MODULE Best ---------------------------------
(* Property-level specification of C12: what Study.best_trial / best_value / best_trials (and the    *)
(* storage-level get_best_trial they are built on) may answer for a given trial history.            *)
(*                                                                                                   *)
(* A history is a sequence of trials in NUMBER order (h[i] is trial number i-1); a trial is a record *)
(*   [s  |-> "COMPLETE" | "PRUNED" | "FAIL" | "RUNNING" | "WAITING",                                 *)
(*    v  |-> <<objective values>>   (integers, NegInf/PosInf sentinels; <<>> = no values),           *)
(*    hc |-> 0 | 1                  (1 = constraint values are recorded for the trial),              *)
(*    c  |-> <<constraint values>>] (integers; meaningful only if hc = 1).                           *)
(* A direction vector is a sequence over {1, -1}: 1 = minimize, -1 = maximize, so that d * value is  *)
(* a loss (the sentinels are symmetric, hence -NegInf = PosInf).                                     *)
(*                                                                                                   *)
(* Nothing here says WHICH of several admissible trials is returned: every operator yields the SET   *)
(* of admissible answers.                                                                            *)
EXTENDS Pareto        \* Integers, Sequences, FiniteSets, NegInf, PosInf, Dominates, FrontIdx

Min == 1
Max == -1

Numbers(h)   == 1..Len(h)
Complete(h)  == {i \in Numbers(h) : h[i].s = "COMPLETE"}

\* ------------------------------------------------------------------ feasibility classes (D8)
\* feasible : constraint values recorded and all <= 0   (study/_constrained_optimization.py:25)
\* violating: constraint values recorded and some > 0
\* unknown  : no constraint values recorded
Recorded(t)  == t.hc = 1
Feasible(t)  == t.hc = 1 /\ \A k \in 1..Len(t.c) : t.c[k] <= 0
Violating(t) == t.hc = 1 /\ \E k \in 1..Len(t.c) : t.c[k] > 0
Unknown(t)   == t.hc = 0

FeasibleComplete(h) == {i \in Complete(h) : Feasible(h[i])}

\* ------------------------------------------------------------------ single objective
Value(h, i)        == h[i].v[1]
Beats(h, d, j, i)  == d * Value(h, j) < d * Value(h, i)        \* j is strictly better than i

\* Best by value alone (BaseStorage.get_best_trial: "the trial with the best objective value among all
\* finished trials"; only COMPLETE trials have a value that counts).
PlainBest(h, d) == {i \in Complete(h) : ~\E j \in Complete(h) : Beats(h, d, j, i)}

\* The trials a candidate answer i has to be at least as good as.
\*  - a feasible answer competes with the feasible trials only,
\*  - an answer without constraint values (deviation D8: "the behavior is undefined when constrained
\*    optimization without the violation value in the best-valued trial", study.py:165) competes with
\*    every trial that is not known to violate,
\*  - a violating answer (only admissible when nothing feasible exists) competes with everything.
Competitors(h, i) ==
  IF Feasible(h[i]) THEN FeasibleComplete(h)
  ELSE IF Unknown(h[i]) THEN {j \in Complete(h) : ~Violating(h[j])}
  ELSE Complete(h)

EligibleBest(h, d) ==
  {i \in Complete(h) : /\ Violating(h[i]) => FeasibleComplete(h) = {}
                       /\ ~\E j \in Competitors(h, i) : Beats(h, d, j, i)}

\* When may best_trial raise ValueError instead of answering?  "No trials are completed yet" and
\* "No feasible trials are completed yet" (study.py:172; the latter only makes sense in a study that
\* records constraints at all).
NoBestOK(h) == \/ Complete(h) = {}
               \/ FeasibleComplete(h) = {} /\ \E i \in Complete(h) : Violating(h[i])

\* ------------------------------------------------------------------ multi objective
\* Loss vector of a trial; a missing coordinate counts as +inf (only ever used for COMPLETE trials,
\* which have all coordinates).
Loss(t, dirs) == [k \in 1..Len(dirs) |-> IF k <= Len(t.v) THEN dirs[k] * t.v[k] ELSE PosInf]
Losses(h, dirs) == [i \in Numbers(h) |-> Loss(h[i], dirs)]

\* A study is constrained once any of its trials carries constraint values (study.py:195); in a
\* constrained study a trial without constraint values counts as infeasible
\* (_constrained_optimization.py:14).
Constrained(h) == \E i \in Numbers(h) : Recorded(h[i])
Candidates(h)  == IF Constrained(h) THEN FeasibleComplete(h) ELSE Complete(h)

ParetoSet(h, dirs) == FrontIdx(Losses(h, dirs), Candidates(h))

\* ------------------------------------------------------------------ admissible replies
\* A reply is a record with the same fields in every case (TLC compares only like with like):
\*   best_trial / get_best_trial : [k |-> "ok" | "err", n |-> trial number | -1, e |-> "" | exception class]
\*   best_value                  : [k, x |-> value | 0, e]
\*   best_trials                 : [k, ns |-> <<trial numbers in the order returned>>, e]
Err(r, cls) == r.k = "err" /\ r.e = cls

BestTrialOK(h, dirs, r) ==
  IF Len(dirs) > 1 THEN Err(r, "RuntimeError")
  ELSE \/ r.k = "ok" /\ (r.n + 1) \in EligibleBest(h, dirs[1])
       \/ Err(r, "ValueError") /\ NoBestOK(h)

BestValueOK(h, dirs, r) ==
  IF Len(dirs) > 1 THEN Err(r, "RuntimeError")
  ELSE \/ r.k = "ok" /\ \E i \in EligibleBest(h, dirs[1]) : Value(h, i) = r.x
       \/ Err(r, "ValueError") /\ NoBestOK(h)

\* best_value is the value of best_trial (both read from the same quiescent history).
ValueIsOfTrial(h, rt, rv) ==
  (rt.k = "ok" /\ rv.k = "ok") => (rt.n + 1) \in Numbers(h) /\ Len(h[rt.n + 1].v) >= 1 /\ Value(h, rt.n + 1) = rv.x

BestTrialsOK(h, dirs, r) ==
  /\ r.k = "ok"
  /\ Len(r.ns) = Cardinality(ParetoSet(h, dirs))                  \* nothing twice
  /\ {r.ns[k] + 1 : k \in 1..Len(r.ns)} = ParetoSet(h, dirs)     \* exactly the set

\* Storage level (BaseStorage.get_best_trial docstring): RuntimeError if the study has more than one
\* direction, ValueError if no trial is COMPLETE; deviation D11: when both hold either is allowed.
StorageBestOK(h, dirs, r) ==
  IF Len(dirs) > 1 THEN Err(r, "RuntimeError") \/ (Err(r, "ValueError") /\ Complete(h) = {})
  ELSE \/ r.k = "ok" /\ (r.n + 1) \in PlainBest(h, dirs[1])
       \/ Err(r, "ValueError") /\ Complete(h) = {}

\* ------------------------------------------------------------------ mirror
Neg(x)        == 0 - x
FlipDirs(ds)  == [k \in 1..Len(ds) |-> Neg(ds[k])]
NegTrial(t)   == [t EXCEPT !.v = [k \in 1..Len(t.v) |-> Neg(t.v[k])]]
NegHistory(h) == [i \in Numbers(h) |-> NegTrial(h[i])]
===============================================================================
