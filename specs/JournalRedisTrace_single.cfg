SPECIFICATION TSpec
CONSTANTS
  Appenders = {1, 2, 3}
  Readers = {11, 12, 13}
  MaxAppends = 99
  MaxReads = 99
  Cluster = FALSE
  SkipMissing = FALSE
  MayCrash = FALSE
INVARIANT Report
CHECK_DEADLOCK FALSE
