SPECIFICATION Spec
CONSTANTS MaxDim = 5  MaxPts = 8  MaxCoord = 4
INVARIANT Report
CHECK_DEADLOCK FALSE
