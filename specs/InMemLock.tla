-------------------------------- MODULE InMemLock --------------------------------
(* C03, algorithm level for the in-memory storage: every public method is one critical section of     *)
(* self._lock.  Two representative methods are modelled line by line, as the scheduler of harness/     *)
(* thread_sched.py preempts them:                                                                      *)
(*   create_new_trial       : [acquire]  id := max_id + 1 ; max_id += 1 ; number := len(trials) ;      *)
(*                            append  [release]                                                        *)
(*   set_trial_state_values : [acquire]  read state ; if RUNNING requested and state # WAITING: False ; *)
(*                            write state  [release]                                                   *)
(* UseLock = FALSE removes acquire/release (the edit "lock replaced by a no-op") and must break the     *)
(* corollaries of linearizability stated in C03: unique gap-free numbers, unique ids, claim once.       *)
EXTENDS Integers, Sequences, FiniteSets, TLC
CONSTANTS Workers, UseLock, NWaiting

VARIABLES lock, maxId, trials, pc, loc, claimed
vars == <<lock, maxId, trials, pc, loc, claimed>>

Init == /\ lock = 0 /\ maxId = NWaiting - 1
        /\ trials = [i \in 1..NWaiting |-> [id |-> i - 1, number |-> i - 1, state |-> "WAITING"]]
        /\ pc = [w \in Workers |-> "idle"] /\ loc = [w \in Workers |-> [id |-> -1, number |-> -1, seen |-> "none", t |-> 0]]
        /\ claimed = [i \in 1..NWaiting |-> {}]

Acquire(w, next) == IF UseLock THEN lock = 0 /\ lock' = w ELSE UNCHANGED lock
Release(w) == IF UseLock THEN lock' = 0 ELSE UNCHANGED lock

CStart(w)  == pc[w] = "idle" /\ Acquire(w, "c1") /\ pc' = [pc EXCEPT ![w] = "c1"] /\ UNCHANGED <<maxId, trials, loc, claimed>>
CReadId(w) == pc[w] = "c1" /\ loc' = [loc EXCEPT ![w].id = maxId + 1] /\ pc' = [pc EXCEPT ![w] = "c2"] /\ UNCHANGED <<lock, maxId, trials, claimed>>
CBumpId(w) == pc[w] = "c2" /\ maxId' = maxId + 1 /\ pc' = [pc EXCEPT ![w] = "c3"] /\ UNCHANGED <<lock, trials, loc, claimed>>
CReadLen(w) == pc[w] = "c3" /\ loc' = [loc EXCEPT ![w].number = Len(trials)] /\ pc' = [pc EXCEPT ![w] = "c4"] /\ UNCHANGED <<lock, maxId, trials, claimed>>
CAppend(w) == /\ pc[w] = "c4" /\ trials' = Append(trials, [id |-> loc[w].id, number |-> loc[w].number, state |-> "RUNNING"])
              /\ Release(w) /\ pc' = [pc EXCEPT ![w] = "done"] /\ UNCHANGED <<maxId, loc, claimed>>

SStart(w, t) == /\ pc[w] = "idle" /\ t \in 1..NWaiting /\ Acquire(w, "s1")
                /\ loc' = [loc EXCEPT ![w].t = t] /\ pc' = [pc EXCEPT ![w] = "s1"] /\ UNCHANGED <<maxId, trials, claimed>>
SRead(w)  == pc[w] = "s1" /\ loc' = [loc EXCEPT ![w].seen = trials[loc[w].t].state] /\ pc' = [pc EXCEPT ![w] = "s2"] /\ UNCHANGED <<lock, maxId, trials, claimed>>
SWrite(w) == /\ pc[w] = "s2"
             /\ IF loc[w].seen = "WAITING"
                  THEN trials' = [trials EXCEPT ![loc[w].t].state = "RUNNING"] /\ claimed' = [claimed EXCEPT ![loc[w].t] = @ \cup {w}]
                  ELSE UNCHANGED <<trials, claimed>>
             /\ Release(w) /\ pc' = [pc EXCEPT ![w] = "done"] /\ UNCHANGED <<maxId, loc>>

Next == \E w \in Workers : CStart(w) \/ CReadId(w) \/ CBumpId(w) \/ CReadLen(w) \/ CAppend(w)
                           \/ (\E t \in 1..NWaiting : SStart(w, t)) \/ SRead(w) \/ SWrite(w)
Spec == Init /\ [][Next]_vars

NumbersOrdinal == \A i \in 1..Len(trials) : trials[i].number = i - 1
IdsUnique      == \A i, j \in 1..Len(trials) : i # j => trials[i].id # trials[j].id
ClaimedOnce    == \A t \in 1..NWaiting : Cardinality(claimed[t]) <= 1
==================================================================================
