--------------------------- MODULE BruteForceTrace ---------------------------
(* Conformance of the real BruteForceSampler + Study.optimize with BruteForce.tla.                  *)
(* One trace = one study: the program tree (Trace.prog, list of leaf paths) and the events the      *)
(* harness observed through the public API while running the real code:                             *)
(*   [op |-> "optimize", cap]      study.optimize(objective, n_trials=cap, catch=...) is called      *)
(*   [op |-> "start"]              the objective was entered (a trial started)                       *)
(*   [op |-> "suggest", n, v]      trial.suggest_*(n, ...) returned candidate number v               *)
(*   [op |-> "finish", st]         the trial was recorded with state st (COMPLETE | FAIL | PRUNED)   *)
(*   [op |-> "return", ran]        optimize returned normally after starting `ran' trials            *)
(*   [op |-> "interrupt", ran]     optimize re-raised the objective's own (uncaught) exception       *)
(*   [op |-> "raise", ...]         optimize raised anything else -- no action of the spec explains it *)
(*   [op |-> "end"]                the harness made its last call: the study must have stopped by    *)
(*                                 itself (the last cap always exceeds the number of leaves left)    *)
(* A "return" with ran < cap while a leaf is unvisited (premature stop), a suggest that leads only   *)
(* to visited leaves (duplicate), a trial after exhaustion, a value outside the candidates: no       *)
(* action is enabled and the trace is rejected.                                                      *)
EXTENDS BruteForce, TraceBase

VARIABLE tran        \* trials started by the active optimize call
tvars == <<vars, tix, l, tran>>

TProg(i) == {Traces[i].prog[k] : k \in 1..Len(Traces[i].prog)}

Init == /\ TraceInitBase
        /\ WellFormed(TProg(tix)) = TRUE      \* (as a value: TLC must not unfold the quantifiers as an initial predicate)
        /\ InitFor(TProg(tix))
        /\ tran = 0

TOptimize  == Consume /\ Ev.op = "optimize" /\ Optimize(Ev.cap) /\ tran' = 0
TStart     == Consume /\ Ev.op = "start" /\ StartTrial /\ tran' = tran + 1
TSuggest   == Consume /\ Ev.op = "suggest" /\ Suggest(Ev.n, Ev.v) /\ UNCHANGED tran
TFinish    == Consume /\ Ev.op = "finish" /\ Finish(Ev.st) /\ UNCHANGED tran
TAbort     == Consume /\ Ev.op = "finish" /\ Abort(Ev.st) /\ UNCHANGED tran
TReturnSelf == Consume /\ Ev.op = "return" /\ Ev.ran = tran /\ ReturnSelf /\ UNCHANGED tran
TReturnCap == Consume /\ Ev.op = "return" /\ Ev.ran = tran /\ ReturnCap /\ UNCHANGED tran
TInterrupt == Consume /\ Ev.op = "interrupt" /\ Ev.ran = tran /\ Interrupt /\ UNCHANGED tran
TEnd       == Consume /\ Ev.op = "end" /\ Stopped /\ UNCHANGED <<vars, tran>>

Next == TOptimize \/ TStart \/ TSuggest \/ TFinish \/ TAbort \/ TReturnSelf \/ TReturnCap \/ TInterrupt \/ TEnd
Spec == Init /\ [][Next]_tvars
==============================================================================
