SPECIFICATION Spec
CONSTANTS MaxAborts = 1000
INVARIANT Report
CHECK_DEADLOCK FALSE
