SPECIFICATION Spec
CONSTANTS Workers = {1, 2} MaxLog = 3 EagerCursor = FALSE SmallPool = FALSE
INVARIANT StateIsFold
INVARIANT Converge
INVARIANT FoldIsSound
PROPERTY IssuerOnlyErrors
PROPERTY CursorMonotone
CHECK_DEADLOCK FALSE
