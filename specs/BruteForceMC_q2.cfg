SPECIFICATION Spec
CONSTANTS MaxD = 2  MaxB = 2  MaxLeaves = 99  Caps = {1, 2, 9}  MaxAborts = 1
INVARIANT TypeOK
INVARIANT NoDuplicateLeaf
INVARIANT AllLeavesVisitedAtStop
INVARIANT NoTrialAfterExhaustion
INVARIANT AlgAgrees
PROPERTY Terminates
CHECK_DEADLOCK TRUE
