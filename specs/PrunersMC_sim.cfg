SPECIFICATION Spec
CONSTANTS Family = "sim"  MaxTrials = 4  MaxStep = 5  MaxVal = 3  MaxReports = 14  WithNaN = TRUE  WithFail = TRUE
INVARIANT AlgoWithinEnvelope
CHECK_DEADLOCK FALSE
