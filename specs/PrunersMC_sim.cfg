SPECIFICATION Spec
CONSTANTS Family = "sim"  MaxTrials = 4  MaxStep = 6  MaxVal = 3  MaxReports = 14  WithNaN = TRUE
          FinishStates = {"COMPLETE", "PRUNED", "FAIL"}
CHECK_DEADLOCK FALSE
