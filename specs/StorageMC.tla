------------------------------- MODULE StorageMC -------------------------------
(* Bounded instance of the Storage contract: every history of at most MaxCalls setter calls over    *)
(* at most MaxS studies and MaxT trials, arguments from small pools (ids include deleted ones and 0 *)
(* = never issued).  TLC checks the contract's invariants and action properties on every reachable  *)
(* state/transition (consistency of the contract as written down) and, with -simulate, produces     *)
(* the call histories that the harness replays on the real backends (variable `last` = the call).   *)
EXTENDS Storage
CONSTANTS MaxS, MaxT, MaxCalls

VARIABLES st, n, last
vars == <<st, n, last>>
View == <<st, n>>                      \* `last` is an observation variable

StudyNames == {"A", "auto"}
DirsPool   == {<<0>>, <<1>>, <<0, 1>>}
SIds       == 0..MaxS
TIds       == 0..MaxT
Keys       == {"k1"}
AttrVals   == {0, 1}
Names      == {"x"}
DF  == [c |-> "float", g |-> 0, k |-> 0]
DFL == [c |-> "float", g |-> 1, k |-> 0]
DC0 == [c |-> "cat", g |-> 0, k |-> 0]
DC1 == [c |-> "cat", g |-> 0, k |-> 1]
DistPool   == {DF, DFL, DC0, DC1}
ParamVals  == {3}
Steps      == {"0", "1"}
IVals      == {0, NaNV}
ValuesPool == {NoneV, <<0>>, <<3>>, <<PosInfV>>}
Templates  ==
  { [has |-> 0],
    [has |-> 1, state |-> "WAITING", values |-> NoneV, params |-> EmptyMap, ua |-> [k1 |-> 1], sa |-> EmptyMap,
     iv |-> EmptyMap, ts |-> 0, tc |-> 0],
    [has |-> 1, state |-> "COMPLETE", values |-> <<0>>, params |-> [x |-> [d |-> DF, v |-> 3]], ua |-> EmptyMap,
     sa |-> [k1 |-> 0], iv |-> ("0" :> NaNV), ts |-> 1, tc |-> 2],
    [has |-> 1, state |-> "FAIL", values |-> NoneV, params |-> [x |-> [d |-> DC1, v |-> 3]], ua |-> EmptyMap,
     sa |-> EmptyMap, iv |-> EmptyMap, ts |-> 1, tc |-> 1] }

Init == st = Empty /\ n = 0 /\ last = [a |-> "init"]

Step(r, call) == st' = r.st /\ n' = n + 1 /\ last' = [call EXCEPT !.ret = r.ret] /\ n < MaxCalls

CreateStudy(name, dirs) ==
  Len(st.studies) < MaxS /\ Step(DoCreateStudy(st, name, dirs), [a |-> "create_study", name |-> name, dirs |-> dirs, ret |-> 0])
DeleteStudy(s) == s \in SIds /\ Step(DoDeleteStudy(st, s), [a |-> "delete_study", s |-> s, ret |-> 0])
SetStudyAttr(which, s, key, v) ==
  s \in SIds /\ Step(DoSetStudyAttr(st, which, s, key, v),
       [a |-> IF which = "ua" THEN "set_study_ua" ELSE "set_study_sa", s |-> s, key |-> key, v |-> v, ret |-> 0])
CreateTrial(s, tm) ==
  Len(st.trials) < MaxT /\ CreateTrialDefined(st, s, tm) /\ Step(DoCreateTrial(st, s, tm), [a |-> "create_trial", s |-> s, tm |-> tm, ret |-> 0])
SetParam(t, name, v, d) ==
  SetParamDefined(st, t, name, d) /\
  Step(DoSetParam(st, t, name, v, d), [a |-> "set_param", t |-> t, name |-> name, v |-> v, d |-> d, ret |-> 0])
SetState(t, state, vals) ==
  SetStateDefined(state, vals) /\
  Step(DoSetStateValues(st, t, state, vals), [a |-> "set_state", t |-> t, state |-> state, values |-> vals, ret |-> 0])
SetIV(t, step, v) == t \in TIds /\ Step(DoSetIV(st, t, step, v), [a |-> "set_iv", t |-> t, step |-> step, v |-> v, ret |-> 0])
SetTrialAttr(which, t, key, v) ==
  t \in TIds /\ Step(DoSetTrialAttr(st, which, t, key, v),
       [a |-> IF which = "ua" THEN "set_trial_ua" ELSE "set_trial_sa", t |-> t, key |-> key, v |-> v, ret |-> 0])

Next ==
  \/ \E name \in StudyNames, dirs \in DirsPool : CreateStudy(name, dirs)
  \/ \E s \in SIds : DeleteStudy(s)
  \/ \E which \in {"ua", "sa"}, s \in SIds, key \in Keys, v \in AttrVals : SetStudyAttr(which, s, key, v)
  \/ \E s \in SIds, tm \in Templates : CreateTrial(s, tm)
  \/ \E t \in TIds, name \in Names, v \in ParamVals, d \in DistPool : SetParam(t, name, v, d)
  \/ \E t \in TIds, state \in States, vals \in ValuesPool : SetState(t, state, vals)
  \/ \E t \in TIds, step \in Steps, v \in IVals : SetIV(t, step, v)
  \/ \E which \in {"ua", "sa"}, t \in TIds, key \in Keys, v \in AttrVals : SetTrialAttr(which, t, key, v)
Spec == Init /\ [][Next]_vars

\* ------------------------------------------------------------------ what TLC checks
Inv == StateInv(st)

Frozen        == [][FinishedIsFrozen(st, st')]_vars
NoReissue     == [][NeverReissued(st, st')]_vars
\* a RUNNING request answers True exactly when this call moves the trial from WAITING to RUNNING
RunningOnce   == [][(last'.a = "set_state" /\ last'.state = "RUNNING") =>
                      IF last'.ret = Ok(TRUE)
                        THEN LiveT(st, last'.t) /\ st.trials[last'.t].state = "WAITING" /\ st'.trials[last'.t].state = "RUNNING"
                        ELSE st' = st]_vars
\* an error reply never changes the state
ErrorsChangeNothing == [][last'.ret.k = "err" => st' = st]_vars
\* a successful keyed write changes exactly that key of that object
OverwriteByKey ==
  [][(last'.a \in {"set_trial_ua", "set_trial_sa", "set_iv"} /\ last'.ret.k = "ok") =>
       LET t == last'.t IN
       /\ \A u \in 1..Len(st.trials) : u # t => st'.trials[u] = st.trials[u]
       /\ st'.studies = st.studies
       /\ LET f == IF last'.a = "set_trial_ua" THEN "ua" ELSE IF last'.a = "set_trial_sa" THEN "sa" ELSE "iv"
              key == IF last'.a = "set_iv" THEN last'.step ELSE last'.key IN
          /\ st'.trials[t][f][key] = last'.v
          /\ \A o \in DOMAIN st.trials[t][f] : o # key => st'.trials[t][f][o] = st.trials[t][f][o]
          /\ \A g \in {"ua", "sa", "iv", "state", "values", "params", "number", "study", "ts", "tc", "live"} :
               g # f => st'.trials[t][g] = st.trials[t][g]]_vars
\* a template is stored field for field; number and id are the storage's
TemplateFieldForField ==
  [][(last'.a = "create_trial" /\ last'.ret.k = "ok" /\ last'.tm.has = 1) =>
       LET t == last'.ret.v  tm == last'.tm IN
       /\ t = Len(st.trials) + 1
       /\ \A f \in {"state", "values", "params", "ua", "sa", "iv", "ts", "tc"} : st'.trials[t][f] = tm[f]
       /\ st'.trials[t].number = Len(st.studies[last'.s].trials)]_vars
\* a deleted study and its trials are gone: every way of addressing them answers KeyError
DeletedIsGone ==
  [][(last'.a = "delete_study" /\ last'.ret.k = "ok") =>
       LET s == last'.s IN
       /\ StudyFieldOK(st', "name", s, Err("KeyError")) /\ AllTrialsOK(st', s, <<"ALL">>, Err("KeyError"))
       /\ st.studies[s].name # "auto" =>
            \/ StudyIdFromNameOK(st', st.studies[s].name, Err("KeyError"))
            \/ \E o \in LiveStudyIds(st') : o # s /\ st'.studies[o].name = st.studies[s].name
       /\ \A i \in 1..Len(st.studies[s].trials) : TrialOK(st', st.studies[s].trials[i], Err("KeyError"))]_vars
================================================================================
