---------------------------- MODULE SuggestTrace ----------------------------
(* Conformance of Trial.suggest_* / the built-in samplers / the storages with Suggest (C10).        *)
(* One trace = one trial of a real study.  Events (harness/c10.py):                                 *)
(*   begin    fixed, sfixed : name -> observed value; rs : name -> distribution token;              *)
(*            rv : name -> observed value  (trial.relative_search_space / the relative sample)      *)
(*   suggest  name, d (token of the distribution the call declared), exc (1: ValueError raised),    *)
(*            o (observed return value), tp (1: trial.params[name] inside the objective is the     *)
(*            returned value), same (1: bit-identical to the value the first call for this name     *)
(*            returned; -1 on a first call), fx / sfx (1: bit-identical to the enqueued /           *)
(*            sampler-fixed value; -1 if the name has none), rx (1: bit-identical to the relative  *)
(*            sample for this name; -1 if there is none)                                            *)
(*   stored   name, o (observation of study.trials[i].params[name] read back from a storage),       *)
(*            eq (1: bit-identical to the value the objective received), st (which storage)         *)
(*   end      names : the parameter names study.trials[i].params holds                              *)
(* The 1/0 facts are observations of equality between two real values; which value a call has to    *)
(* return, and whether it is a member of the domain, is decided here.                               *)
EXTENDS Suggest, TraceBase

VARIABLES phase,     \* "new" -> "run" -> "end"
          brs        \* branches taken (reported for the vacuity guard of the harness)
vars == <<tix, l, phase, brs, fixed, sfixed, relSpace, relVal, params, dists, stored, last>>

Is(a) == Consume /\ Ev.a = a
IsValidNorm(d) == Valid(d) /\ Norm(d) = d

Init == /\ TraceInitBase /\ phase = "new" /\ brs = {}
        /\ SuggestInit(<<>>, <<>>, <<>>, <<>>)

TBegin == /\ Is("begin") /\ phase = "new" /\ phase' = "run" /\ brs' = brs
          /\ DOMAIN Ev.rv \subseteq DOMAIN Ev.rs
          /\ DOMAIN Ev.sfixed \cap DOMAIN Ev.rs = {}
          /\ fixed' = Ev.fixed /\ sfixed' = Ev.sfixed /\ relSpace' = Ev.rs /\ relVal' = Ev.rv
          /\ UNCHANGED <<params, dists, stored, last>>

\* the call is explained by exactly the branch Suggest prescribes, with the logged return value
Call(n, d, v) == \/ Reuse(n, d) \/ Fixed(n, d) \/ SinglePoint(n, d) \/ Relative(n, d) \/ Independent(n, d, v)
Raise(n, d)   == ReuseIncompatible(n, d) \/ RelativeIncompatible(n, d)

TSuggest ==
  /\ Is("suggest") /\ phase = "run" /\ UNCHANGED phase
  /\ IsValidNorm(Ev.d)
  /\ IF Ev.exc = 1
     THEN Raise(Ev.name, Ev.d)
     ELSE /\ Call(Ev.name, Ev.d, Ev.o)
          /\ last'.ret = Ev.o                                 \* returned = what the spec's branch yields
          /\ Ev.tp = 1                                        \* trial.params shows the returned value
          /\ (last'.br = "reuse")  => Ev.same = 1             \* same name, same value (bit-identical)
          /\ (last'.br = "fixed")  => Ev.fx = 1               \* the enqueued value itself
          /\ (last'.br = "sfixed") => Ev.sfx = 1
          /\ (last'.br = "relative") => Ev.rx = 1           \* the relative sample itself
  /\ brs' = brs \cup {last'.br}

TStored == /\ Is("stored") /\ phase = "run"
           /\ Ev.name \in DOMAIN stored
           /\ ObsEq(dists[Ev.name], Ev.o, stored[Ev.name])
           /\ Ev.eq = 1
           /\ UNCHANGED <<phase, brs>> /\ UNCHANGED svars

TEnd == /\ Is("end") /\ phase = "run" /\ phase' = "end"
        /\ {Ev.names[i] : i \in 1..Len(Ev.names)} = DOMAIN stored
        /\ UNCHANGED brs /\ UNCHANGED svars

Next == TBegin \/ TSuggest \/ TStored \/ TEnd
Spec == Init /\ [][Next]_vars

BranchReport == (l = Len(Events) + 1) => PrintT(<<"BR", Trace.tid, brs>>)
==============================================================================
