SPECIFICATION Spec
CONSTANTS MaxEv = 3  FinalStates = {"COMPLETE", "PRUNED"}
INVARIANT RejectFirstAnswerDiff
INVARIANT RejectedRunsDiffer
INVARIANT AcceptEqual
INVARIANT FirstRunAlone
INVARIANT MemoBound
CHECK_DEADLOCK FALSE
