------------------------------- MODULE ParetoMC -------------------------------
(* Exhaustive instance of Pareto: every sequence of at most MaxN points on the lattice              *)
(* {NegInf, 0..MaxC}^Dim and every reference point on {0..MaxC+1, PosInf}^Dim weakly dominated by   *)
(* the set is one reachable `judged' state; the invariants are theorems about the oracle itself (the          *)
(* specification must be consistent before it judges code), and the number of distinct states is   *)
(* Cardinality(Inputs), which the harness compares with the number of cases it enumerated.          *)
EXTENDS Pareto
CONSTANTS Dim, MaxN, MaxC, WithInf

Coord   == (0..MaxC) \cup (IF WithInf THEN {NegInf} ELSE {})
RCoord  == (0..(MaxC + 1)) \cup (IF WithInf THEN {PosInf} ELSE {})
Pts     == [1..Dim -> Coord]
PtSeqs  == UNION {[1..n -> Pts] : n \in 1..MaxN}
Refs    == [1..Dim -> RCoord]

VARIABLES pts, ref, phase
vars == <<pts, ref, phase>>

NoRef == <<>>
Init == pts = <<>> /\ ref = NoRef /\ phase = "build"
AddPoint(p) == phase = "build" /\ Len(pts) < MaxN /\ pts' = Append(pts, p) /\ UNCHANGED <<ref, phase>>
SetRef(r)   == phase = "build" /\ pts # <<>> /\ WeaklyDominatedRef(pts, r) /\ ref' = r /\ phase' = "judged"
               /\ UNCHANGED pts
Next == (\E p \in Pts : AddPoint(p)) \/ (\E r \in Refs : SetRef(r))
Judged == phase = "judged"
Spec == Init /\ [][Next]_vars

I == Idx(pts)
R == PeelRank(pts, I, 0)

RankZeroIsFront   == Judged => \A i \in I : (R[i] = 0) <=> (i \in FrontIdx(pts, I))
RankRespectsDom   == Judged => \A i, j \in I : Dominates(pts[j], pts[i]) => R[j] < R[i]
RankHasWitness    == Judged => \A i \in I : R[i] > 0 => \E j \in I : R[j] = R[i] - 1 /\ Dominates(pts[j], pts[i])
HVOfFront         == Judged => HVAllowed(pts, I, ref) \cap HVAllowed(pts, FrontIdx(pts, I), ref) # {}
HVMonotone        == Judged => \A J \in SUBSET I : (Unambiguous(pts, I, ref) /\ Unambiguous(pts, J, ref))
                                          => Big(HV(pts, J, ref)) <= Big(HV(pts, I, ref))
HVSubmodular      == Judged => \A J \in SUBSET I : \A i \in I \ J :
                        LET K == {k \in I \ J : k # i} IN
                        (\A T \in SUBSET I : Unambiguous(pts, T, ref)) /\ HV(pts, I, ref) # Infinite =>
                          \* gain of i w.r.t. the smaller set J is at least its gain w.r.t. I \ {i}
                          HV(pts, J \cup {i}, ref) - HV(pts, J, ref) >= HV(pts, I, ref) - HV(pts, I \ {i}, ref)
\* the two oracles agree wherever both apply (two objectives, all coordinates finite)
Finite2D          == Dim = 2 /\ (\A i \in I : \A c \in 1..2 : pts[i][c] # NegInf) /\ (\A c \in 1..2 : ref[c] # PosInf)
SweepEqualsCells  == Judged => (Finite2D => \A J \in SUBSET I : J # {} => HVAllowed(pts, J, ref) = {HV2D(pts, J, ref)})
GreedyMeetsBound  == Judged => \A k \in 1..Len(pts) :
                        (\A T \in SUBSET I : Unambiguous(pts, T, ref)) =>
                           ApproxOK(pts, Greedy(pts, {}, k, ref), k, ref)
===============================================================================
