SPECIFICATION Spec
CONSTANTS
  Appenders = {1, 2}
  Readers = {11}
  MaxAppends = 2
  MaxReads = 2
  Cluster = TRUE
  SkipMissing = FALSE
  MayCrash = TRUE
INVARIANT IndicesDense
INVARIANT NoDuplicates
INVARIANT AckedInLog
INVARIANT NoGapUnlessInFlight
INVARIANT ReadsAreContiguous
INVARIANT PerAppenderOrder
PROPERTY SlotsNeverChange
CHECK_DEADLOCK FALSE
