SPECIFICATION Spec
CONSTANTS MaxS = 2  MaxT = 3  MaxCalls = 6
VIEW View
INVARIANT Inv
PROPERTY Frozen
PROPERTY NoReissue
PROPERTY RunningOnce
PROPERTY ErrorsChangeNothing
PROPERTY OverwriteByKey
PROPERTY TemplateFieldForField
PROPERTY DeletedIsGone
CHECK_DEADLOCK FALSE
