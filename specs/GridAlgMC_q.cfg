SPECIFICATION Spec
CONSTANTS MaxN = 4  Caps = {1, 2, 9}  MaxEnq = 0
INVARIANT NoError
INVARIANT NoDuplicateCell
INVARIANT NoPrematureStop
INVARIANT VisitedAtStop
INVARIANT NoTrialAfterExhaustion
PROPERTY Terminates
CHECK_DEADLOCK TRUE
