SPECIFICATION Spec
CONSTANTS MaxD = 2  MaxB = 2  MaxLeaves = 99  Caps = {9}  MaxAborts = 1
INVARIANT AlgAgreesAlways
CHECK_DEADLOCK FALSE
