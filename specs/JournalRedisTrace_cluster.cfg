SPECIFICATION TSpec
CONSTANTS
  Appenders = {1, 2, 3}
  Readers = {11, 12, 13}
  MaxAppends = 99
  MaxReads = 99
  Cluster = TRUE
  SkipMissing = FALSE
  MayCrash = TRUE
INVARIANT Report
CHECK_DEADLOCK FALSE
