SPECIFICATION Spec
CONSTANTS Dim = 1  MaxN = 3  MaxV = 2
INVARIANT MirrorBadPercentile
CHECK_DEADLOCK FALSE
