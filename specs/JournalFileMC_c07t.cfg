SPECIFICATION Spec
CONSTANTS Writers = {1, 2} Readers = {3, 4} NAppends = 2 NChunks = 2 NReads = 1 AllowCrash = FALSE AllowTakeover = FALSE DropTornTail = TRUE
INVARIANT MutualExclusion
INVARIANT LogIntactInv
INVARIANT NoBadObservation
INVARIANT AckedSurvive
INVARIANT AckedInOrder
INVARIANT K4Unreachable
CHECK_DEADLOCK FALSE
