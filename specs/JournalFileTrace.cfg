SPECIFICATION Spec
INVARIANT Report
INVARIANT FlagReport
CHECK_DEADLOCK FALSE
