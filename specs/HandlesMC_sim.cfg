SPECIFICATION Spec
CONSTANTS MaxS = 2  MaxT = 4  MaxCalls = 14  MaxReads = 8  Sim = TRUE  Rich = TRUE
CHECK_DEADLOCK FALSE
