------------------------------ MODULE Functional ------------------------------
(* Property-level specification shared by C09 and C13 (thin on purpose: no sampler mathematics).     *)
(*                                                                                                   *)
(*   What a sampler, a pruner, the study loop and best_trial(s) answer is a FUNCTION of the          *)
(*   storage-independent, direction-normalised history of the run.                                   *)
(*                                                                                                   *)
(* A run is one sequential optimisation of a deterministic define-by-run program.  The abstract      *)
(* history `hist` is the sequence of its trials in the order they were asked for; a trial is         *)
(*   [n  |-> trial NUMBER as answered by ask (never an id),                                          *)
(*    ps |-> <<<<name, value token>>, ...>>   parameters in the order they were suggested,           *)
(*    iv |-> <<<<step, value token>>, ...>>   reported values, each multiplied by the direction sign,*)
(*    st |-> "RUNNING" | final state,                                                                *)
(*    vs |-> <<objective value tokens>>       each multiplied by the direction sign of its objective]*)
(* Value tokens are integers chosen by the harness such that equal tokens <=> bit-equal floats and    *)
(* token(-x) = -token(x); sign[k] is 1 for a minimised objective and -1 for a maximised one, so that *)
(* a maximize run on f and a minimize run on -f have EQUAL histories (C13).  In C09 all signs are 1.  *)
(*                                                                                                   *)
(* Every answer of the real code is observed under a key the SPEC builds from the events it has       *)
(* consumed so far:  <<scenario, request kind, name, step, hist>>.  `memo` remembers the first answer *)
(* seen for a key (and the run that gave it); a later answer for an equal key has to be equal.        *)
(* Trial ids, study ids, timestamps, the storage and the way the run is split into optimize calls    *)
(* are not part of the key - that is the property.                                                   *)
EXTENDS Integers, Sequences, FiniteSets, TLC

VARIABLES memo,    \* [Key -> [res |-> answer, run |-> index of the run that gave it]]
          hist,    \* abstract history of the current run
          run      \* [ix |-> index of the current run, sign |-> <<direction sign per objective>>]

NoRun == [ix |-> 0, sign |-> <<1>>]

\* ------------------------------------------------------------------ direction normalisation
Sgn(k)       == IF k <= Len(run.sign) THEN run.sign[k] ELSE 1
NormVals(vs) == [k \in 1..Len(vs) |-> Sgn(k) * vs[k]]
NormIV(iv)   == [k \in 1..Len(iv) |-> <<iv[k][1], Sgn(1) * iv[k][2]>>]    \* reports exist for one objective only

\* ------------------------------------------------------------------ the abstract history
NewTrial(n)      == [n |-> n, ps |-> <<>>, iv |-> <<>>, st |-> "RUNNING", vs |-> <<>>]
Last             == Len(hist)
HAsk(n)          == Append(hist, NewTrial(n))
HSuggest(nm, v)  == [hist EXCEPT ![Last].ps = Append(@, <<nm, v>>)]
HReport(step, v) == [hist EXCEPT ![Last].iv = Append(@, <<step, Sgn(1) * v>>)]
HFinal(st, vs)   == [hist EXCEPT ![Last].st = st, ![Last].vs = NormVals(vs)]

\* ------------------------------------------------------------------ keys and answers
Key(sc, kind, nm, step) == <<sc, kind, nm, step, hist>>
Res(s, v)               == [s |-> s, v |-> v]        \* s = "ok" | final state | exception class

AskKey(sc)              == Key(sc, "ask", "", 0)
AskRes(s, n)            == Res(s, <<n>>)
SuggestKey(sc, nm)      == Key(sc, "suggest", nm, 0)
SuggestRes(s, v)        == Res(s, <<v>>)
PruneKey(sc, step)      == Key(sc, "should_prune", "", step)
PruneRes(s, d)          == Res(s, <<d>>)
FinalKey(sc)            == Key(sc, "final", "", 0)
\* the finished trial as the study stores it: state, objective values, parameters, intermediate values
FinalRes(st, vs, ps, iv) == Res(st, <<NormVals(vs), ps, NormIV(iv)>>)
BestKey(sc)             == Key(sc, "best", "", 0)
\* best_trial.number / the numbers of best_trials, as a characteristic vector over the history
\* (the ORDER in which best_trials lists them is not part of the property)
BestRes(s, ns)          == Res(s, [i \in 1..Len(hist) |-> IF \E k \in 1..Len(ns) : ns[k] = hist[i].n THEN 1 ELSE 0])

Known(key)         == key \in DOMAIN memo
Conflict(key, res) == Known(key) /\ memo[key].res # res
Observe(key, res)  == /\ ~Conflict(key, res)
                      /\ memo' = IF Known(key) THEN memo ELSE memo @@ (key :> [res |-> res, run |-> run.ix])

\* ------------------------------------------------------------------ actions (arguments = what was logged)
FInit == memo = <<>> /\ hist = <<>> /\ run = NoRun

StartRun(ix, sign) == run' = [ix |-> ix, sign |-> sign] /\ hist' = <<>> /\ UNCHANGED memo

Ask(sc, s, n) ==
  /\ Observe(AskKey(sc), AskRes(s, n))
  /\ hist' = IF s = "ok" THEN HAsk(n) ELSE hist
  /\ UNCHANGED run

Suggest(sc, nm, s, v) ==
  /\ hist # <<>>
  /\ Observe(SuggestKey(sc, nm), SuggestRes(s, v))
  /\ hist' = IF s = "ok" THEN HSuggest(nm, v) ELSE hist
  /\ UNCHANGED run

\* the program's own output (a deterministic function of the parameters): extends the history, is not judged
ReportVal(step, v) == hist # <<>> /\ hist' = HReport(step, v) /\ UNCHANGED <<memo, run>>

ShouldPrune(sc, step, s, d) ==
  /\ hist # <<>>
  /\ Observe(PruneKey(sc, step), PruneRes(s, d))
  /\ UNCHANGED <<hist, run>>

Final(sc, st, vs, ps, iv) ==
  /\ hist # <<>>
  /\ Observe(FinalKey(sc), FinalRes(st, vs, ps, iv))
  /\ hist' = HFinal(st, vs)
  /\ UNCHANGED run

BestQ(sc, s, ns) == Observe(BestKey(sc), BestRes(s, ns)) /\ UNCHANGED <<hist, run>>
===============================================================================
