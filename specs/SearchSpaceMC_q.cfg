SPECIFICATION Spec
CONSTANTS Names = {a, b}  Dists = {d1, d2}  MaxTrials = 3  MaxCalc = 3  IPs = {TRUE, FALSE}  Variant = "ok"
SYMMETRY Sym
VIEW View
INVARIANT TypeOK
INVARIANT CursorInvariant
PROPERTY IncrementalEqualsScratch
PROPERTY NeverGrows
PROPERTY GroupsArePartition
CHECK_DEADLOCK FALSE
