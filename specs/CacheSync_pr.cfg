SPECIFICATION Spec
CONSTANTS Clients = {1, 2} Studies = {1} MaxTrials = 3 FixCreate = TRUE PointReadCaches = TRUE
INVARIANT ViewEqualsBackend
INVARIANT FinishedNeverStale
INVARIANT UnfIsUnfinishedInCache
CHECK_DEADLOCK FALSE
