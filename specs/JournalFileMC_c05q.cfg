SPECIFICATION Spec
CONSTANTS Writers = {1, 2} Readers = {3} NAppends = 1 NChunks = 2 NReads = 2 AllowCrash = TRUE AllowTakeover = TRUE DropTornTail = TRUE
INVARIANT MutualExclusion
INVARIANT LogIntactInv
INVARIANT NoBadObservation
INVARIANT AckedSurvive
INVARIANT AckedInOrder
INVARIANT K4Unreachable
CHECK_DEADLOCK FALSE
