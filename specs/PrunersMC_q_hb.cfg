SPECIFICATION Spec
CONSTANTS Family = "hb"  MaxTrials = 2  MaxStep = 2  MaxVal = 1  MaxReports = 3  WithNaN = FALSE
          FinishStates = {"COMPLETE"}
INVARIANT AlgoWithinEnvelope
INVARIANT EnvelopeSatisfiable
INVARIANT CheckStepIsCode
INVARIANT NopNeverPrunes
CHECK_DEADLOCK FALSE
