SPECIFICATION Spec
CONSTANTS MaxEv = 3  FinalStates = {"COMPLETE"}
INVARIANT RejectFirstAnswerDiff
INVARIANT RejectedRunsDiffer
INVARIANT AcceptEqual
INVARIANT FirstRunAlone
INVARIANT MemoBound
CHECK_DEADLOCK FALSE
