-------------------------------- MODULE Backoff --------------------------------
(* optuna/artifacts/_backoff.py: the retry middleware of artifact stores (NOT one of the listed        *)
(* properties; part of growing the specification over the rest of the system).                        *)
(*                                                                                                  *)
(* One call op \in {"open_reader", "write", "remove"} against a backend whose i-th attempt has the     *)
(* outcome script[i] \in {"ok", "notfound", "error"}.  Intended behaviour (docstring: "middleware for  *)
(* exponential backoff"): attempts are made until one succeeds, ArtifactNotFound is never retried, at  *)
(* most MaxRetries attempts are made, the delay before attempt i+1 is min(MinDelay * Mult^i, MaxDelay), *)
(* the last error is re-raised, and a call whose attempt succeeded RETURNS (result "ok") without        *)
(* touching the backend again.                                                                        *)
(* RemoveLoopsOn = TRUE models what `remove` does today: no break after a successful attempt.          *)
EXTENDS Integers, Sequences, TLC
CONSTANTS MaxRetries, Outcomes, RemoveLoopsOn, Ops

VARIABLES op, script, i, attempts, sleeps, result
vars == <<op, script, i, attempts, sleeps, result>>

RECURSIVE Seqs(_)
Seqs(n) == IF n = 0 THEN {<<>>} ELSE {Append(s, o) : s \in Seqs(n - 1), o \in Outcomes}

Init == /\ op \in Ops /\ script \in Seqs(MaxRetries + 1) /\ i = 0 /\ attempts = 0 /\ sleeps = <<>> /\ result = "running"

Attempt ==
  /\ result = "running" /\ i < MaxRetries
  /\ attempts' = attempts + 1
  /\ LET o == script[attempts + 1] IN
       CASE o = "notfound" -> result' = "notfound" /\ UNCHANGED <<i, sleeps>>
         [] o = "error"    -> IF i = MaxRetries - 1 THEN result' = "error" /\ UNCHANGED <<i, sleeps>>
                              ELSE result' = "running" /\ i' = i + 1 /\ sleeps' = Append(sleeps, i)
         [] o = "ok"       -> IF op = "remove" /\ RemoveLoopsOn
                              THEN IF i = MaxRetries - 1 THEN result' = "ok" /\ i' = i + 1 /\ sleeps' = Append(sleeps, i)
                                   ELSE result' = "running" /\ i' = i + 1 /\ sleeps' = Append(sleeps, i)
                              ELSE result' = "ok" /\ UNCHANGED <<i, sleeps>>
  /\ UNCHANGED <<op, script>>
Next == Attempt
Spec == Init /\ [][Next]_vars

Done == result # "running"
FirstOk == CHOOSE k \in 1..Len(script) : script[k] = "ok" /\ \A j \in 1..(k - 1) : script[j] = "error"
HasOkFirst == \E k \in 1..MaxRetries : script[k] = "ok" /\ \A j \in 1..(k - 1) : script[j] = "error"
\* ---- intended behaviour
AtMostMaxRetries   == attempts <= MaxRetries
SleepsAreSchedule  == \A k \in 1..Len(sleeps) : sleeps[k] = k - 1
StopsAtFirstSuccess == (Done /\ HasOkFirst) => (result = "ok" /\ attempts = FirstOk)
NotFoundNotRetried == (Done /\ result = "notfound") => script[attempts] = "notfound"
ErrorOnlyAfterAll  == (Done /\ result = "error") => attempts = MaxRetries /\ \A k \in 1..MaxRetries : script[k] = "error"
==================================================================================
