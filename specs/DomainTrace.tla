----------------------------- MODULE DomainTrace -----------------------------
(* Conformance of optuna/distributions.py and optuna/_transform.py with Domain (C11).              *)
(* Every event is one call (or one round trip) of the REAL code on a lattice input together with   *)
(* what it returned, projected to exact tokens by harness/c11.py; TLC recomputes the oracle.       *)
(*                                                                                                 *)
(*  rt       d, r1 = json_to_distribution(distribution_to_json(d)), r2 = the second iterate,       *)
(*           eq1 = (r1 == d), eq2 = (r2 == r1) as Python's == answers                              *)
(*  high     raw constructor arguments, d = the constructed object                                 *)
(*  single   d, ret = d.single()                                                                   *)
(*  contains d, o = observed value, ret = d._contains(internal repr), ret2 = the same on r1        *)
(*  repr     d, o, back = d.to_external_repr(d.to_internal_repr(v))                                *)
(*  compat   d1, d2, ret = 1 iff check_distribution_compatibility raises, ret2 = after a round trip*)
(*  trans    flags, items <<[d, o, back, ul, sul]>>: untransform(transform(params)) per parameter;  *)
(*           ul = distance v..back in doubles, sul = in doubles of the magnitude of the range      *)
(*  box      flags, items <<[d, got]>>: untransform(point of .bounds) per parameter                *)
(* A call that raised is logged with cls = "Error" / ret = -1 / ty = "error", which nothing admits.*)
EXTENDS Domain, TraceBase

IsValidNorm(d) == Valid(d) /\ Norm(d) = d

\* Deviation D14 (optuna/_transform.py:278,287): for a non-single continuous float the inverse clamps to
\* the largest double BELOW high, so a configuration holding exactly `high` comes back one double lower.
AtHighOneBelow(d, o, back, ul) == /\ ~Single(d) /\ d.step = 0
                                  /\ o.fl = d.hi /\ o.ce = d.hi
                                  /\ back.ty = "float" /\ back.ce = d.hi /\ back.fl < d.hi /\ ul = 1

\* untransform(transform(v)) = v.  Exact for int, categorical, and continuous floats under the identity
\* embedding; the same grid point (within the tolerance _contains documents) for stepped floats; within
\* UlpSlack doubles for log-scaled floats; deviation D15: with transform_0_1 the affine map to the unit cube
\* and back rounds, so continuous floats come back within UlpSlack doubles of the magnitude of the range.
RoundTripOK(d, o, back, ul, sul, t01) ==
  /\ Admits(d, o)
  /\ Admits(d, back)
  /\ IF Kind(d) # "float" THEN ObsEq(d, o, back)
     ELSE IF d.step > 0 THEN back.near = o.near
     ELSE IF d.log = 1 THEN ul <= UlpSlack
     ELSE IF t01 = 0 THEN back = o \/ AtHighOneBelow(d, o, back, ul)
     ELSE sul <= UlpSlack

CaseOK(e) ==
  CASE e.op = "rt"       -> /\ IsValidNorm(e.d)
                            /\ DistEq(e.d, e.r1) /\ DistEq(e.d, e.r2) /\ e.eq1 = 1 /\ e.eq2 = 1
    [] e.op = "high"     -> Valid(e.raw) /\ e.d = Norm(e.raw)
    [] e.op = "single"   -> IsValidNorm(e.d) /\ (e.ret = 1 <=> Single(e.d)) /\ e.ret \in {0, 1}
    [] e.op = "contains" -> /\ IsValidNorm(e.d) /\ e.ret \in {0, 1}
                            /\ e.ret = 1 <=> ContainsObs(e.d, e.o)
                            /\ e.ret2 = e.ret
    [] e.op = "repr"     -> IsValidNorm(e.d) /\ Admits(e.d, e.o) /\ ObsEq(e.d, e.o, e.back)
    [] e.op = "compat"   -> /\ IsValidNorm(e.d1) /\ IsValidNorm(e.d2)
                            /\ e.ret = (IF Compatible(e.d1, e.d2) THEN 0 ELSE 1)
                            /\ e.ret2 = e.ret
    [] e.op = "trans"    -> /\ Len(e.items) >= 1
                            /\ \A i \in 1..Len(e.items) :
                                 LET it == e.items[i] IN
                                 IsValidNorm(it.d) /\ RoundTripOK(it.d, it.o, it.back, it.ul, it.sul, e.t01)
    [] e.op = "box"      -> /\ Len(e.items) >= 1
                            /\ \A i \in 1..Len(e.items) :
                                 LET it == e.items[i] IN IsValidNorm(it.d) /\ Admits(it.d, it.got)
    [] OTHER -> FALSE

vars == <<tix, l>>
Init == TraceInitBase
Step == Consume /\ CaseOK(Ev)
Next == Step
Spec == Init /\ [][Next]_vars
==============================================================================
