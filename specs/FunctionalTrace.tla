---------------------------- MODULE FunctionalTrace ----------------------------
(* Trace validation for C09 / C13.  One trace = all runs of ONE scenario (a seeded define-by-run       *)
(* program, a sampler configuration with a seed, a pruner configuration), run after run:               *)
(*   run     [ix, sign]                      a new run starts (another storage / id offset / split /   *)
(*                                           direction assignment); the abstract history is reset      *)
(*   ask     [s, n, id]                      a trial was created: s = "ok", n = trial.number           *)
(*                                           (id = the raw trial id: logged, NOT used), or s = the     *)
(*                                           exception class the study loop died with while asking     *)
(*   suggest [name, s, tok]                  trial.suggest_*(name) answered the value with token tok   *)
(*   report  [step, tok]                     the program reported a value (its own output)             *)
(*   prune   [step, s, ans]                  trial.should_prune() answered ans (0/1)                   *)
(*   final   [s, vals, ps, iv]               the finished trial as read back from the study            *)
(*   best    [s, ns]                         numbers of best_trial / best_trials (s = exception class   *)
(*                                           when there is none)                                       *)
(*   copy    [src, dst]                      optuna.copy_study: the projected trials of the source and *)
(*                                           of the copy (no ids), field for field                     *)
(*   end     []                              last event; only consumable if no run diverged            *)
(* An answer that contradicts the answer an earlier run gave for an equal key is a divergence: it is    *)
(* printed as <<"DIV", tid, l, run, earlier run>>, the rest of that run is skipped and the trace is      *)
(* not accepted.                                                                                       *)
EXTENDS Functional, TraceBase

VARIABLES skip,    \* TRUE while the rest of a diverged run is skipped
          ndiv     \* number of divergences so far
vars == <<tix, l, memo, hist, run, skip, ndiv>>

SC     == Trace.sc
Is(op) == Consume /\ Ev.op = op
Live   == ~skip /\ UNCHANGED <<skip, ndiv>>

TRun     == Is("run")     /\ StartRun(Ev.ix, Ev.sign) /\ skip' = FALSE /\ UNCHANGED ndiv
TAsk     == Is("ask")     /\ Live /\ Ask(SC, Ev.s, Ev.n)
TSuggest == Is("suggest") /\ Live /\ Suggest(SC, Ev.name, Ev.s, Ev.tok)
TReport  == Is("report")  /\ Live /\ ReportVal(Ev.step, Ev.tok)
TPrune   == Is("prune")   /\ Live /\ ShouldPrune(SC, Ev.step, Ev.s, Ev.ans)
TFinal   == Is("final")   /\ Live /\ Final(SC, Ev.s, Ev.vals, Ev.ps, Ev.iv)
TBest    == Is("best")    /\ Live /\ BestQ(SC, Ev.s, Ev.ns)
\* "copying a finished study to any other backend reproduces every trial field"
TCopy    == Is("copy")    /\ Ev.src = Ev.dst /\ UNCHANGED <<memo, hist, run, skip, ndiv>>
TEnd     == Is("end")     /\ ndiv = 0 /\ UNCHANGED <<memo, hist, run, skip, ndiv>>

EvKey == CASE Ev.op = "ask"     -> AskKey(SC)
           [] Ev.op = "suggest" -> SuggestKey(SC, Ev.name)
           [] Ev.op = "prune"   -> PruneKey(SC, Ev.step)
           [] Ev.op = "final"   -> FinalKey(SC)
           [] Ev.op = "best"    -> BestKey(SC)
EvRes == CASE Ev.op = "ask"     -> AskRes(Ev.s, Ev.n)
           [] Ev.op = "suggest" -> SuggestRes(Ev.s, Ev.tok)
           [] Ev.op = "prune"   -> PruneRes(Ev.s, Ev.ans)
           [] Ev.op = "final"   -> FinalRes(Ev.s, Ev.vals, Ev.ps, Ev.iv)
           [] Ev.op = "best"    -> BestRes(Ev.s, Ev.ns)

TDiverge ==
  /\ Consume /\ ~skip
  /\ Ev.op \in {"ask", "suggest", "prune", "final", "best"}
  /\ Conflict(EvKey, EvRes)
  /\ PrintT(<<"DIV", Trace.tid, l, run.ix, memo[EvKey].run>>)
  /\ skip' = TRUE /\ ndiv' = ndiv + 1
  /\ UNCHANGED <<memo, hist, run>>

TSkip == Consume /\ skip /\ Ev.op \notin {"run", "end", "copy"} /\ UNCHANGED <<memo, hist, run, skip, ndiv>>

Init == TraceInitBase /\ FInit /\ skip = FALSE /\ ndiv = 0
Next == TRun \/ TAsk \/ TSuggest \/ TReport \/ TPrune \/ TFinal \/ TBest \/ TCopy \/ TEnd \/ TDiverge \/ TSkip
Spec == Init /\ [][Next]_vars
==============================================================================
