SPECIFICATION Spec
CONSTANTS Dim = 2  MaxN = 3  MaxV = 2
INVARIANT WilcoxonNeverPrunes
CHECK_DEADLOCK FALSE
