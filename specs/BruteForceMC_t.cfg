SPECIFICATION Spec
CONSTANTS MaxD = 3  MaxB = 2  MaxLeaves = 99  Caps = {9}  MaxAborts = 0
INVARIANT TypeOK
INVARIANT NoDuplicateLeaf
INVARIANT AllLeavesVisitedAtStop
INVARIANT NoTrialAfterExhaustion
INVARIANT AlgAgrees
CHECK_DEADLOCK TRUE
