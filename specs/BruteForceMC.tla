----------------------------- MODULE BruteForceMC -----------------------------
(* Exhaustive instance of BruteForce: EVERY program tree of depth <= MaxD and branching <= MaxB      *)
(* (branches of different depth, single-value domains and the parameterless program included), every *)
(* outcome pattern at the leaves (Finish(out) is free), every split of the run into optimize calls  *)
(* with caps from Caps, at most MaxAborts transient mid-trial failures.                              *)
(* Checked: the property-level machine is consistent (the invariants of the property, no deadlock,  *)
(* termination) and -- AlgAgrees -- the tree bookkeeping of the code, as modelled by AlgChoices /    *)
(* AlgStops over the set `hist' of recorded parameter paths, picks exactly the admissible candidates *)
(* and stops exactly when everything is visited, as long as no trial ended between two suggests.     *)
(* AlgAgreesAlways (the same without that proviso) is EXPECTED to fail: that is finding K3.          *)
EXTENDS BruteForce
CONSTANTS MaxD, MaxB, MaxLeaves, Caps

VARIABLE hist            \* parameter paths of the finished trials, as the storage hands them to the sampler
mcvars == <<vars, hist>>

Names == <<"a", "b", "c", "d">>

RECURSIVE Shapes(_)
Shapes(d) ==
  {{<<>>}} \cup
  (IF d = 0 THEN {}
   ELSE UNION {{UNION {{<<v>> \o p : p \in f[v]} : v \in 1..k} : f \in [1..k -> Shapes(d - 1)]} : k \in 1..MaxB})
Named(S)  == {[i \in 1..Len(p) |-> Step(Names[i], p[i])] : p \in S}
Programs  == {Named(S) : S \in {X \in Shapes(MaxD) : Cardinality(X) <= MaxLeaves}}

ASSUME \A P \in Programs : WellFormed(P)

Init == (\E P \in Programs : InitFor(P)) /\ hist = {}

MCOptimize(cap) == Optimize(cap) /\ UNCHANGED hist
MCStartTrial    == StartTrial /\ UNCHANGED hist
MCSuggest(v)    == running /\ Inner(cur) /\ Suggest(NextName(cur), v) /\ UNCHANGED hist
MCFinish(out)   == Finish(out) /\ hist' = hist \cup {cur}
MCAbort(out)    == Abort(out) /\ hist' = hist \cup {cur}
MCReturnSelf    == ReturnSelf /\ UNCHANGED hist
MCReturnCap     == ReturnCap /\ UNCHANGED hist
MCInterrupt     == Interrupt /\ UNCHANGED hist
MCDone          == Done /\ UNCHANGED hist

Next ==
  \/ \E cap \in Caps : MCOptimize(cap)
  \/ MCStartTrial
  \/ \E v \in 1..MaxB : MCSuggest(v)
  \/ \E out \in Outcomes : MCFinish(out)
  \/ \E out \in {"FAIL", "PRUNED"} : MCAbort(out)
  \/ MCReturnSelf
  \/ MCReturnCap
  \/ MCInterrupt
  \/ MCDone

Spec == Init /\ [][Next]_mcvars /\ WF_mcvars(Next)

TypeOK ==
  /\ running \in BOOLEAN /\ mode \in {"idle", "run", "stopped"}
  /\ left \in 0..100 /\ failed \in BOOLEAN /\ aborts \in 0..MaxAborts
  /\ running => (IsLeaf(cur) \/ Inner(cur))

AgreeHere ==
  /\ ~AlgBroken(hist)
  /\ (running /\ Inner(cur)) => AlgChoices(hist, cur) = Admissible(cur)
  /\ (~running /\ hist # {}) => (AlgStops(hist) <=> AllVisited)
AlgAgrees       == (aborts = 0) => AgreeHere
AlgAgreesAlways == AgreeHere

Terminates == <>Stopped
===============================================================================
