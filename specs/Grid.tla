--------------------------------- MODULE Grid ---------------------------------
(* C14, grid part: with GridSampler a sequential optimize() evaluates every cell of the grid exactly *)
(* once and then stops by itself -- also when trials fail / are pruned and when the run is cut into  *)
(* several optimize() calls.  Property-level machine; a cell is a tuple of candidate indices.         *)
(*                                                                                                   *)
(* Trials the USER forces with enqueue_trial are not chosen by the sampler.  The property text says   *)
(* nothing about them, so the spec is as loose as it can be: they never count as duplicates, the      *)
(* sampler may or may not treat their cell as visited, but it must still reach full coverage and stop *)
(* without an error:                                                                                 *)
(*   - a sampler-assigned trial never gets a cell a sampler-assigned trial already evaluated,        *)
(*   - a trial starts only while some cell has no sampler-assigned evaluation,                       *)
(*   - optimize may stop by itself only when every cell has been evaluated (by either kind).         *)
EXTENDS Integers, Sequences, FiniteSets, TLC

VARIABLES cells,     \* the grid (never changes)
          gev,       \* cell -> evaluations by sampler-assigned trials
          eev,       \* cell -> evaluations by enqueued trials
          pend,      \* enqueued trials still waiting
          running,   \* a trial is in flight
          kind,      \* "grid" | "enq": who chose the parameters of the trial in flight
          assigned,  \* the trial in flight has shown its cell
          cell,      \* that cell (meaningful while assigned)
          mode,      \* "idle" | "run" | "stopped"
          left,      \* trials the active optimize call may still start
          failed     \* no trial in flight and the most recent trial of the active call ended FAIL
vars == <<cells, gev, eev, pend, running, kind, assigned, cell, mode, left, failed>>

Outcomes == {"COMPLETE", "FAIL", "PRUNED"}

RECURSIVE Product(_)
Product(dims) ==      \* dims = <<n1, ..., nd>>: all <<i1, ..., id>> with 0 <= ik < nk
  IF dims = <<>> THEN {<<>>}
  ELSE {<<i>> \o c : i \in 0..(Head(dims) - 1), c \in Product(Tail(dims))}

Fresh    == {c \in cells : gev[c] = 0}                 \* no sampler-assigned evaluation yet
Covered  == \A c \in cells : gev[c] + eev[c] >= 1
AllByGrid == Fresh = {}

InitFor(C) ==
  /\ cells = C /\ gev = [c \in C |-> 0] /\ eev = [c \in C |-> 0] /\ pend = 0
  /\ running = FALSE /\ kind = "grid" /\ assigned = FALSE /\ cell = <<>>
  /\ mode = "idle" /\ left = 0 /\ failed = FALSE

Enqueue ==
  /\ ~running /\ mode # "stopped"
  /\ pend' = pend + 1
  /\ UNCHANGED <<cells, gev, eev, running, kind, assigned, cell, mode, left, failed>>

Optimize(cap) ==
  /\ mode = "idle" /\ ~AllByGrid /\ cap >= 1
  /\ mode' = "run" /\ left' = cap /\ failed' = FALSE
  /\ UNCHANGED <<cells, gev, eev, pend, running, kind, assigned, cell>>

StartTrial(enq) ==
  /\ mode = "run" /\ ~running /\ left > 0
  /\ ~AllByGrid                                    \* "... and then stops"
  /\ enq => pend > 0
  /\ running' = TRUE /\ assigned' = FALSE
  /\ kind' = IF enq THEN "enq" ELSE "grid"
  /\ pend' = IF enq THEN pend - 1 ELSE pend
  /\ left' = left - 1 /\ failed' = FALSE
  /\ UNCHANGED <<cells, gev, eev, cell, mode>>

Assign(c) ==
  /\ running /\ ~assigned /\ c \in cells
  /\ kind = "grid" => c \in Fresh
  /\ assigned' = TRUE /\ cell' = c
  /\ UNCHANGED <<cells, gev, eev, pend, running, kind, mode, left, failed>>

Finish(out) ==
  /\ running /\ assigned /\ out \in Outcomes
  /\ gev' = IF kind = "grid" THEN [gev EXCEPT ![cell] = @ + 1] ELSE gev
  /\ eev' = IF kind = "enq" THEN [eev EXCEPT ![cell] = @ + 1] ELSE eev
  /\ running' = FALSE /\ failed' = (out = "FAIL")
  /\ kind' = "grid" /\ assigned' = FALSE /\ cell' = <<>>
  /\ UNCHANGED <<cells, pend, mode, left>>

ReturnSelf ==
  /\ mode = "run" /\ ~running /\ Covered
  /\ mode' = "stopped" /\ left' = 0 /\ failed' = FALSE
  /\ UNCHANGED <<cells, gev, eev, pend, running, kind, assigned, cell>>

ReturnCap ==
  /\ mode = "run" /\ ~running /\ left = 0 /\ ~Covered
  /\ mode' = "idle" /\ left' = 0 /\ failed' = FALSE
  /\ UNCHANGED <<cells, gev, eev, pend, running, kind, assigned, cell>>

Interrupt ==
  /\ mode = "run" /\ ~running /\ failed
  /\ mode' = IF AllByGrid THEN "stopped" ELSE "idle"
  /\ left' = 0 /\ failed' = FALSE
  /\ UNCHANGED <<cells, gev, eev, pend, running, kind, assigned, cell>>

Done == mode = "stopped" /\ UNCHANGED vars

NoDuplicateCell        == \A c \in cells : gev[c] <= 1
AllCellsVisitedAtStop  == mode = "stopped" => Covered
NoTrialAfterExhaustion == running => ~AllByGrid
Stopped                == mode = "stopped"
===============================================================================
