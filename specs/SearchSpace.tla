------------------------------ MODULE SearchSpace ------------------------------
(* C17 -- incrementally inferred search spaces equal a from-scratch computation.                   *)
(*                                                                                                 *)
(* A study is a sequence of trials (trial number n is trials[n+1]); a trial has a state and the    *)
(* distributions of the parameters suggested in it so far, written as a set of <<name, dist>>      *)
(* pairs (functional: at most one pair per name; another trial may use another dist for the same   *)
(* name).  Histories: Create (ask -> RUNNING, enqueue_trial -> WAITING), Claim (ask pops the lowest *)
(* WAITING trial), Suggest, Finish (tell COMPLETE / PRUNED / FAIL, in any order), AddTrial          *)
(* (study.add_trial of an already finished trial) and Calculate, the observation point, at which   *)
(* one long-lived calculator object is asked for the search space.                                 *)
(*                                                                                                 *)
(* PROPERTY LEVEL (judges the model of the algorithm below and, through SearchSpaceTrace, the real *)
(* code):  Scratch, EligibleStates, GroupsOK, and the properties IncrementalEqualsScratch,         *)
(* NeverGrows, GroupsArePartition.                                                                 *)
(* ALGORITHM LEVEL: Scan is optuna/search_space/intersection.py:_calculate with its cursor          *)
(* `_cached_trial_number`; AddDist/FoldGroups is group_decomposed.py.  SearchSpaceMC checks that    *)
(* the algorithm refines the property level at every Calculate of every bounded history.           *)
EXTENDS Integers, Sequences, FiniteSets, TLC

CONSTANTS Names,      \* parameter names
          Dists,      \* distribution tokens
          MaxTrials,  \* bound on the number of trials of a history
          MaxCalc,    \* bound on the number of Calculate steps of a history
          IPs,        \* values of include_pruned explored (subset of BOOLEAN)
          Variant     \* "ok" = the algorithm as written in optuna; other values: deliberately wrong variants

VARIABLES trials,     \* Seq of [state, params]
          ip,         \* include_pruned of the calculator objects (fixed per behaviour)
          algSome,    \* IntersectionSearchSpace._search_space is not None
          algSpace,   \* IntersectionSearchSpace._search_space (as a set of pairs; {} while None)
          cursor,     \* IntersectionSearchSpace._cached_trial_number
          groups,     \* _GroupDecomposedSearchSpace._search_space.search_spaces, as a Seq of name sets
          result,     \* what the last Calculate returned
          est,        \* property level: the last Calculate saw at least one eligible trial ("established")
          ncalc       \* number of Calculate steps so far
vars == <<trials, ip, algSome, algSpace, cursor, groups, result, est, ncalc>>

Unfinished == {"RUNNING", "WAITING"}
Finished   == {"COMPLETE", "PRUNED", "FAIL"}

Pairs     == Names \X Dists
NamesOf(ps) == {q[1] : q \in ps}
Functional(ps) == \A q, r \in ps : q[1] = r[1] => q = r
ParamSets == {ps \in SUBSET Pairs : Functional(ps)}

Num(ts)   == 0..(Len(ts) - 1)
T(ts, n)  == ts[n + 1]

--------------------------------------------------------------------------------
(* Property level                                                                                  *)

\* "the completed trials of the study" and, iff include_pruned, the pruned ones
EligibleStates(p) == IF p THEN {"COMPLETE", "PRUNED"} ELSE {"COMPLETE"}
Eligible(ts, p)   == {n \in Num(ts) : T(ts, n).state \in EligibleStates(p)}

\* intersection_search_space from scratch: the <<name, dist>> pairs common to every eligible trial;
\* the empty search space when no trial is eligible (the functions return {} then).
Scratch(ts, p) ==
  LET E == Eligible(ts, p) IN
  IF E = {} THEN {}
  ELSE {q \in UNION {T(ts, n).params : n \in E} : \A n \in E : q \in T(ts, n).params}

SeenNames(ts, p) == UNION {NamesOf(T(ts, n).params) : n \in Eligible(ts, p)}

\* GS (a set of name sets) is a partition of all seen parameters and every eligible finished trial's
\* parameter set is a union of groups.
GroupsOK(GS, ts, p) ==
  /\ {} \notin GS
  /\ \A g, h \in GS : g # h => g \cap h = {}
  /\ UNION GS = SeenNames(ts, p)
  /\ \A n \in Eligible(ts, p) : \E S \in SUBSET GS : UNION S = NamesOf(T(ts, n).params)

SeqToSet(s) == {s[i] : i \in 1..Len(s)}
\* a list of groups in which no name occurs twice (also rejects a repeated group, which a set would hide)
DisjointSeq(gs) == \A i, j \in 1..Len(gs) : i # j => gs[i] \cap gs[j] = {}

--------------------------------------------------------------------------------
(* Algorithm level                                                                                 *)

Interesting == (IF Variant = "waiting" THEN {"COMPLETE", "RUNNING"} ELSE {"COMPLETE", "WAITING", "RUNNING"})
               \cup (IF ip THEN {"PRUNED"} ELSE {})

\* one call of _calculate: `for trial in reversed(trials)`; n = number examined, -1 when the loop ends;
\* (some, space) = search_space (None iff ~some), next = next_cached_trial_number, cached = cached_trial_number
RECURSIVE Scan(_, _, _, _, _)
Scan(n, some, space, next, cached) ==
  IF n < 0 THEN [some |-> some, space |-> space, next |-> next]
  ELSE LET t == T(trials, n) IN
    IF t.state \notin Interesting THEN Scan(n - 1, some, space, next, cached)
    ELSE LET nx == IF next = -1 THEN n + 1 ELSE next IN
      IF (IF Variant = "ge" THEN cached >= n ELSE cached > n) THEN [some |-> some, space |-> space, next |-> nx]
      ELSE IF t.state \in Unfinished THEN Scan(n - 1, some, space, n, cached)
      ELSE IF ~some THEN Scan(n - 1, TRUE, t.params, nx, cached)
      ELSE Scan(n - 1, TRUE, space \cap t.params, nx, cached)

\* _SearchSpaceGroup.add_distributions: gs = self._search_spaces, dk = dist_keys
RECURSIVE Split(_, _, _, _)
Split(gs, i, dk, acc) ==
  IF i > Len(gs) THEN acc \o <<dk>>
  ELSE IF Variant = "nosplit" THEN Split(gs, i + 1, dk \ gs[i], acc \o <<gs[i]>>)
  ELSE Split(gs, i + 1, dk \ gs[i], acc \o <<gs[i] \cap dk, gs[i] \ dk>>)
AddDist(gs, K) == SelectSeq(Split(gs, 1, K, <<>>), LAMBDA g : g # {})

\* _GroupDecomposedSearchSpace.calculate: add_distributions for every eligible trial, in number order
RECURSIVE FoldGroups(_, _)
FoldGroups(n, gs) ==
  IF n >= Len(trials) THEN gs
  ELSE FoldGroups(n + 1, IF n \in Eligible(trials, ip) THEN AddDist(gs, NamesOf(T(trials, n).params)) ELSE gs)

--------------------------------------------------------------------------------
(* Histories                                                                                       *)

Init == /\ trials = <<>> /\ ip \in IPs
        /\ algSome = FALSE /\ algSpace = {} /\ cursor = -1 /\ groups = <<>>
        /\ result = {} /\ est = FALSE /\ ncalc = 0

calcVars == <<ip, algSome, algSpace, cursor, groups, result, est, ncalc>>

Waiting == {n \in Num(trials) : T(trials, n).state = "WAITING"}

\* study.ask() with an empty queue (or losing the race against a concurrent enqueue_trial) creates a RUNNING
\* trial; study.enqueue_trial creates a WAITING one.
Create(st) == /\ st \in Unfinished /\ Len(trials) < MaxTrials
              /\ trials' = Append(trials, [state |-> st, params |-> {}])
              /\ UNCHANGED calcVars

\* study.ask() pops the lowest-numbered WAITING trial
Claim(t) == /\ t \in Waiting /\ \A u \in Waiting : t <= u
            /\ trials' = [trials EXCEPT ![t + 1].state = "RUNNING"]
            /\ UNCHANGED calcVars

Suggest(t, name, dist) ==
            /\ t \in Num(trials) /\ T(trials, t).state = "RUNNING"
            /\ name \notin NamesOf(T(trials, t).params)
            /\ trials' = [trials EXCEPT ![t + 1].params = @ \cup {<<name, dist>>}]
            /\ UNCHANGED calcVars

Finish(t, st) == /\ t \in Num(trials) /\ T(trials, t).state = "RUNNING" /\ st \in Finished
                 /\ trials' = [trials EXCEPT ![t + 1].state = st]
                 /\ UNCHANGED calcVars

\* study.add_trial(create_trial(state=st, params, distributions))
AddTrial(st, ps) == /\ st \in Finished /\ Functional(ps) /\ Len(trials) < MaxTrials
                    /\ trials' = Append(trials, [state |-> st, params |-> ps])
                    /\ UNCHANGED calcVars

Calculate == /\ ncalc < MaxCalc
             /\ LET r == Scan(Len(trials) - 1, algSome, algSpace, -1, cursor) IN
                  /\ algSome' = r.some /\ algSpace' = r.space /\ cursor' = r.next
                  /\ result' = r.space          \* `self._search_space or {}`
             /\ groups' = FoldGroups(0, groups)
             /\ est' = (Eligible(trials, ip) # {})
             /\ ncalc' = ncalc + 1
             /\ UNCHANGED <<trials, ip>>

\* (quantified over the constant set TrialNums so that TLC reports every action by name)
TrialNums == 0..(MaxTrials - 1)
Next == \/ \E st \in Unfinished : Create(st)
        \/ \E t \in TrialNums : Claim(t)
        \/ \E t \in TrialNums, name \in Names, dist \in Dists : Suggest(t, name, dist)
        \/ \E t \in TrialNums, st \in Finished : Finish(t, st)
        \/ \E st \in Finished, ps \in ParamSets : AddTrial(st, ps)
        \/ Calculate
Spec == Init /\ [][Next]_vars

--------------------------------------------------------------------------------
(* Properties                                                                                      *)

CalcStep == ncalc' # ncalc

\* the incrementally maintained intersection equals the from-scratch one at every Calculate
IncrementalEqualsScratch == [][CalcStep => result' = Scratch(trials', ip')]_vars
\* once established (a Calculate saw an eligible trial) the result of the same object never grows
NeverGrows               == [][est => result' \subseteq result]_vars
\* the group decomposition is a partition with every eligible trial a union of groups
GroupsArePartition       == [][CalcStep => DisjointSeq(groups') /\ GroupsOK(SeqToSet(groups'), trials', ip')]_vars

\* every trial below the cursor is finished for good and, when eligible, already intersected
CursorInvariant ==
  /\ cursor <= Len(trials)
  /\ \A n \in Num(trials) : n < cursor =>
        /\ T(trials, n).state \in Finished
        /\ n \in Eligible(trials, ip) => algSome /\ algSpace \subseteq T(trials, n).params
TypeOK == /\ \A n \in Num(trials) : T(trials, n).state \in Unfinished \cup Finished /\ Functional(T(trials, n).params)
          /\ algSome \in BOOLEAN /\ (~algSome => algSpace = {}) /\ cursor \in -1..MaxTrials
===============================================================================
