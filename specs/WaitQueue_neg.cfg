SPECIFICATION FairSpec
CONSTANTS Workers = {1, 2} MaxTrials = 4 MaxAsks = 2 AtomicCAS = TRUE CursorPlusOne = TRUE
INVARIANT ClaimedAtMostOnce
INVARIANT OnlyQueuedOrNew
INVARIANT CursorOK
PROPERTY NoSkipAtList
PROPERTY CreateOnlyIfNoneLeft
PROPERTY AskTerminates
CHECK_DEADLOCK FALSE
