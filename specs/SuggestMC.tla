------------------------------ MODULE SuggestMC ------------------------------
(* Exhaustive small instance of Suggest: two names, six distributions (two compatible integer      *)
(* ranges one of which has a step that does not divide the range, a single-point domain, a         *)
(* log-scaled and a categorical one that are incompatible with the others, a continuous float),    *)
(* every combination of fixed / sampler-fixed / relative values in and out of range, and every     *)
(* sequence of suggest calls (the state space is finite: a trial records each name once).          *)
EXTENDS Suggest

A == D("Int", 0, 2, 1, 0, <<>>)
B == Norm(D("Int", 1, 4, 2, 0, <<>>))                 \* {1, 3}: the step does not divide the range
S == D("Int", 1, 1, 1, 0, <<>>)                       \* single point
L == D("Int", 1, 2, 1, 1, <<>>)                       \* log-scaled: incompatible with A, B, S
C == D("Cat", 0, 0, 0, 0, <<[t |-> "str", v |-> 1], [t |-> "none", v |-> 0]>>)
F == D("Float", 0, 2, 0, 0, <<>>)
Dists == {A, B, S, L, C, F}
Names == {"x", "y"}

IntVals == {Lat("int", n) : n \in 0..3}
Vals == IntVals \cup {Choice(1), Choice(2)} \cup {Lat("float", 1), Lat("float", 3)}

\* fixed parameters: none / x in range of A and B / x out of range of A / both names
FixedMaps  == { <<>>, [x |-> Lat("int", 1)], [x |-> Lat("int", 3)], [x |-> Lat("int", 1), y |-> Choice(2)] }
SFixedMaps == { <<>>, [y |-> Lat("int", 2)] }
\* relative search space and sample: none / x over A / x over B (value outside A) / x and y
RelMaps == { [s |-> <<>>, v |-> <<>>],
             [s |-> [x |-> A], v |-> [x |-> Lat("int", 2)]],
             [s |-> [x |-> B], v |-> [x |-> Lat("int", 3)]],
             [s |-> [x |-> A, y |-> F], v |-> [x |-> Lat("int", 0), y |-> Lat("float", 1)]] }

Init == \E fx \in FixedMaps, sfx \in SFixedMaps, r \in RelMaps :
          /\ DOMAIN sfx \cap DOMAIN r.s = {}          \* PartialFixedSampler removes its names from the relative space
          /\ SuggestInit(fx, sfx, r.s, r.v)

Next == \/ \E n \in Names, d \in Dists : Reuse(n, d)
        \/ \E n \in Names, d \in Dists : ReuseIncompatible(n, d)
        \/ \E n \in Names, d \in Dists : Fixed(n, d)
        \/ \E n \in Names, d \in Dists : SinglePoint(n, d)
        \/ \E n \in Names, d \in Dists : Relative(n, d)
        \/ \E n \in Names, d \in Dists : RelativeIncompatible(n, d)
        \/ \E n \in Names, d \in Dists, v \in Vals : Independent(n, d, v)
Spec == Init /\ [][Next]_svars

\* vacuity guards: the deviation and the fall-back are really reachable
D7Reachable == ~(\E n \in DOMAIN params : ~Admits(dists[n], params[n]))           \* expected to be VIOLATED
==============================================================================
