SPECIFICATION Spec
CONSTANTS
  MaxN = 2
  Jobs = {2}
  Kinds = {"float"}
  WithPre = FALSE
  RepKinds = {"pruned"}
  Misbehave = FALSE
  AskMisbehave = FALSE
  Swallow = TRUE
INVARIANT Inv
CHECK_DEADLOCK FALSE
