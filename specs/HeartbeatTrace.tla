----------------------------- MODULE HeartbeatTrace -----------------------------
(* Property-level monitor for C19 over executions of the real stale-trial sweep                        *)
(* (optuna.storages.fail_stale_trials / Study.optimize on RDBStorage with heartbeats, SQLite).          *)
(* Events, in scheduler order:                                                                        *)
(*   trial    : a trial exists: n, state, beat ("none" | "fresh" | "stale"), hist (retry history), pk    *)
(*              (or beat = "aged" with age and grace in seconds: family "clock", see BeatOf)             *)
(*              (token of its params / user attrs / intermediate values)                                *)
(*   beat     : the harness changes the heartbeat of trial n (a worker dies / lives)                     *)
(*   fail     : a FAIL request of worker w on trial n answered True (inside the sweep)                   *)
(*   callback : the failed-trial callback of worker w was invoked for trial n; callback_done: it returned *)
(*   final    : all trials as read back: n, state, hist, failed (failed_trial attr or -1), pk            *)
(* cfg.max_retry (-1 = unlimited), cfg.inherit (0/1) travel with the trace.                             *)
(*                                                                                                  *)
(* Family "zombie" (the worker of a stale trial is slow, not dead, and keeps writing to its trial while *)
(* a sweeper fails it).  Additional events:                                                            *)
(*   content     : the content of trial n when the execution starts: c = sequence of entries            *)
(*                 [k |-> "p" | "a" | "i", key |-> name, v |-> value token]  (parameter with its         *)
(*                 distribution / user attribute / intermediate value)                                  *)
(*   write_start : the worker of trial n calls suggest_* / set_user_attr / report (entry k, key)         *)
(*   write_end   : that call returned: ok = 1 accepted (v = token of the value written), ok = 0 refused   *)
(*                 (UpdateFinishedTrialError, or `database is locked`: no effect)                        *)
(*   fail_start  : worker w calls set_trial_state_values(n, FAIL); the matching `fail` is its True reply  *)
(*   final       : every trial additionally carries c (its entries as read back)                        *)
(* The writes of one trial are sequential, so the content of the trial at the moment it became FAIL is   *)
(* its initial content plus a prefix of its accepted writes: at least those that had returned before the *)
(* FAIL call started, at most those that had started before the FAIL call returned (calls that overlap  *)
(* the FAIL call may take effect on either side of it).  The retry must carry exactly such a content.    *)
EXTENDS Integers, Sequences, FiniteSets, TraceBase

VARIABLES known, failedBy, called, done,
          base,     \* trial -> set of entries at the start (zombie family only)
          wr,       \* trial -> sequence of its write calls [k, key, v, ok (-1 = not yet returned), st, en] (st/en = event positions)
          fopen,    \* worker -> [n, st]: its FAIL call in progress
          fiv       \* trial -> [st, en]: the event positions of the FAIL call that answered True
vars == <<tix, l, known, failedBy, called, done, base, wr, fopen, fiv>>
zvars == <<base, wr, fopen, fiv>>
Is(e) == Consume /\ Ev.e = e
Upd(f, k, v) == [x \in DOMAIN f \cup {k} |-> IF x = k THEN v ELSE f[x]]
MaxRetry == Trace.cfg.max_retry

Init == TraceInitBase /\ known = <<>> /\ failedBy = <<>> /\ called = <<>> /\ done = {}
        /\ base = <<>> /\ wr = <<>> /\ fopen = <<>> /\ fiv = <<>>

\* Family "clock" (the database clock is frozen by the harness): the event carries the AGE of the heartbeat at the time of the
\* sweeps and the grace period, both in whole seconds; "older than the grace period" is decided here, not by the harness.
BeatOf(e) == IF "age" \in DOMAIN e THEN (IF e.age > e.grace THEN "stale" ELSE "fresh") ELSE e.beat

TrialEv == /\ Is("trial")
           /\ known' = Upd(known, Ev.n, [state |-> Ev.state, beat |-> BeatOf(Ev), hist |-> Ev.hist, pk |-> Ev.pk, pkiv |-> Ev.pkiv])
           /\ UNCHANGED <<failedBy, called, done>> /\ UNCHANGED zvars
BeatEv == /\ Is("beat") /\ Ev.n \in DOMAIN known
          /\ known' = [known EXCEPT ![Ev.n].beat = BeatOf(Ev), ![Ev.n].state = Ev.state] /\ UNCHANGED <<failedBy, called, done>>
          /\ UNCHANGED zvars

Fail == /\ Is("fail") /\ Ev.n \in DOMAIN known
        /\ known[Ev.n].state = "RUNNING" /\ known[Ev.n].beat = "stale"      \* only dead RUNNING trials are touched
        /\ Ev.n \notin DOMAIN failedBy                                       \* failed by exactly one of the workers
        /\ failedBy' = Upd(failedBy, Ev.n, Ev.w)
        /\ known' = [known EXCEPT ![Ev.n].state = "FAIL"] /\ UNCHANGED <<called, done>>
        /\ fiv' = IF Ev.w \in DOMAIN fopen /\ fopen[Ev.w].n = Ev.n       \* the call interval, if its start was logged
                    THEN Upd(fiv, Ev.n, [st |-> fopen[Ev.w].st, en |-> l]) ELSE fiv
        /\ UNCHANGED <<base, wr, fopen>>

Callback == /\ Is("callback")
            /\ Ev.n \in DOMAIN failedBy /\ failedBy[Ev.n] = Ev.w               \* only the worker that failed it
            /\ Ev.n \notin DOMAIN called                                       \* at most once
            /\ called' = Upd(called, Ev.n, TRUE) /\ UNCHANGED <<known, failedBy, done>> /\ UNCHANGED zvars
\* the callback returned (a worker that dies inside its callback may or may not have queued the retry)
CallbackDone == /\ Is("callback_done") /\ Ev.n \in DOMAIN called /\ done' = done \cup {Ev.n} /\ UNCHANGED <<known, failedBy, called>>
                /\ UNCHANGED zvars

\* ---- zombie family: the worker of the stale trial is still writing -------------------------------------------------
ToSet(q) == {q[i] : i \in 1..Len(q)}
ContentEv == /\ Is("content") /\ Ev.n \in DOMAIN known
             /\ base' = Upd(base, Ev.n, ToSet(Ev.c)) /\ wr' = Upd(wr, Ev.n, <<>>)
             /\ UNCHANGED <<known, failedBy, called, done, fopen, fiv>>
WriteStart == /\ Is("write_start") /\ Ev.n \in DOMAIN wr
              /\ (wr[Ev.n] # <<>> => wr[Ev.n][Len(wr[Ev.n])].ok # -1)          \* one worker per trial: its calls are sequential
              /\ wr' = [wr EXCEPT ![Ev.n] = Append(@, [k |-> Ev.k, key |-> Ev.key, v |-> 0, ok |-> -1, st |-> l, en |-> 0])]
              /\ UNCHANGED <<known, failedBy, called, done, base, fopen, fiv>>
WriteEnd == /\ Is("write_end") /\ Ev.n \in DOMAIN wr /\ wr[Ev.n] # <<>>
            /\ LET i == Len(wr[Ev.n]) IN
                 /\ wr[Ev.n][i].ok = -1 /\ wr[Ev.n][i].k = Ev.k /\ wr[Ev.n][i].key = Ev.key /\ Ev.ok \in {0, 1}
                 /\ wr' = [wr EXCEPT ![Ev.n][i].ok = Ev.ok, ![Ev.n][i].v = Ev.v, ![Ev.n][i].en = l]
            /\ UNCHANGED <<known, failedBy, called, done, base, fopen, fiv>>
FailStart == /\ Is("fail_start") /\ fopen' = Upd(fopen, Ev.w, [n |-> Ev.n, st |-> l])
             /\ UNCHANGED <<known, failedBy, called, done, base, wr, fiv>>

Kinds == IF Trace.cfg.inherit = 1 THEN {"p", "a", "i"} ELSE {"p", "a"}      \* intermediate values only if inherited
Restrict(S) == {e \in S : e.k \in Kinds}
Put(S, w) == {e \in S : ~(e.k = w.k /\ e.key = w.key)} \cup {[k |-> w.k, key |-> w.key, v |-> w.v]}
RECURSIVE ApplyN(_, _, _)
ApplyN(S, E, m) == IF m = 0 THEN S ELSE Put(ApplyN(S, E, m - 1), E[m])
Accepted(w) == w.ok = 1
\* c = the retry's entries; p = the failed trial: c is p's content at some moment inside p's FAIL call
CarriesContentAtFail(p, c) ==
  LET E  == SelectSeq(wr[p], Accepted)
      lo == Cardinality({i \in 1..Len(E) : E[i].en < fiv[p].st})      \* had returned before the FAIL call started
      hi == Cardinality({i \in 1..Len(E) : E[i].st < fiv[p].en})      \* had started before the FAIL call returned
  IN \E m \in lo..hi : Restrict(ToSet(c)) = Restrict(ApplyN(base[p], E, m))

\* final read-back: every retry is justified by exactly one callback, carries the original's parameters, user attributes
\* (and intermediate values if inherited) and a correct history; chains are bounded; nothing else changed
RetriesOf(fin, n) == {i \in 1..Len(fin) : fin[i].hist # <<>> /\ fin[i].hist[Len(fin[i].hist)] = n}
FinalOK(fin) ==
  /\ \A i \in 1..Len(fin) :
       LET t == fin[i] IN
       /\ t.hist # <<>> =>
            LET p == t.hist[Len(t.hist)] IN
            /\ p \in DOMAIN called                                             \* a retry exists only because of a callback
            /\ \E j \in 1..Len(fin) : fin[j].n = p /\ fin[j].state = "FAIL"
                  /\ t.hist = Append(fin[j].hist, p)                           \* history = parent's history + parent
                  \* params and user attrs (and inherited intermediate values) carried over: nobody else writes to the
                  \* failed trial, so its final content is its content when it became FAIL ...
                  /\ ((p \notin DOMAIN base \/ p \notin DOMAIN fiv) =>
                        (t.pk = fin[j].pk /\ (Trace.cfg.inherit = 1 => t.pkiv = fin[j].pkiv)))
                  \* ... unless its own worker is still writing (zombie family): then the logged writes say what it was
                  /\ ((p \in DOMAIN base /\ p \in DOMAIN fiv) => CarriesContentAtFail(p, t.c))
            /\ t.failed = t.hist[1]
            /\ (MaxRetry # -1 => Len(t.hist) <= MaxRetry)                      \* never more than max_retry in a chain
       /\ (t.n \in DOMAIN known /\ t.n \notin DOMAIN failedBy /\ known[t.n].state \in {"COMPLETE", "RUNNING"})
             => t.state = known[t.n].state                                     \* untouched
  /\ \A n \in DOMAIN called : Cardinality(RetriesOf(fin, n)) <= 1              \* at most one retry per failure
  /\ \A n \in done :
        LET h == (CHOOSE j \in 1..Len(fin) : fin[j].n = n) IN
        (MaxRetry = -1 \/ Len(fin[h].hist) + 1 <= MaxRetry) => Cardinality(RetriesOf(fin, n)) = 1

Final == Is("final") /\ FinalOK(Ev.trials) /\ UNCHANGED <<known, failedBy, called, done>> /\ UNCHANGED zvars

Next == TrialEv \/ BeatEv \/ Fail \/ Callback \/ CallbackDone \/ Final \/ ContentEv \/ WriteStart \/ WriteEnd \/ FailStart
Spec == Init /\ [][Next]_vars
=================================================================================
