----------------------------- MODULE HeartbeatTrace -----------------------------
(* Property-level monitor for C19 over executions of the real stale-trial sweep                        *)
(* (optuna.storages.fail_stale_trials / Study.optimize on RDBStorage with heartbeats, SQLite).          *)
(* Events, in scheduler order:                                                                        *)
(*   trial    : a trial exists: n, state, beat ("none" | "fresh" | "stale"), hist (retry history), pk    *)
(*              (token of its params / user attrs / intermediate values)                                *)
(*   beat     : the harness changes the heartbeat of trial n (a worker dies / lives)                     *)
(*   fail     : a FAIL request of worker w on trial n answered True (inside the sweep)                   *)
(*   callback : the failed-trial callback of worker w was invoked for trial n; callback_done: it returned *)
(*   final    : all trials as read back: n, state, hist, failed (failed_trial attr or -1), pk            *)
(* cfg.max_retry (-1 = unlimited), cfg.inherit (0/1) travel with the trace.                             *)
EXTENDS Integers, Sequences, FiniteSets, TraceBase

VARIABLES known, failedBy, called, done
vars == <<tix, l, known, failedBy, called, done>>
Is(e) == Consume /\ Ev.e = e
Upd(f, k, v) == [x \in DOMAIN f \cup {k} |-> IF x = k THEN v ELSE f[x]]
MaxRetry == Trace.cfg.max_retry

Init == TraceInitBase /\ known = <<>> /\ failedBy = <<>> /\ called = <<>> /\ done = {}

TrialEv == /\ Is("trial")
           /\ known' = Upd(known, Ev.n, [state |-> Ev.state, beat |-> Ev.beat, hist |-> Ev.hist, pk |-> Ev.pk, pkiv |-> Ev.pkiv])
           /\ UNCHANGED <<failedBy, called, done>>
BeatEv == /\ Is("beat") /\ Ev.n \in DOMAIN known
          /\ known' = [known EXCEPT ![Ev.n].beat = Ev.beat, ![Ev.n].state = Ev.state] /\ UNCHANGED <<failedBy, called, done>>

Fail == /\ Is("fail") /\ Ev.n \in DOMAIN known
        /\ known[Ev.n].state = "RUNNING" /\ known[Ev.n].beat = "stale"      \* only dead RUNNING trials are touched
        /\ Ev.n \notin DOMAIN failedBy                                       \* failed by exactly one of the workers
        /\ failedBy' = Upd(failedBy, Ev.n, Ev.w)
        /\ known' = [known EXCEPT ![Ev.n].state = "FAIL"] /\ UNCHANGED <<called, done>>

Callback == /\ Is("callback")
            /\ Ev.n \in DOMAIN failedBy /\ failedBy[Ev.n] = Ev.w               \* only the worker that failed it
            /\ Ev.n \notin DOMAIN called                                       \* at most once
            /\ called' = Upd(called, Ev.n, TRUE) /\ UNCHANGED <<known, failedBy, done>>
\* the callback returned (a worker that dies inside its callback may or may not have queued the retry)
CallbackDone == /\ Is("callback_done") /\ Ev.n \in DOMAIN called /\ done' = done \cup {Ev.n} /\ UNCHANGED <<known, failedBy, called>>

\* final read-back: every retry is justified by exactly one callback, carries the original's parameters, user attributes
\* (and intermediate values if inherited) and a correct history; chains are bounded; nothing else changed
RetriesOf(fin, n) == {i \in 1..Len(fin) : fin[i].hist # <<>> /\ fin[i].hist[Len(fin[i].hist)] = n}
FinalOK(fin) ==
  /\ \A i \in 1..Len(fin) :
       LET t == fin[i] IN
       /\ t.hist # <<>> =>
            LET p == t.hist[Len(t.hist)] IN
            /\ p \in DOMAIN called                                             \* a retry exists only because of a callback
            /\ \E j \in 1..Len(fin) : fin[j].n = p /\ fin[j].state = "FAIL"
                  /\ t.hist = Append(fin[j].hist, p)                           \* history = parent's history + parent
                  /\ t.pk = fin[j].pk                                          \* params and user attrs carried over
                  /\ (Trace.cfg.inherit = 1 => t.pkiv = fin[j].pkiv)
            /\ t.failed = t.hist[1]
            /\ (MaxRetry # -1 => Len(t.hist) <= MaxRetry)                      \* never more than max_retry in a chain
       /\ (t.n \in DOMAIN known /\ t.n \notin DOMAIN failedBy /\ known[t.n].state \in {"COMPLETE", "RUNNING"})
             => t.state = known[t.n].state                                     \* untouched
  /\ \A n \in DOMAIN called : Cardinality(RetriesOf(fin, n)) <= 1              \* at most one retry per failure
  /\ \A n \in done :
        LET h == (CHOOSE j \in 1..Len(fin) : fin[j].n = n) IN
        (MaxRetry = -1 \/ Len(fin[h].hist) + 1 <= MaxRetry) => Cardinality(RetriesOf(fin, n)) = 1

Final == Is("final") /\ FinalOK(Ev.trials) /\ UNCHANGED <<known, failedBy, called, done>>

Next == TrialEv \/ BeatEv \/ Fail \/ Callback \/ CallbackDone \/ Final
Spec == Init /\ [][Next]_vars
=================================================================================
