-------------------------------- MODULE Mirror --------------------------------
(* C13: maximising f behaves exactly like minimising -f.                                             *)
(*                                                                                                   *)
(* Small EXACT decision models (integers only) of every place where optuna's built-in components      *)
(* look at the direction of a study, and the mirror theorem                                           *)
(*                                                                                                   *)
(*        Decide(dir, values, parameters) = Decide(Flip(dir), -values, mirrored parameters)           *)
(*                                                                                                   *)
(* for each of them (checked exhaustively by MirrorMC over bounded histories with pairwise-distinct   *)
(* values).  A direction is the sign d such that d * value is a loss: Min = 1, Max = -1 (as in Best).  *)
(* The models follow the documented algorithm of the component (file:line in the comments) - they are  *)
(* design-level models whose purpose is the symmetry argument; the real code is compared with itself  *)
(* on mirrored runs through Functional (harness/c13.py).  Best-trial selection and the Pareto set /    *)
(* non-domination rank are the property-level operators of Best.tla / Pareto.tla.                      *)
EXTENDS Best      \* Pareto, Integers, Sequences, FiniteSets, TLC; Min, Max, Neg, FlipDirs, NegHistory

Flip(d)     == Neg(d)
NegSet(S)   == {Neg(x) : x \in S}
NegSeq(s)   == [i \in 1..Len(s) |-> Neg(s[i])]
SetMin(S)   == CHOOSE x \in S : \A y \in S : x <= y
SetMax(S)   == CHOOSE x \in S : \A y \in S : y <= x
BestOf(d, S) == IF d = Min THEN SetMin(S) ELSE SetMax(S)

RECURSIVE SortSet(_)
SortSet(S) == IF S = {} THEN <<>> ELSE LET m == SetMin(S) IN <<m>> \o SortSet(S \ {m})   \* ascending

\* ------------------------------------------------------------------ percentile / median pruner
\* numpy.nanpercentile(values, q) with linear interpolation, for q = 25 * q4, times 4 (an integer):
\* position (n-1) * q/100 = (n-1) * q4 / 4.
Pct4(S, q4) ==
  LET s == SortSet(S)
      n == Len(s)
      pos4 == (n - 1) * q4
      i == pos4 \div 4
      f == pos4 % 4
  IN  IF f = 0 THEN 4 * s[i + 1] ELSE 4 * s[i + 1] + f * (s[i + 2] - s[i + 1])

\* pruners/_percentile.py:14-47, 195-209: best own value over steps against the percentile of the other
\* trials' values at this step; "for maximize the percentile is taken from the other side".
PercentilePrune(d, q4, others, own) ==
  LET best == BestOf(d, own)
      p4   == Pct4(others, IF d = Max THEN 4 - q4 ELSE q4)
  IN  IF d = Max THEN 4 * best < p4 ELSE 4 * best > p4

\* ------------------------------------------------------------------ threshold pruner (direction-free)
\* pruners/_threshold.py: prune iff value < lower or value > upper; the mirrored run uses (-upper, -lower).
ThresholdPrune(lo, hi, v) == v < lo \/ v > hi

\* ------------------------------------------------------------------ patient pruner
\* pruners/_patient.py:85-125: own values in step order; before = all but the last pat+1, after = the last pat+1.
PatientMaybePrune(d, pat, md, vs) ==
  IF Len(vs) <= pat + 1 THEN FALSE
  ELSE LET cut    == Len(vs) - pat - 1
           before == {vs[i] : i \in 1..cut}
           after  == {vs[i] : i \in (cut + 1)..Len(vs)}
       IN  IF d = Min THEN SetMin(before) + md < SetMin(after)
                      ELSE SetMax(before) - md > SetMax(after)

\* ------------------------------------------------------------------ successive halving / hyperband rung
\* pruners/_successive_halving.py:251-268: promotable iff among the best 1/rf of the competing values.
Promotable(d, rf, v, competing) ==      \* competing includes v
  LET s  == SortSet(competing)
      n  == Len(s)
      k0 == (n \div rf) - 1
      k  == IF k0 = -1 THEN 0 ELSE k0
  IN  IF d = Max THEN v >= s[n - k] ELSE v <= s[k + 1]

\* ------------------------------------------------------------------ TPE below/above split (single objective)
\* samplers/_tpe/sampler.py:661-669: sort by value (ascending / descending), the first n_below are "below".
\* With pairwise-distinct values the stable-sort tie order is irrelevant.
Below(d, vs, nb) == {i \in 1..Len(vs) : Cardinality({j \in 1..Len(vs) : d * vs[j] < d * vs[i]}) < nb}
\* pruned trials: score (-last step, loss of the last intermediate value) (sampler.py:700-715)
PrunedScoreLess(d, a, b) ==      \* a, b = <<last step, value>>
  \/ a[1] > b[1]
  \/ a[1] = b[1] /\ d * a[2] < d * b[2]
BelowPruned(d, ps, nb) == {i \in 1..Len(ps) : Cardinality({j \in 1..Len(ps) : PrunedScoreLess(d, ps[j], ps[i])}) < nb}
NegPruned(ps) == [i \in 1..Len(ps) |-> <<ps[i][1], Neg(ps[i][2])>>]

\* ------------------------------------------------------------------ Wilcoxon pruner
\* pruners/_wilcoxon.py:150-226.  cur / best = the values the current trial and the best trial reported at the steps
\* they share (same order).  The signed-rank statistic is integer arithmetic: twice the mid-rank of |d_i| is
\* 2 * #{|d_j| < |d_i|} + #{|d_j| = |d_i|} + 1; with zero_method = "zsplit" a zero difference gives half of its rank
\* to either side, so FOUR times W+ / W- are integers.  The p-value of the one-sided test is abstracted to what
\* matters for the symmetry: for alternative "less" it is a nondecreasing function of W+, for "greater" of W-
\* (the null distribution is symmetric), so "p < p_threshold" is "statistic <= c4" for a critical value c4.
Abs(x)      == IF x < 0 THEN 0 - x ELSE x
DiffSeq(cur, best) == [i \in 1..Len(cur) |-> cur[i] - best[i]]
R2(d, i)    == 2 * Cardinality({j \in 1..Len(d) : Abs(d[j]) < Abs(d[i])}) + Cardinality({j \in 1..Len(d) : Abs(d[j]) = Abs(d[i])}) + 1
RECURSIVE SumOver(_, _)
SumOver(f, S) == IF S = {} THEN 0 ELSE LET i == CHOOSE x \in S : TRUE IN f[i] + SumOver(f, S \ {i})
WPlus4(d)   == SumOver([i \in 1..Len(d) |-> IF d[i] > 0 THEN 2 * R2(d, i) ELSE IF d[i] = 0 THEN R2(d, i) ELSE 0], 1..Len(d))
WMinus4(d)  == SumOver([i \in 1..Len(d) |-> IF d[i] < 0 THEN 2 * R2(d, i) ELSE IF d[i] = 0 THEN R2(d, i) ELSE 0], 1..Len(d))
SeqSum(s)   == SumOver(s, 1..Len(s))
\* "average is best" safety: the mean of ALL values the best trial reported against the mean of the current trial's
\* (cross-multiplied, so exact); bestAll may be longer than the shared steps.
\* the decision on the integer features (n shared steps, 4W+, 4W-, sums and lengths for the two means)
WilcoxonDecide(dir, n, wp4, wm4, sumCur, lenCur, sumBestAll, lenBestAll, c4, nstartup) ==
  LET enough == n >= (IF nstartup > 2 THEN nstartup ELSE 2)
      worse  == IF dir = Max THEN wp4 <= c4 ELSE wm4 <= c4
      avgIsBest == IF dir = Max THEN sumBestAll * lenCur <= sumCur * lenBestAll
                                ELSE sumBestAll * lenCur >= sumCur * lenBestAll
  IN  enough /\ worse /\ ~avgIsBest
WilcoxonPrune(dir, cur, best, bestAll, c4, nstartup) ==
  LET d == DiffSeq(cur, best) IN
    WilcoxonDecide(dir, Len(d), WPlus4(d), WMinus4(d), SeqSum(cur), Len(cur), SeqSum(bestAll), Len(bestAll), c4, nstartup)

\* ------------------------------------------------------------------ multi objective: flip a subset of objectives
\* h: history as in Best (records with s, v, hc, c); F: set of objective indices whose direction is flipped.
FlipOn(dirs, F)  == [k \in 1..Len(dirs) |-> IF k \in F THEN Neg(dirs[k]) ELSE dirs[k]]
NegTrialOn(t, F) == [t EXCEPT !.v = [k \in 1..Len(t.v) |-> IF k \in F THEN Neg(t.v[k]) ELSE t.v[k]]]
NegOn(h, F)      == [i \in 1..Len(h) |-> NegTrialOn(h[i], F)]
\* non-domination rank of the COMPLETE trials (NSGA-II/III elite selection, MOTPE split work on these ranks)
RankOf(h, dirs)  == PeelRank(Losses(h, dirs), Complete(h), 0)
===============================================================================
