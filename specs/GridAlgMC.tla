------------------------------ MODULE GridAlgMC ------------------------------
(* Algorithm-level model of GridSampler under a sequential optimize loop, checked against the       *)
(* property of Grid.tla (every cell exactly once, then stop).  A cell is identified with its grid id  *)
(* 0..n-1 (position in the seed-shuffled grid; the same for every sampler object with that seed).     *)
(*   before_trial : a trial that carries fixed_params (enqueued) gets no grid_id; trial number < n     *)
(*                  gets grid_id = number; otherwise a random member of the unvisited ids              *)
(*   unvisited    : all ids minus FINISHED ids minus RUNNING ids; if that is empty, all minus FINISHED *)
(*   after_trial  : (evaluated while the finishing trial is still RUNNING) no unvisited id -> stop;    *)
(*                  exactly one -> stop iff it is the finishing trial's grid_id                        *)
(*                  -- reading grid_id of a trial that has none is the KeyError of finding F13         *)
EXTENDS Integers, Sequences, FiniteSets, TLC
CONSTANTS MaxN, Caps, MaxEnq

VARIABLES n, trials, mode, left, stopflag, failed, err, nenq
vars == <<n, trials, mode, left, stopflag, failed, err, nenq>>

None == -1
Ids == 0..(n - 1)
Idx == 1..Len(trials)
WithState(s) == {i \in Idx : trials[i].st = s}
Visited   == {trials[i].gid : i \in {j \in WithState("FINISHED") : trials[j].gid # None}}
RunningG  == {trials[i].gid : i \in {j \in WithState("RUNNING") : trials[j].gid # None}}
Unvisited == LET u == (Ids \ Visited) \ RunningG IN IF u = {} THEN Ids \ Visited ELSE u
AllVisited == Ids \subseteq Visited
InFlight  == WithState("RUNNING") # {}

Init == /\ n \in 1..MaxN /\ trials = <<>> /\ mode = "idle" /\ left = 0
        /\ stopflag = FALSE /\ failed = FALSE /\ err = FALSE /\ nenq = 0

AEnqueue ==
  /\ nenq < MaxEnq /\ ~InFlight /\ mode # "stopped" /\ ~err
  /\ trials' = Append(trials, [gid |-> None, st |-> "WAITING"])
  /\ nenq' = nenq + 1
  /\ UNCHANGED <<n, mode, left, stopflag, failed, err>>

AOptimize(cap) ==
  /\ mode = "idle" /\ ~AllVisited /\ ~err
  /\ mode' = "run" /\ left' = cap /\ stopflag' = FALSE /\ failed' = FALSE
  /\ UNCHANGED <<n, trials, err, nenq>>

AStart(g) ==
  /\ mode = "run" /\ ~InFlight /\ ~stopflag /\ left > 0 /\ ~err
  /\ left' = left - 1
  /\ IF WithState("WAITING") # {}
       THEN LET i == CHOOSE j \in WithState("WAITING") : \A k \in WithState("WAITING") : j <= k
            IN  g = None /\ trials' = [trials EXCEPT ![i].st = "RUNNING"]
       ELSE LET number == Len(trials)
                target == IF Unvisited = {} THEN Ids ELSE Unvisited
            IN  /\ IF number < n THEN g = number ELSE g \in target
                /\ trials' = Append(trials, [gid |-> g, st |-> "RUNNING"])
  /\ UNCHANGED <<n, mode, stopflag, failed, err, nenq>>

AFinish(out) ==
  /\ InFlight
  /\ LET i == CHOOSE j \in WithState("RUNNING") : TRUE
         t == Unvisited                                   \* the finishing trial still counts as RUNNING
     IN  /\ err' = (Cardinality(t) = 1 /\ trials[i].gid = None)
         /\ stopflag' = (stopflag \/ t = {} \/ (Cardinality(t) = 1 /\ trials[i].gid \in t))
         /\ trials' = [trials EXCEPT ![i].st = "FINISHED"]
  /\ failed' = (out = "FAIL")
  /\ UNCHANGED <<n, mode, left, nenq>>

AReturn ==
  /\ mode = "run" /\ ~InFlight /\ ~err /\ (stopflag \/ left = 0)
  /\ mode' = IF AllVisited THEN "stopped" ELSE "idle"
  /\ UNCHANGED <<n, trials, left, stopflag, failed, err, nenq>>

AInterrupt ==
  /\ mode = "run" /\ ~InFlight /\ ~err /\ failed
  /\ mode' = IF AllVisited THEN "stopped" ELSE "idle"
  /\ UNCHANGED <<n, trials, left, stopflag, failed, err, nenq>>

ADone == (mode = "stopped" \/ err) /\ UNCHANGED vars

Next ==
  \/ AEnqueue
  \/ \E cap \in Caps : AOptimize(cap)
  \/ \E g \in (0..(MaxN - 1)) \cup {None} : AStart(g)
  \/ \E out \in {"COMPLETE", "FAIL", "PRUNED"} : AFinish(out)
  \/ AReturn
  \/ AInterrupt
  \/ ADone

Spec == Init /\ [][Next]_vars /\ WF_vars(Next)

NoError           == ~err
NoDuplicateCell   == \A i, j \in Idx : (i # j /\ trials[i].gid # None) => trials[i].gid # trials[j].gid
NoPrematureStop   == (stopflag /\ ~InFlight) => AllVisited
VisitedAtStop     == mode = "stopped" => AllVisited
NoTrialAfterExhaustion == InFlight => \E g \in Ids : g \notin {trials[i].gid : i \in WithState("FINISHED")}
Terminates        == <>(mode = "stopped" \/ err)
===============================================================================
