----------------------------- MODULE HandlesTrace -----------------------------
(* Trace validation for C20: one real call history (storage level and/or Study/Trial level) is      *)
(* replayed in the Storage contract; the objects the real getters handed out are the handles.       *)
(*                                                                                                  *)
(* A trace is [tid, tab, ev].  `tab` is the table of the distinct projections that occur in the     *)
(* trace (pure encoding: events refer to a projection by its 1-based index so that an unchanged     *)
(* object does not repeat its whole projection after every write; 0 = nothing).  Events:            *)
(*   write    a = create_study | delete_study | set_study_ua | ... (as in StorageTrace), ret = the  *)
(*            observed reply.  Study/Trial-level writes are logged as the storage call they amount  *)
(*            to (ask = create_trial or set_state RUNNING of the popped trial, suggest = set_param, *)
(*            report = set_iv, tell = set_state, enqueue_trial/add_trial = create_trial(template)). *)
(*   read     a = "read", g, s, t, f, states, v: a real getter of abstract kind g returned an       *)
(*            object whose projection at read time is tab[v].  Judged: ReadOK in the current state. *)
(*   recheck  a = "recheck", vals: after a write, the current projection of every held object       *)
(*            (vals[i] index into tab; 0 for an object the harness itself modified on purpose).     *)
(*            Judged: equal to the value of the handle (HandlesNeverChange through the binding).    *)
(*            A changed handle does not end the trace: it is printed as <<"CHANGED", tid, l, i>>,   *)
(*            the handle is retired, the replay goes on (other pairs of the same history are still  *)
(*            judged) and the trace is not accepted.                                                *)
(*   mutate   a = "mutate", h: the harness modified the object of handle h, which the API documents *)
(*            as a deep copy.  No effect on the abstract state.                                     *)
(*   post     a = "post", post: whole readable state read back through get_all_studies /           *)
(*            get_all_trials.  Judged: equals Project(st) (second half of the property: modifying a *)
(*            deep-copied result never affects what the study returns later).                      *)
(* A write whose reply is not the contract's is C01's business: the replay cannot follow the real   *)
(* storage any further; it is printed as <<"DIVERGED", tid, l>> and the rest of the trace is not    *)
(* judged.  Calls outside the defined contract (D2, D10) likewise (<<"UNDEF", tid, l>>).            *)
EXTENDS Handles, TraceBase

VARIABLES retired,   \* handle indices no longer judged (modified on purpose, or already reported as changed)
          nchg       \* number of changed handles reported so far
vars == <<tix, l, st, handles, retired, nchg>>

Tab == Trace.tab
RetEq(a, b) == a.k = b.k /\ a.v = b.v
Is(name) == Consume /\ Ev.a = name
Frame == UNCHANGED <<retired, nchg>>

Defined ==
  /\ Ev.a = "set_param" => SetParamDefined(st, Ev.t, Ev.name, Ev.d)
  /\ Ev.a = "set_state" => SetStateDefined(Ev.state, Ev.values)

Effect ==          \* the contract's result of the logged write
  CASE Ev.a = "create_study" -> DoCreateStudy(st, Ev.name, Ev.dirs)
    [] Ev.a = "delete_study" -> DoDeleteStudy(st, Ev.s)
    [] Ev.a = "set_study_ua" -> DoSetStudyAttr(st, "ua", Ev.s, Ev.key, Ev.v)
    [] Ev.a = "set_study_sa" -> DoSetStudyAttr(st, "sa", Ev.s, Ev.key, Ev.v)
    [] Ev.a = "create_trial" -> DoCreateTrial(st, Ev.s, Ev.tm)
    [] Ev.a = "set_param"    -> DoSetParam(st, Ev.t, Ev.name, Ev.v, Ev.d)
    [] Ev.a = "set_state"    -> DoSetStateValues(st, Ev.t, Ev.state, Ev.values)
    [] Ev.a = "set_iv"       -> DoSetIV(st, Ev.t, Ev.step, Ev.v)
    [] Ev.a = "set_trial_ua" -> DoSetTrialAttr(st, "ua", Ev.t, Ev.key, Ev.v)
    [] Ev.a = "set_trial_sa" -> DoSetTrialAttr(st, "sa", Ev.t, Ev.key, Ev.v)

Writes == {"create_study", "delete_study", "set_study_ua", "set_study_sa", "create_trial", "set_param", "set_state",
           "set_iv", "set_trial_ua", "set_trial_sa"}

Skip(tag) == /\ PrintT(<<tag, Trace.tid, l>>)
             /\ l' = Len(Events) + 1 /\ UNCHANGED <<tix, st, handles, retired, nchg>>

TWrite ==
  /\ Consume /\ Ev.a \in Writes /\ Defined
  /\ RetEq(Ev.ret, Effect.ret)
  /\ Write(Effect) /\ Frame

Undefined == HasEv /\ Ev.a \in Writes /\ ~Defined /\ Skip("UNDEF")
Diverged  == HasEv /\ Ev.a \in Writes /\ Defined /\ ~RetEq(Ev.ret, Effect.ret) /\ Skip("DIVERGED")

\* Refinement: the value of handle i is Tab[handles[i].v].  The state keeps the reference (Tab is a constant of the
\* trace), so that a state does not carry hundreds of projections; TLC compares the values themselves (HVal).
HVal(i) == Tab[handles[i].v]

TRead ==
  /\ Is("read")
  /\ Ev.v \in 1..Len(Tab)
  /\ LET x == Tgt(Ev.s, Ev.t, Ev.f, Ev.states) IN
       /\ ReadOK(st, Ev.g, x, Tab[Ev.v])                               \* Handles!Read with the value by reference
       /\ handles' = Append(handles, [g |-> Ev.g, x |-> x, v |-> Ev.v])
  /\ UNCHANGED st
  /\ Frame

Active == (1..Len(handles)) \ retired
\* vals[i] = 0 for an active handle: the object could not even be projected any more
ChangedNow == {i \in Active : Ev.vals[i] \notin 1..Len(Tab) \/ Tab[Ev.vals[i]] # HVal(i)}

TRecheck ==
  /\ Is("recheck")
  /\ Len(Ev.vals) = Len(handles)
  /\ \A i \in ChangedNow : PrintT(<<"CHANGED", Trace.tid, l, i>>)
  /\ retired' = retired \cup ChangedNow
  /\ nchg' = nchg + Cardinality(ChangedNow)
  /\ UNCHANGED <<st, handles>>

TMutate ==
  /\ Is("mutate")
  /\ Ev.h \in 1..Len(handles)
  /\ retired' = retired \cup {Ev.h}
  /\ UNCHANGED <<st, handles, nchg>>

TPost ==
  /\ Is("post")
  /\ Ev.post = Project(st)
  /\ UNCHANGED <<st, handles, retired, nchg>>

Init == TraceInitBase /\ st = Empty /\ handles = <<>> /\ retired = {} /\ nchg = 0

Next == TWrite \/ Undefined \/ Diverged \/ TRead \/ TRecheck \/ TMutate \/ TPost
Spec == Init /\ [][Next]_vars

\* Evaluated as INVARIANTs (always TRUE): side effects only.  A trace is accepted iff all its events were
\* consumed and no handle was ever found changed.
\* (Strict: the ACC line itself is withheld for a trace with a changed handle — used by the binding self-tests; in
\* the batch runs the harness withdraws the acceptance of every tid that has a CHANGED line, which spares the
\* runner's diagnostic second pass over traces whose failing events are already named by the CHANGED lines.)
Strict == IOEnv.C20_STRICT = "1"
ReportC20 == /\ (l = Len(Events) + 1 /\ (Strict => nchg = 0)) => PrintT(<<"ACC", Trace.tid>>)
             /\ Diag => PrintT(<<"AT", Trace.tid, l>>)
Inv == StateInv(st)
\* the frame property itself, on the replayed behaviour
HandlesKept == HandlesNeverChange
==============================================================================
