SPECIFICATION Spec
CONSTANTS Writers = {1, 2} Readers = {3} NAppends = 1 NChunks = 2 NReads = 2 AllowCrash = TRUE AllowTakeover = TRUE DropTornTail = FALSE
INVARIANT NoBadObservation
CHECK_DEADLOCK FALSE
