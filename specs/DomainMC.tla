------------------------------ MODULE DomainMC ------------------------------
(* Bounded exhaustive instance of Domain: every set of constructor arguments of the lattice        *)
(*   floats : low, high in FB = FMul*(-BNeg..BMax), step in FSteps or none, log where allowed, + the 3 deprecated classes*)
(*   ints   : low, high in IB = -BNeg..BMax, step in ISteps, log where allowed, + the 2 deprecated classes        *)
(*   categ. : every sequence of 1..MaxCh choices over the mixed-type pool                           *)
(* is one `PickA' state; the invariants are theorems about the oracle itself.  The number of       *)
(* distinct PickA states is Cardinality(Inputs); harness/c11.py enumerates the same lattice and     *)
(* compares its count with it.  PickB/PickC build pairs and triples for the equivalence theorems.  *)
EXTENDS Domain
CONSTANTS BNeg, BMax,       \* low, high range over -BNeg..BMax (ints) and FMul * (-BNeg..BMax) (floats)
          FMul, FSteps, ISteps, MaxCh

IB == (0 - BNeg)..BMax
FB == {FMul * x : x \in IB}

None == [t |-> "none", v |-> 0]
Pool == { None,
          [t |-> "bool",  v |-> 10],      \* True
          [t |-> "int",   v |-> 10],      \* 1
          [t |-> "float", v |-> 10],      \* 1.0
          [t |-> "float", v |-> 5],       \* 0.5
          [t |-> "str",   v |-> 1],       \* "a"
          [t |-> "nan",   v |-> 0] }      \* float("nan")
ChoiceSeqs == UNION {[1..n -> Pool] : n \in 1..MaxCh}

FloatIn == {D("Float", lo, hi, s, 0, <<>>) : lo \in FB, hi \in FB, s \in FSteps \cup {0}}
           \cup {D("Float", lo, hi, 0, 1, <<>>) : lo \in FB, hi \in FB}
           \cup {D("Uniform", lo, hi, 0, 0, <<>>) : lo \in FB, hi \in FB}
           \cup {D("LogUniform", lo, hi, 0, 1, <<>>) : lo \in FB, hi \in FB}
           \cup {D("DiscreteUniform", lo, hi, s, 0, <<>>) : lo \in FB, hi \in FB, s \in FSteps}
IntIn   == {D("Int", lo, hi, s, 0, <<>>) : lo \in IB, hi \in IB, s \in ISteps}
           \cup {D("Int", lo, hi, 1, 1, <<>>) : lo \in IB, hi \in IB}
           \cup {D("IntUniform", lo, hi, s, 0, <<>>) : lo \in IB, hi \in IB, s \in ISteps}
           \cup {D("IntLogUniform", lo, hi, 1, 1, <<>>) : lo \in IB, hi \in IB}
CatIn   == {D("Cat", 0, 0, 0, 0, ch) : ch \in ChoiceSeqs}
Inputs  == {d \in FloatIn \cup IntIn \cup CatIn : Valid(d)}

Max(S) == CHOOSE x \in S : \A y \in S : y <= x
Min(S) == CHOOSE x \in S : \A y \in S : x <= y
\* representatives for the pair/triple theorems: every class, log flag, step and choice sequence, two ranges
RepLo(d) == IF Kind(d) = "int" THEN 1 ELSE FMul
RepHi(d) == IF Kind(d) = "int" THEN BMax ELSE FMul * BMax
IsRep(d)  == Kind(d) = "cat" \/ (d.lo = RepLo(d) /\ d.hi \in {RepLo(d), RepHi(d)})
IsRep3(d) == IsRep(d) /\ (IF Kind(d) = "cat" THEN Len(d.ch) = 1 ELSE d.step \in {0, 1, Min(FSteps)})

NoD == D("-", 0, 0, 0, 0, <<>>)
VARIABLES a, b, c
vars == <<a, b, c>>
Init == a = NoD /\ b = NoD /\ c = NoD
\* guards first: the (lazy) input sets are only enumerated in the phase that needs them
PickA == a = NoD /\ \E d \in Inputs : a' = d /\ UNCHANGED <<b, c>>
PickB == a # NoD /\ b = NoD /\ IsRep(a) /\ \E d \in Inputs : IsRep(d) /\ b' = d /\ UNCHANGED <<a, c>>
PickC == b # NoD /\ c = NoD /\ IsRep3(a) /\ IsRep3(b) /\ \E d \in Inputs : IsRep3(d) /\ c' = d /\ UNCHANGED <<a, b>>
Next == PickA \/ PickB \/ PickC
Spec == Init /\ [][Next]_vars

HasA == a # NoD /\ b = NoD          \* the one-distribution theorems are evaluated once per input
HasB == b # NoD
HasC == c # NoD
Num  == HasA /\ Kind(a) # "cat"
N    == Norm(a)
MaxStep == Max(FSteps \cup ISteps)
Around  == (a.lo - MaxStep - 1)..(a.hi + MaxStep + 1)

\* ---- theorems about one distribution
AdjustIdempotent  == Num => AdjustHigh(a.lo, AdjustHigh(a.lo, a.hi, a.step), a.step) = AdjustHigh(a.lo, a.hi, a.step)
AdjustIsLargest   == Num => /\ N.hi <= a.hi /\ N.lo = a.lo /\ N.lo <= N.hi
                            /\ Contains(N, N.hi)
                            /\ a.step > 0 => a.hi - N.hi < a.step       \* no grid point of [low, high] is lost
                            /\ Valid(N) /\ Norm(N) = N
GridIsContains    == (Num /\ a.step > 0) => /\ Grid(N) = {v \in Around : Contains(N, v)}
                                            /\ Grid(a) = Grid(N)
                                            /\ Grid(N) = {v \in Around : Contains(a, v)}
ContinuousContains == (Num /\ a.step = 0) => \A v \in Around : Contains(N, v) <=> (a.lo <= v /\ v <= a.hi)
NearMisses        == (Num /\ a.step > 0) => /\ ~Contains(N, N.lo - a.step) /\ ~Contains(N, N.hi + a.step)
                                            /\ \A v \in Grid(N) : \A e \in 1..(a.step - 1) : ~Contains(N, v + e)
SingleIffOnePoint == HasA => (Single(N) <=> IF Kind(a) = "cat" THEN Len(a.ch) = 1
                                            ELSE Cardinality({v \in Around : Contains(N, v)}) = 1)
SingleValueAdmitted == (HasA /\ Single(N)) => Admits(N, SingleValue(N))
\* observation-level membership agrees with the exact one on lattice values, and the ulp slack only ever
\* concerns log-scaled floats
ObsAgrees == Num => \A v \in Around :
                      /\ ContainsObs(N, Lat(Kind(a), v)) <=> Contains(N, v)
                      /\ Admits(N, Lat(Kind(a), v)) <=> Contains(N, v)
                      /\ ~Admits(N, Lat(IF Kind(a) = "int" THEN "float" ELSE "int", v))
CatIndexes == (HasA /\ Kind(a) = "cat") => \A i \in 0..(Len(a.ch) + 1) : Admits(a, Choice(i)) <=> (1 <= i /\ i <= Len(a.ch))

\* ---- theorems about two and three distributions
CompatReflexive   == a # NoD => Compatible(N, N) /\ DistEq(N, N)
CompatSymmetric   == HasB => /\ Compatible(a, b) <=> Compatible(b, a)
                             /\ DistEq(a, b) <=> DistEq(b, a)
                             /\ DistEq(a, b) => Compatible(a, b)
                             \* the answer does not depend on the range or the step
                             /\ Kind(a) # "cat" => (Compatible(a, b) <=> (a.cls = b.cls /\ a.log = b.log))
CompatTransitive  == HasC => /\ (Compatible(a, b) /\ Compatible(b, c)) => Compatible(a, c)
                             /\ (DistEq(a, b) /\ DistEq(b, c)) => DistEq(a, c)
===============================================================================
