----------------------------- MODULE SearchSpaceMC -----------------------------
(* Bounded instances of SearchSpace.  TLC explores every history (Create RUNNING/WAITING, Claim,   *)
(* Suggest, Finish in any order, AddTrial, Calculate anywhere) of at most MaxTrials trials over     *)
(* Names x Dists with at most MaxCalc Calculate steps, for both values of include_pruned, and       *)
(* checks that the transcribed cursor algorithm and group splitting refine the property level.      *)
(* Names and Dists are model values there and the instance is explored modulo their permutations    *)
(* (nothing in SearchSpace distinguishes one name or one distribution token from another).          *)
(* The *_bad_* configurations select a deliberately wrong Variant and must violate the property     *)
(* they list.  SearchSpaceSim.cfg is the larger instance from which random walks are drawn with     *)
(* -simulate for the conformance runs (not explored exhaustively).                                  *)
EXTENDS SearchSpace
Sym == Permutations(Names) \cup Permutations(Dists)

\* VIEW of the exhaustive instances.  The distributions of a trial that can never become eligible (FAIL, and
\* PRUNED when include_pruned is off) are read by no action, no algorithm step and no property, so states
\* that differ only there are explored once.
Dead(t) == t.state = "FAIL" \/ (t.state = "PRUNED" /\ ~ip)
View == <<[i \in 1..Len(trials) |-> IF Dead(trials[i]) THEN [trials[i] EXCEPT !.params = {}] ELSE trials[i]],
          ip, algSome, algSpace, cursor, groups, result, est, ncalc>>

\* Next-state relation used only with -simulate (SearchSpaceSim.cfg): the ask / enqueue / suggest / tell
\* part of Next.  TLC draws the random walks over the trial operations; the harness then inserts Calculate
\* (always enabled, does not change the trials) at seeded random points of each walk, and draws histories
\* with AddTrial itself -- with all |ParamSets| x 3 AddTrial successors in the walk nearly every step
\* would be an AddTrial.
SimNext == \/ \E st \in Unfinished : Create(st)
           \/ \E t \in TrialNums : Claim(t)
           \/ \E t \in TrialNums, name \in Names, dist \in Dists : Suggest(t, name, dist)
           \/ \E t \in TrialNums, st \in Finished : Finish(t, st)
SimSpec == Init /\ [][SimNext]_vars
===============================================================================
