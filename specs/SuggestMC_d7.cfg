SPECIFICATION Spec
INVARIANT D7Reachable
CHECK_DEADLOCK FALSE
