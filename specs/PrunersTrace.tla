----------------------------- MODULE PrunersTrace -----------------------------
(* Conformance of the real pruners with the envelope of Pruners.tla.                                *)
(* One trace = one study played through the real API; Trace.cfg = the pruner's parameters and the   *)
(* study direction.  Events, in call order:                                                         *)
(*   [a |-> "NewTrial",    t |-> number]                          study.ask()                        *)
(*   [a |-> "Report",      t, s |-> step, v |-> value|NaN]        trial.report(v, s)                 *)
(*   [a |-> "ShouldPrune", t, d |-> 0|1]                          trial.should_prune() returned d    *)
(*   [a |-> "Finish",      t, st |-> "COMPLETE"|"PRUNED"|"FAIL"]  study.tell(...)                    *)
(*   [a |-> "Bracket", name, n |-> number, b |-> bracket]         HyperbandPruner._get_bracket_id    *)
(* Bracket events are judged by a memo: the bracket is a FUNCTION of (study name, trial number)     *)
(* within one trace (= one Hyperband parameter setting, any storage / history / id offset).         *)
EXTENDS Pruners, TraceBase

VARIABLE memo          \* set of observed [name, n, b]
vars == <<tix, l, trials, memo>>

C == Trace.cfg

Init == TraceInitBase /\ PInit /\ memo = {}

TNewTrial == Consume /\ Ev.a = "NewTrial" /\ Ev.t = Len(trials) /\ NewTrial /\ UNCHANGED memo
TReport   == Consume /\ Ev.a = "Report" /\ ReportVal(Ev.t, Ev.s, Ev.v) /\ UNCHANGED memo
TShould   == Consume /\ Ev.a = "ShouldPrune" /\ Ev.d \in {0, 1} /\ ShouldPrune(C, Ev.t, Ev.d = 1) /\ UNCHANGED memo
TFinish   == Consume /\ Ev.a = "Finish" /\ Finish(Ev.t, Ev.st) /\ UNCHANGED memo
TBracket  == /\ Consume /\ Ev.a = "Bracket"
             /\ Ev.b >= 0
             /\ \A m \in memo : (m.name = Ev.name /\ m.n = Ev.n) => m.b = Ev.b
             /\ memo' = memo \cup {[name |-> Ev.name, n |-> Ev.n, b |-> Ev.b]}
             /\ UNCHANGED trials

Next == TNewTrial \/ TReport \/ TShould \/ TFinish \/ TBracket
Spec == Init /\ [][Next]_vars
==============================================================================
