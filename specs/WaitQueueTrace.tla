----------------------------- MODULE WaitQueueTrace -----------------------------
(* Property-level monitor for C04 over executions of the real Study API (sequential on every backend, *)
(* and concurrent under the thread / SQL-statement schedulers).  Events, in scheduler order:           *)
(*   enqueue : a trial was queued (enqueue_trial / add_trial(WAITING)); n = its number, fixed, ua       *)
(*   ask     : Study.ask() of worker w returned trial number n with these fixed params / user attrs      *)
(*   suggest : the worker asked for parameter `name` of trial n and received value v                    *)
(*   tell    : trial n finished                                                                        *)
(*   final   : after the workers are done the harness keeps asking until ask() hands out a trial that   *)
(*             was never queued; `waiting` = numbers still WAITING in the storage after that            *)
(* Exactly-once = never twice (ask) + none left over (final).                                           *)
EXTENDS Integers, Sequences, FiniteSets, TraceBase

VARIABLES enq,      \* tag -> [fixed, ua] of every trial put in the queue (the tag is a unique user attribute)
          handed,   \* trial numbers handed out by ask()
          numOf     \* tag -> trial number, learned from enqueue's read-back or from ask, whichever comes first
vars == <<tix, l, enq, handed, numOf>>
Is(e) == Consume /\ Ev.e = e
Upd(f, k, v) == [x \in DOMAIN f \cup {k} |-> IF x = k THEN v ELSE f[x]]

Init == TraceInitBase /\ enq = <<>> /\ handed = {} /\ numOf = <<>>

\* logged BEFORE enqueue_trial / add_trial is called: from now on the trial may show up in anybody's ask()
Enqueue == /\ Is("enqueue") /\ Ev.tag \notin DOMAIN enq
           /\ enq' = Upd(enq, Ev.tag, [fixed |-> Ev.fixed, ua |-> Ev.ua]) /\ UNCHANGED <<handed, numOf>>
\* logged after the call returned: the number the storage gave the queued trial
Enqueued == /\ Is("enqueued") /\ Ev.tag \in DOMAIN enq
            /\ (Ev.tag \in DOMAIN numOf) => numOf[Ev.tag] = Ev.n           \* the trial keeps its number
            /\ numOf' = Upd(numOf, Ev.tag, Ev.n) /\ UNCHANGED <<enq, handed>>

Ask == /\ Is("ask")
       /\ Ev.n \notin handed                                              \* never handed out twice
       /\ IF Ev.tag # 0
            THEN /\ Ev.tag \in DOMAIN enq
                 /\ Ev.fixed = enq[Ev.tag].fixed /\ Ev.ua = enq[Ev.tag].ua  \* fixed params and user attrs as queued
                 /\ (Ev.tag \in DOMAIN numOf) => numOf[Ev.tag] = Ev.n       \* and its number
                 /\ numOf' = Upd(numOf, Ev.tag, Ev.n)
            ELSE Ev.fixed = <<>> /\ Ev.ua = <<>> /\ UNCHANGED numOf        \* a fresh trial
       /\ Ev.state = "RUNNING"
       /\ handed' = handed \cup {Ev.n} /\ UNCHANGED enq

\* D15: ask() may raise UpdateFinishedTrialError when the trial it had listed as WAITING was claimed and finished by
\* another worker in between (study.py _pop_waiting_trial_id); nothing is handed out, nothing is lost.
AskRaced == Is("ask_raced") /\ UNCHANGED <<enq, handed, numOf>>

\* a look at the queue (Study.get_trials(states=(WAITING,))): exactly the queued trials not handed out yet
\* (logged by sequential programs only, where "at that moment" is unambiguous)
Peek == /\ Is("peek")
        /\ {Ev.tags[i] : i \in 1..Len(Ev.tags)} = {t \in DOMAIN enq : t \notin DOMAIN numOf \/ numOf[t] \notin handed}
        /\ UNCHANGED <<enq, handed, numOf>>

Suggest == /\ Is("suggest") /\ Ev.n \in handed
           /\ (Ev.tag # 0 /\ Ev.name \in DOMAIN enq[Ev.tag].fixed) => Ev.v = enq[Ev.tag].fixed[Ev.name]   \* verbatim
           /\ UNCHANGED <<enq, handed, numOf>>

Tell == Is("tell") /\ Ev.n \in handed /\ UNCHANGED <<enq, handed, numOf>>

Final == /\ Is("final")
         /\ Ev.waiting = <<>>                                             \* nothing is left in the queue ...
         /\ \A t \in DOMAIN enq : t \in DOMAIN numOf /\ numOf[t] \in handed  \* ... every queued trial was handed out
         /\ UNCHANGED <<enq, handed, numOf>>

Next == Enqueue \/ Enqueued \/ Peek \/ Ask \/ AskRaced \/ Suggest \/ Tell \/ Final
Spec == Init /\ [][Next]_vars
=================================================================================
