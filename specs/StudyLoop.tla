------------------------------ MODULE StudyLoop ------------------------------
(* C02: every trial run by optimize/ask/tell ends in a well-formed terminal state.                   *)
(*                                                                                                  *)
(* One call of Study.optimize(objective, n_trials = c.n, catch = ..., callbacks = [A, B],            *)
(* n_jobs = c.jobs) as a state machine.  What the objective does in one run is an abstract Outcome;  *)
(* the machine says what has to be true of the study afterwards, whatever the outcomes are.          *)
(*                                                                                                  *)
(*   c = [nobj, catch, n, jobs, pre]   nobj  number of objectives                                    *)
(*                                     catch 1 iff exception class E1 is listed in `catch`           *)
(*                                     n     n_trials, jobs n_jobs                                   *)
(*                                     pre   trials already in the study: "C" finished, "W" enqueued *)
(*                                           (WAITING), "R" RUNNING in somebody else's hands         *)
(*   Outcome o = [k, kind, stop, rep]  k = "ret": the objective returns a value of class `kind`      *)
(*                                     k = "raise": kind in E1, E2 (never listed in catch), KI       *)
(*                                     (KeyboardInterrupt), pruned (TrialPruned)                     *)
(*                                     stop = 1: study.stop() was called inside the objective        *)
(*                                     rep  = class of the last value given to trial.report          *)
(*                                                                                                  *)
(* Decisions taken from the property text ("COMPLETE exactly when the returned value(s) are          *)
(* float-convertible, NaN-free and one per objective, and its stored values are those floats"):      *)
(*  - a value is float-convertible iff float(v) returns; so '5', True, Decimal(5), numpy scalars and *)
(*    +-inf are; None, 'abc', 10**400 (OverflowError), objects without/with a raising __float__ not. *)
(*  - "value(s)": Study.tell documents `values` as "objective value or a sequence of such values";   *)
(*    a sequence (collections.abc.Sequence: list, tuple, range) is the list of per-objective values, *)
(*    anything else is ONE value.  Hence on a single-objective study [1.0] and (1.0,) are one value   *)
(*    per objective => COMPLETE 1.0; [] and [1.0, 2.0] are not => FAIL; on a 2-objective study a      *)
(*    scalar is one value for two objectives => FAIL.                                                *)
(*  - str and bytes are both a value and a Sequence.  Only inputs on which the two readings agree    *)
(*    are generated ('5': one value 5.0 either way), except b'5' where they differ (5.0 as a value,  *)
(*    53.0 as a sequence of ints): both stored values are admitted (kind "bytes").                   *)
EXTENDS Integers, Sequences, FiniteSets, TLC

VARIABLES trials,   \* <<[state, values, mine, prop]>>, index = trial number + 1
          i,        \* trials submitted by the loop of this call
          stop,     \* study.stop() has been called
          cbA, cbB, \* what callback A (scripted: may stop or raise) and callback B (listed after A) saw
          raised,   \* what escaped optimize: "none" or an exception token
          phase,    \* per worker
          done      \* optimize has returned or raised
loopvars == <<trials, i, stop, cbA, cbB, raised, phase, done>>

\* ------------------------------------------------------------------ outcomes and feasibility
ScalarOK  == {"float", "int", "bool", "numstr", "inf", "neginf", "neg", "bytes"}
ScalarBad == {"none", "nan", "badstr", "hugeint", "badobj", "hostile"}
ListOK    == {"list_ok", "list_numstr", "list_infs"}
ListBad   == {"list_short", "list_long", "list_nan_first", "list_nan_last", "list_badelem", "list_hugeint"}
RetKinds  == ScalarOK \cup ScalarBad \cup ListOK \cup ListBad
RaiseKinds == {"E1", "E2", "KI", "pruned"}
Reports   == {"none", "ok", "inf", "nan"}      \* last reported value: none, 3.0, inf, NaN

\* "float-convertible, NaN-free and one per objective"
Feasible(kind, nobj) == \/ kind \in ScalarOK /\ nobj = 1
                        \/ kind \in ListOK

ListVal == <<"1.0", "2.0", "3.0">>
\* "those floats" (repr of the Python float); a set where the property text leaves two readings
Floats(kind, nobj) ==
  CASE kind = "float"  -> {<<"1.5">>}
    [] kind = "int"    -> {<<"5.0">>}
    [] kind = "bool"   -> {<<"1.0">>}
    [] kind = "numstr" -> {<<"5.0">>}
    [] kind = "inf"    -> {<<"inf">>}
    [] kind = "neginf" -> {<<"-inf">>}
    [] kind = "neg"    -> {<<"-2.0">>}
    [] kind = "bytes"  -> {<<"5.0">>, <<"53.0">>}
    [] kind = "list_ok"     -> {[j \in 1..nobj |-> ListVal[j]]}
    [] kind = "list_numstr" -> {[j \in 1..nobj |-> IF j = nobj THEN "5.0" ELSE ListVal[j]]}
    [] kind = "list_infs"   -> {[j \in 1..nobj |-> IF j % 2 = 1 THEN "inf" ELSE "-inf"]}      \* infinities of both signs
    [] OTHER -> {}

NoValues == <<>>
ReportFloats(rep) == CASE rep = "ok" -> <<"3.0">> [] rep = "inf" -> <<"inf">> [] OTHER -> NoValues

NoOutcome == [k |-> "none", kind |-> "none", stop |-> 0, rep |-> "none"]
Outcome(k, kind, s, rep) == [k |-> k, kind |-> kind, stop |-> s, rep |-> rep]
\* trial.report is not available on multi-objective studies
WFOutcome(o, nobj) == /\ \/ o.k = "ret" /\ o.kind \in RetKinds
                         \/ o.k = "raise" /\ o.kind \in RaiseKinds
                      /\ o.stop \in {0, 1} /\ o.rep \in Reports
                      /\ nobj > 1 => o.rep = "none"

\* an exception not listed in catch (KeyboardInterrupt cannot be listed)
Propagates(o, catch) == o.k = "raise" /\ (o.kind \in {"E2", "KI"} \/ (o.kind = "E1" /\ catch = 0))

Finished(s) == s \in {"COMPLETE", "PRUNED", "FAIL"}

\* ------------------------------------------------------------------ tell(values, state) on a RUNNING trial
\* st = "None" is what optimize uses for a returned value; vk = "none" means values=None.
\* Result: set of admissible [reply, state, values]; reply "ok" or the documented error.
Tellable == {"None", "COMPLETE", "PRUNED", "FAIL"}
TellRunning(st, vk, rep, nobj) ==
  CASE st = "None" ->
         IF Feasible(vk, nobj) THEN {[reply |-> "ok", state |-> "COMPLETE", values |-> v] : v \in Floats(vk, nobj)}
                               ELSE {[reply |-> "ok", state |-> "FAIL", values |-> NoValues]}
    [] st = "COMPLETE" ->
         IF Feasible(vk, nobj) THEN {[reply |-> "ok", state |-> "COMPLETE", values |-> v] : v \in Floats(vk, nobj)}
                               ELSE {[reply |-> "ValueError", state |-> "RUNNING", values |-> NoValues]}
    [] st = "PRUNED" ->
         IF vk = "none" THEN {[reply |-> "ok", state |-> "PRUNED", values |-> ReportFloats(rep)]}
                        ELSE {[reply |-> "ValueError", state |-> "RUNNING", values |-> NoValues]}
    [] st = "FAIL" ->
         IF vk = "none" THEN {[reply |-> "ok", state |-> "FAIL", values |-> NoValues]}
                        ELSE {[reply |-> "ValueError", state |-> "RUNNING", values |-> NoValues]}
    [] OTHER -> {[reply |-> "ValueError", state |-> "RUNNING", values |-> NoValues]}

\* what the trial of an objective run with outcome o has to look like
Results(o, nobj) ==
  LET r == IF o.k = "ret" THEN TellRunning("None", o.kind, o.rep, nobj)
           ELSE IF o.kind = "pruned" THEN TellRunning("PRUNED", "none", o.rep, nobj)
           ELSE TellRunning("FAIL", "none", o.rep, nobj)
  IN {[state |-> x.state, values |-> x.values] : x \in r}

\* ------------------------------------------------------------------ the loop
Workers(c) == 1..c.jobs
Idle == [p |-> "idle", n |-> 0, o |-> NoOutcome, e |-> "none"]
Ph(p, n, o, e) == [p |-> p, n |-> n, o |-> o, e |-> e]

PreValues(nobj) == [j \in 1..nobj |-> "7.0"]
PreTrial(x, nobj) ==
  [state  |-> CASE x = "C" -> "COMPLETE" [] x = "W" -> "WAITING" [] OTHER -> "RUNNING",
   values |-> IF x = "C" THEN PreValues(nobj) ELSE NoValues, mine |-> 0, prop |-> "none"]

LoopInit(c) ==
  /\ trials = [k \in 1..Len(c.pre) |-> PreTrial(c.pre[k], c.nobj)]
  /\ i = 0 /\ stop = FALSE /\ cbA = <<>> /\ cbB = <<>> /\ raised = "none" /\ done = FALSE
  /\ phase = [w \in Workers(c) |-> Idle]

Min(S) == CHOOSE x \in S : \A y \in S : x <= y
Seen(n) == [n |-> n, state |-> trials[n].state, values |-> trials[n].values]

\* the submit loop hands one trial to a free worker
Submit(c, w) ==
  /\ ~done /\ raised = "none" /\ ~stop /\ i < c.n /\ phase[w].p = "idle"
  /\ i' = i + 1 /\ phase' = [phase EXCEPT ![w] = Ph("submitted", 0, NoOutcome, "none")]
  /\ UNCHANGED <<trials, stop, cbA, cbB, raised, done>>

\* study.ask(): an enqueued trial is claimed first, else a new trial is created.  sa = "raise": the sampler raises
\* while the Trial object is built (before_trial / infer_relative_search_space): the trial exists already, so it has
\* to be failed, and the error escapes.  With n_jobs > 1 a worker that finds the stop flag set runs nothing.
Waiting   == {k \in 1..Len(trials) : trials[k].state = "WAITING"}
NextTrial == IF Waiting # {} THEN Min(Waiting) ELSE Len(trials) + 1
Ask(c, w, sa) ==
  /\ phase[w].p = "submitted"
  /\ IF stop
       THEN phase' = [phase EXCEPT ![w] = Idle] /\ UNCHANGED trials
       ELSE LET n   == NextTrial
                new == [state |-> IF sa = "raise" THEN "FAIL" ELSE "RUNNING", values |-> NoValues, mine |-> 1,
                        prop |-> IF sa = "raise" THEN "SE" ELSE "none"]
            IN /\ trials' = IF Waiting # {} THEN [trials EXCEPT ![n] = new] ELSE Append(trials, new)
               /\ phase' = [phase EXCEPT ![w] = IF sa = "raise" THEN Ph("exc", n, NoOutcome, "SE")
                                                                ELSE Ph("asked", n, NoOutcome, "none")]
  /\ UNCHANGED <<i, stop, cbA, cbB, raised, done>>

\* the objective runs
Run(c, w, o) ==
  /\ phase[w].p = "asked" /\ WFOutcome(o, c.nobj)
  /\ phase' = [phase EXCEPT ![w] = Ph("ran", phase[w].n, o, "none")]
  /\ stop' = (stop \/ o.stop = 1)
  /\ UNCHANGED <<trials, i, cbA, cbB, raised, done>>

\* the trial is finished; sa = "raise": sampler.after_trial raises (the state is stored nevertheless)
Tell(c, w, sa) ==
  /\ phase[w].p = "ran"
  /\ LET n == phase[w].n
         o == phase[w].o
         Esc == (IF sa = "raise" THEN {"SE"} ELSE {}) \cup (IF Propagates(o, c.catch) THEN {o.kind} ELSE {})
     IN \E r \in Results(o, c.nobj) :
          IF Esc = {}
            THEN /\ trials' = [trials EXCEPT ![n].state = r.state, ![n].values = r.values]
                 /\ phase' = [phase EXCEPT ![w] = Ph("told", n, NoOutcome, "none")]
            ELSE \E e \in Esc :
                 /\ trials' = [trials EXCEPT ![n].state = r.state, ![n].values = r.values, ![n].prop = e]
                 /\ phase' = [phase EXCEPT ![w] = Ph("exc", n, NoOutcome, e)]
  /\ UNCHANGED <<i, stop, cbA, cbB, raised, done>>

\* callbacks [A, B] are invoked with the finished trial; A may call study.stop() or raise (then B may be skipped)
Callback(c, w, act) ==
  /\ phase[w].p = "told"
  /\ LET n == phase[w].n IN
     /\ cbA' = Append(cbA, Seen(n))
     /\ IF act = "raise"
          THEN /\ cbB' \in {cbB, Append(cbB, Seen(n))}
               /\ trials' = [trials EXCEPT ![n].prop = "CE"]
               /\ phase' = [phase EXCEPT ![w] = Ph("exc", n, NoOutcome, "CE")]
          ELSE /\ cbB' = Append(cbB, Seen(n))
               /\ phase' = [phase EXCEPT ![w] = Idle]
               /\ UNCHANGED trials
  /\ stop' = (stop \/ act = "stop")
  /\ UNCHANGED <<i, raised, done>>

\* n_jobs > 1: the submit loop sees a failed worker while other trials are still running
Notice(c, w) ==
  /\ c.jobs > 1 /\ ~done /\ raised = "none" /\ phase[w].p = "exc"
  /\ raised' = phase[w].e
  /\ phase' = [phase EXCEPT ![w].p = "dead"]
  /\ UNCHANGED <<trials, i, stop, cbA, cbB, done>>

\* optimize returns, or raises what escaped from a trial
Quiet(c)  == \A w \in Workers(c) : phase[w].p \in {"idle", "exc", "dead"}
Failed(c) == {w \in Workers(c) : phase[w].p = "exc"}
Finish(c) ==
  /\ ~done /\ Quiet(c)
  /\ stop \/ i = c.n \/ raised # "none" \/ Failed(c) # {}
  /\ done' = TRUE
  /\ IF raised = "none" /\ Failed(c) # {} THEN \E w \in Failed(c) : raised' = phase[w].e ELSE UNCHANGED raised
  /\ UNCHANGED <<trials, i, stop, cbA, cbB, phase>>

\* ------------------------------------------------------------------ properties (state part)
Mine == {n \in 1..Len(trials) : trials[n].mine = 1}
Count(log, n) == Cardinality({k \in 1..Len(log) : log[k].n = n})

NoRunningAtReturn == done => \A n \in Mine : Finished(trials[n].state)
FailHasNoValues   == \A n \in 1..Len(trials) : trials[n].state \in {"FAIL", "RUNNING", "WAITING"} => trials[n].values = NoValues
\* something escapes optimize exactly when something left a trial, and it is one of those exceptions
EscapedIsFromATrial ==
  done => /\ (raised # "none") <=> (\E n \in Mine : trials[n].prop # "none")
          /\ raised # "none" => \E n \in Mine : trials[n].prop = raised
CallbacksExactlyOnce ==
  done => \A n \in Mine :
            /\ Count(cbA, n) = (IF trials[n].prop \in {"none", "CE"} THEN 1 ELSE 0)
            /\ Count(cbB, n) <= Count(cbA, n)
            /\ trials[n].prop = "none" => Count(cbB, n) = 1
            /\ \A k \in 1..Len(cbA) : cbA[k].n = n => cbA[k] = Seen(n)       \* the callback got the finished trial
            /\ \A k \in 1..Len(cbB) : cbB[k].n = n => cbB[k] = Seen(n)
CallbacksOnlyMine == \A k \in 1..Len(cbA) : cbA[k].n \in Mine
\* exactly n_trials trials run when nothing stops the loop (no stop(), nothing escapes)
ExactlyNTrials(c) == /\ Cardinality(Mine) <= i /\ i <= c.n
                     /\ (done /\ ~stop /\ raised = "none") => Cardinality(Mine) = c.n
TypeOK(c) == /\ i \in 0..c.n /\ stop \in BOOLEAN /\ done \in BOOLEAN
             /\ \A n \in 1..Len(trials) : trials[n].state \in {"RUNNING", "WAITING", "COMPLETE", "PRUNED", "FAIL"}

\* ------------------------------------------------------------------ properties (step part)
\* tell never alters a finished trial
FinishedFrozen == \A n \in 1..Len(trials) :
                    Finished(trials[n].state) => trials'[n].state = trials[n].state /\ trials'[n].values = trials[n].values
\* trials this call did not start are not touched (an enqueued trial may be claimed)
ForeignUntouched == \A n \in 1..Len(trials) :
                      (trials[n].mine = 0 /\ trials[n].state # "WAITING") => trials'[n] = trials[n]
\* the step that finishes the trial of worker w
Finishing(w) == phase[w].p = "ran" /\ phase'[w].p # "ran"
CompleteIffFeasibleStep(c) ==
  \A w \in Workers(c) : Finishing(w) =>
    LET n == phase[w].n  o == phase[w].o IN
    /\ (trials'[n].state = "COMPLETE") <=> (o.k = "ret" /\ Feasible(o.kind, c.nobj))
    /\ (trials'[n].state = "PRUNED") <=> (o.k = "raise" /\ o.kind = "pruned")
    /\ Finished(trials'[n].state)
ValuesAreTheFloatsStep(c) ==
  \A w \in Workers(c) : Finishing(w) =>
    LET n == phase[w].n  o == phase[w].o IN
    /\ trials'[n].state = "COMPLETE" => trials'[n].values \in Floats(o.kind, c.nobj) /\ Len(trials'[n].values) = c.nobj
    /\ trials'[n].state = "PRUNED" => trials'[n].values = ReportFloats(o.rep)
    /\ trials'[n].state = "FAIL" => trials'[n].values = NoValues
UncaughtPropagatesAfterFailStep(c) ==
  \A w \in Workers(c) : Finishing(w) =>
    LET n == phase[w].n  o == phase[w].o IN
    /\ Propagates(o, c.catch) => trials'[n].state = "FAIL" /\ phase'[w].p = "exc" /\ trials'[n].prop # "none"
    /\ (o.k = "raise" /\ o.kind = "E1" /\ c.catch = 1) => trials'[n].state = "FAIL"
    /\ phase'[w].p = "exc" => phase'[w].e \in {"SE", o.kind}

\* ------------------------------------------------------------------ study.tell(trial, values, state, skip_if_finished)
\* e = [pre, post : [state, values], vk, st, skip, rep, reply]
\* Property level: a finished trial is never altered; a trial that tell finishes is well-formed; a tell without an
\* explicit state finishes the trial, COMPLETE exactly when the values are feasible.
TellPropOK(e, nobj) ==
  /\ Finished(e.pre.state) => e.post = e.pre
  /\ e.pre.state = "RUNNING" =>
       /\ e.post.state \in {"RUNNING", "COMPLETE", "PRUNED", "FAIL"}
       /\ e.post.state = "COMPLETE" => Feasible(e.vk, nobj) /\ e.post.values \in Floats(e.vk, nobj)
       /\ e.post.state \in {"FAIL", "RUNNING"} => e.post.values = NoValues
       /\ e.post.state = "PRUNED" => e.post.values = ReportFloats(e.rep)
       /\ e.st = "None" => e.post.state = (IF Feasible(e.vk, nobj) THEN "COMPLETE" ELSE "FAIL")
\* Algorithm level: the documented argument table (which combinations raise, which are skipped).  A deviation here
\* that keeps TellPropOK is drift, not a violation.
TellTableOK(e, nobj) ==
  CASE Finished(e.pre.state) -> e.reply = (IF e.skip = 1 THEN "ok" ELSE "ValueError")
    [] e.pre.state = "WAITING" -> e.reply = "ValueError" /\ e.post = e.pre
    [] OTHER -> \E r \in TellRunning(e.st, e.vk, e.rep, nobj) :
                  r.reply = e.reply /\ r.state = e.post.state /\ r.values = e.post.values
==============================================================================
