SPECIFICATION Spec
CONSTANTS Names = {a, b}  Dists = {d1, d2}  MaxTrials = 2  MaxCalc = 2  IPs = {FALSE}  Variant = "waiting"
SYMMETRY Sym
PROPERTY IncrementalEqualsScratch
CHECK_DEADLOCK FALSE
