------------------------------ MODULE GridTrace ------------------------------
(* Conformance of the real GridSampler + Study.optimize with Grid.tla.                               *)
(* One trace = one study: Trace.dims = <<n1, ..., nd>> (number of grid values per parameter) and the  *)
(* events observed through the public API:                                                           *)
(*   [op |-> "enqueue"]            study.enqueue_trial(<a full combination>)                          *)
(*   [op |-> "optimize", cap]      study.optimize(objective, n_trials=cap, catch=...)                 *)
(*   [op |-> "start", enq]         the objective was entered; enq = 1 iff the trial carries the user's *)
(*                                 fixed parameters                                                   *)
(*   [op |-> "cell", c]            the combination the trial received, as a tuple of value indices    *)
(*   [op |-> "finish", st]         the trial was recorded with state st                               *)
(*   [op |-> "return", ran] / [op |-> "interrupt", ran] / [op |-> "raise", ...] / [op |-> "end"]      *)
(*                                 as in BruteForceTrace                                              *)
EXTENDS Grid, TraceBase

VARIABLE tran
tvars == <<vars, tix, l, tran>>

Init == /\ TraceInitBase
        /\ InitFor(Product(Traces[tix].dims))
        /\ tran = 0

TEnqueue   == Consume /\ Ev.op = "enqueue" /\ Enqueue /\ UNCHANGED tran
TOptimize  == Consume /\ Ev.op = "optimize" /\ Optimize(Ev.cap) /\ tran' = 0
TStart     == Consume /\ Ev.op = "start" /\ StartTrial(Ev.enq = 1) /\ tran' = tran + 1
TAssign    == Consume /\ Ev.op = "cell" /\ Assign(Ev.c) /\ UNCHANGED tran
TFinish    == Consume /\ Ev.op = "finish" /\ Finish(Ev.st) /\ UNCHANGED tran
TReturnSelf == Consume /\ Ev.op = "return" /\ Ev.ran = tran /\ ReturnSelf /\ UNCHANGED tran
TReturnCap == Consume /\ Ev.op = "return" /\ Ev.ran = tran /\ ReturnCap /\ UNCHANGED tran
TInterrupt == Consume /\ Ev.op = "interrupt" /\ Ev.ran = tran /\ Interrupt /\ UNCHANGED tran
TEnd       == Consume /\ Ev.op = "end" /\ Stopped /\ UNCHANGED <<vars, tran>>

Next == TEnqueue \/ TOptimize \/ TStart \/ TAssign \/ TFinish \/ TReturnSelf \/ TReturnCap \/ TInterrupt \/ TEnd
Spec == Init /\ [][Next]_tvars
==============================================================================
