-------------------------------- MODULE WaitQueue --------------------------------
(* C04: a queued trial (enqueue_trial, add_trial(WAITING), a retry) is handed to exactly one ask()    *)
(* however many workers ask concurrently, none is skipped while workers keep asking, and the worker   *)
(* that gets it receives the enqueued parameter values.                                               *)
(*                                                                                                  *)
(* Algorithm level (Study.ask -> _pop_waiting_trial_id): a worker LISTS the WAITING trials (a snapshot *)
(* of the storage), then tries to CLAIM them one after the other with the storage's compare-and-set     *)
(* set_trial_state_values(RUNNING); if none could be claimed it CREATES a fresh RUNNING trial.          *)
(* AtomicCAS = TRUE is the compare-and-set of the contract; FALSE models SQLite, where the read and the *)
(* write of the compare-and-set are separate statements of different connections (recorded finding K1). *)
(* The in-memory storage serves the listing from a cursor (prevWaiting); CursorOK is its invariant.     *)
EXTENDS Integers, Sequences, FiniteSets, TLC
CONSTANTS Workers, MaxTrials, MaxAsks, AtomicCAS,
          CursorPlusOne     \* FALSE = the code; TRUE = a deliberately wrong cursor (negative test of the model)

VARIABLES state,      \* trial number (1-based position) -> "WAITING" | "RUNNING" | "COMPLETE"
          queued,     \* set of trials that were put in the queue
          got,        \* trial -> set of <<worker, ask no>> that were handed this trial by ask()
          pc, lst, seen, asks, cursor
vars == <<state, queued, got, pc, lst, seen, asks, cursor>>

N == Len(state)
Waiting == {t \in 1..N : state[t] = "WAITING"}

Init == /\ state = <<>> /\ queued = {} /\ got = <<>>
        /\ pc = [w \in Workers |-> "idle"] /\ lst = [w \in Workers |-> <<>>] /\ seen = [w \in Workers |-> "none"]
        /\ asks = [w \in Workers |-> 0] /\ cursor = 1

Enqueue ==                      \* enqueue_trial / add_trial(WAITING) / a retry
  /\ N < MaxTrials
  /\ state' = Append(state, "WAITING") /\ queued' = queued \cup {N + 1} /\ got' = Append(got, {})
  /\ UNCHANGED <<pc, lst, seen, asks, cursor>>

RECURSIVE SeqOf(_)
SeqOf(S) == IF S = {} THEN <<>> ELSE LET m == CHOOSE x \in S : \A y \in S : x <= y IN <<m>> \o SeqOf(S \ {m})

ListWaiting(w) ==               \* get_all_trials(states=(WAITING,)): a snapshot; the in-memory cursor moves
  /\ pc[w] = "idle" /\ asks[w] < MaxAsks
  /\ lst' = [lst EXCEPT ![w] = SeqOf({t \in Waiting : t >= cursor})]
  /\ cursor' = IF {t \in Waiting : t >= cursor} = {} THEN N + 1 ELSE (CHOOSE t \in Waiting : t >= cursor /\ \A u \in Waiting : u >= cursor => t <= u) + (IF CursorPlusOne THEN 1 ELSE 0)
  /\ pc' = [pc EXCEPT ![w] = "claim"] /\ asks' = [asks EXCEPT ![w] = @ + 1]
  /\ UNCHANGED <<state, queued, got, seen>>

Hand(w, t) == got' = [got EXCEPT ![t] = @ \cup {<<w, asks[w]>>}]

ClaimAtomic(w) ==               \* set_trial_state_values(t, RUNNING): compare-and-set in one step
  /\ AtomicCAS /\ pc[w] = "claim" /\ lst[w] # <<>>
  /\ LET t == Head(lst[w]) IN
       IF state[t] = "WAITING"
         THEN state' = [state EXCEPT ![t] = "RUNNING"] /\ Hand(w, t) /\ pc' = [pc EXCEPT ![w] = "run"] /\ UNCHANGED lst
         ELSE lst' = [lst EXCEPT ![w] = Tail(@)] /\ UNCHANGED <<state, got, pc>>
  /\ UNCHANGED <<queued, seen, asks, cursor>>

ClaimRead(w) ==                 \* SQLite: SELECT state (autocommit, no lock)
  /\ ~AtomicCAS /\ pc[w] = "claim" /\ lst[w] # <<>>
  /\ seen' = [seen EXCEPT ![w] = state[Head(lst[w])]] /\ pc' = [pc EXCEPT ![w] = "write"]
  /\ UNCHANGED <<state, queued, got, lst, asks, cursor>>
ClaimWrite(w) ==                \* SQLite: UPDATE state = RUNNING, decided on what was read before
  /\ ~AtomicCAS /\ pc[w] = "write"
  /\ LET t == Head(lst[w]) IN
       IF seen[w] = "WAITING"
         THEN state' = [state EXCEPT ![t] = "RUNNING"] /\ Hand(w, t) /\ pc' = [pc EXCEPT ![w] = "run"] /\ UNCHANGED lst
         ELSE lst' = [lst EXCEPT ![w] = Tail(@)] /\ pc' = [pc EXCEPT ![w] = "claim"] /\ UNCHANGED <<state, got>>
  /\ UNCHANGED <<queued, seen, asks, cursor>>

CreateNew(w) ==                 \* nothing could be claimed: create_new_trial
  /\ pc[w] = "claim" /\ lst[w] = <<>> /\ N < MaxTrials
  /\ state' = Append(state, "RUNNING") /\ got' = Append(got, {<<w, asks[w]>>})
  /\ pc' = [pc EXCEPT ![w] = "run"]
  /\ UNCHANGED <<queued, lst, seen, asks, cursor>>

Finish(w) ==                    \* tell: the trial this worker runs completes
  /\ pc[w] = "run"
  /\ \E t \in 1..N : \E a \in got[t] : a[1] = w /\ a[2] = asks[w] /\ state[t] = "RUNNING"
                     /\ state' = [state EXCEPT ![t] = "COMPLETE"]
  /\ pc' = [pc EXCEPT ![w] = "idle"]
  /\ UNCHANGED <<queued, got, lst, seen, asks, cursor>>

Next == Enqueue \/ \E w \in Workers : ListWaiting(w) \/ ClaimAtomic(w) \/ ClaimRead(w) \/ ClaimWrite(w) \/ CreateNew(w) \/ Finish(w)
Spec == Init /\ [][Next]_vars
FairSpec == Spec /\ \A w \in Workers : WF_vars(ListWaiting(w) \/ ClaimAtomic(w) \/ CreateNew(w) \/ Finish(w))

ClaimedAtMostOnce == \A t \in 1..N : Cardinality(got[t]) <= 1
CursorOK          == \A t \in Waiting : t >= cursor          \* the in-memory cursor never passes a WAITING trial
OnlyQueuedOrNew   == \A t \in 1..N : got[t] # {} => state[t] # "WAITING"
\* none is skipped: every listing offers every trial that is WAITING at that moment ...
NoSkipAtList == [][\A w \in Workers : (pc[w] = "idle" /\ pc'[w] = "claim") =>
                      \A t \in Waiting : \E i \in 1..Len(lst'[w]) : lst'[w][i] = t]_vars
\* ... and a worker that found WAITING trials leaves with one of them unless all were taken by others meanwhile
CreateOnlyIfNoneLeft == [][\A w \in Workers : (pc[w] = "claim" /\ pc'[w] = "run" /\ Len(state') > Len(state)) =>
                             lst[w] = <<>>]_vars
\* under fairness every worker's ask terminates with a trial
AskTerminates == \A w \in Workers : [](pc[w] = "claim" => <>(pc[w] = "run" \/ Len(state) = MaxTrials))
==================================================================================
