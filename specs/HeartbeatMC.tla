------------------------------- MODULE HeartbeatMC -------------------------------
EXTENDS Heartbeat
\* initial trials: every heartbeat/state pattern that matters
MCInit == << [state |-> "RUNNING", beat |-> "stale"], [state |-> "RUNNING", beat |-> "stale"],
             [state |-> "RUNNING", beat |-> "fresh"], [state |-> "RUNNING", beat |-> "none"],
             [state |-> "COMPLETE", beat |-> "stale"] >>
==================================================================================
