SPECIFICATION Spec
CONSTANTS Dim = 2  MaxN = 2  MaxC = 2  WithInf = TRUE
INVARIANT RankZeroIsFront
INVARIANT RankRespectsDom
INVARIANT RankHasWitness
INVARIANT HVOfFront
INVARIANT HVMonotone
INVARIANT HVSubmodular
INVARIANT GreedyMeetsBound
INVARIANT SweepEqualsCells
CHECK_DEADLOCK FALSE
