SPECIFICATION Spec
CONSTANTS
  MaxN = 3
  Jobs = {2}
  Kinds = {"float", "none"}
  WithPre = FALSE
  RepKinds = {"pruned"}
  Misbehave = TRUE
  AskMisbehave = FALSE
  Swallow = FALSE
INVARIANT Inv
PROPERTY TellNeverAltersFinished
PROPERTY OthersUntouched
PROPERTY CompleteIffFeasible
PROPERTY ValuesAreTheFloats
PROPERTY UncaughtPropagatesAfterFail
PROPERTY ReturnIsFinal
CHECK_DEADLOCK TRUE
