SPECIFICATION Spec
CONSTANTS Writers = {1, 2, 3} Readers = {4} NAppends = 1 NChunks = 1 NReads = 1 AllowCrash = TRUE AllowTakeover = TRUE DropTornTail = TRUE
INVARIANT K4Unreachable
CHECK_DEADLOCK FALSE
