SPECIFICATION Spec
CONSTANTS MaxS = 2  MaxT = 2  MaxCalls = 3  MaxReads = 2  Sim = FALSE  Rich = TRUE
VIEW View
INVARIANT Inv
INVARIANT ReadFormulationsAgree
INVARIANT HandlesWellFormed
PROPERTY HandlesNeverChange
CHECK_DEADLOCK FALSE
