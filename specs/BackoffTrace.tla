------------------------------ MODULE BackoffTrace ------------------------------
(* One event per recorded call of the real Backoff middleware over a scripted backend:              *)
(*   [op, script (outcome of the i-th backend attempt), attempts, sleeps (schedule indices), result] *)
(* The spec runs the call on the same script; the event is consumed when the spec's call is done and *)
(* agrees with the recorded number of attempts, sleep schedule and result.                            *)
EXTENDS Backoff, TraceBase

tvars == <<tix, l, op, script, i, attempts, sleeps, result>>
TInit == /\ TraceInitBase /\ op = Events[1].op /\ script = Events[1].script
         /\ i = 0 /\ attempts = 0 /\ sleeps = <<>> /\ result = "running"
TStep == Attempt /\ UNCHANGED <<tix, l>>
TDone == /\ Done /\ Consume /\ Ev.attempts = attempts /\ Ev.sleeps = sleeps /\ Ev.result = result
         /\ UNCHANGED <<op, script, i, attempts, sleeps, result>>
TSpec == TInit /\ [][TStep \/ TDone]_tvars
=================================================================================
