SPECIFICATION Spec
CONSTANTS Family = "pat"  MaxTrials = 1  MaxStep = 5  MaxVal = 2  MaxReports = 6  WithNaN = TRUE
          FinishStates = {"COMPLETE"}
INVARIANT AlgoWithinEnvelope
INVARIANT EnvelopeSatisfiable
INVARIANT CheckStepIsCode
INVARIANT NopNeverPrunes
CHECK_DEADLOCK FALSE
