SPECIFICATION Spec
CONSTANTS Workers = {1, 2} MaxLog = 4 EagerCursor = TRUE
INVARIANT StateIsFold
INVARIANT Converge
INVARIANT FoldIsSound
PROPERTY IssuerOnlyErrors
PROPERTY CursorMonotone
CHECK_DEADLOCK FALSE
