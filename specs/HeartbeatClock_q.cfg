SPECIFICATION Spec
CONSTANTS Trials = {1, 2} Interval = 2 Grace = 4 MaxDelay = 2 MaxNow = 9 StrictOlder = TRUE
PROPERTY LiveNeverFailed
INVARIANT NoHeartbeatNeverFailed
PROPERTY DeadFailedOnlyWhenOlder
PROPERTY DeadOlderIsSwept
CHECK_DEADLOCK FALSE
