SPECIFICATION SimSpec
CONSTANTS Names = {"a", "b", "c"}  Dists = {"d1", "d2", "d3"}  MaxTrials = 6  MaxCalc = 0  IPs = {FALSE}  Variant = "ok"
CHECK_DEADLOCK FALSE
