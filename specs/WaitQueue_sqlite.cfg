SPECIFICATION Spec
CONSTANTS Workers = {1, 2} MaxTrials = 2 MaxAsks = 1 AtomicCAS = FALSE CursorPlusOne = FALSE
INVARIANT ClaimedAtMostOnce
CHECK_DEADLOCK FALSE
