SPECIFICATION Spec
CONSTANTS Dim = 1  MaxN = 5  MaxV = 3
INVARIANT SingleObjective
CHECK_DEADLOCK FALSE
