------------------------------- MODULE JournalLog -------------------------------
(* Property-level view of the journal file (C05, C07): what the FILE and the LOCK FILE must look    *)
(* like, and what a read may return, independent of how the code gets there.                        *)
(*                                                                                                  *)
(* The file is a sequence of pieces; a piece [r, a, b, n] is bytes a..b-1 of the encoded record r   *)
(* whose encoding (newline included) is n bytes long, so b = n means "this piece ends the line".    *)
(* Writes are delivered in arbitrary chunks, so a record is 1..n pieces.                            *)
EXTENDS Integers, Sequences, FiniteSets, TLC

Terminates(p) == p.b = p.n

RECURSIVE LineEnd(_, _)
LineEnd(f, i) == IF i > Len(f) THEN Len(f) ELSE IF Terminates(f[i]) THEN i ELSE LineEnd(f, i + 1)

RECURSIVE Lines(_, _)
Lines(f, i) == IF i > Len(f) THEN <<>> ELSE LET e == LineEnd(f, i) IN <<SubSeq(f, i, e)>> \o Lines(f, e + 1)
AllLines(f) == Lines(f, 1)

Terminated(ln) == Terminates(ln[Len(ln)])
\* a whole record: its pieces, in order, nothing missing, nothing foreign
GoodLine(ln) == /\ ln[1].a = 0
                /\ \A i \in 1..Len(ln) : ln[i].r = ln[1].r /\ ln[i].n = ln[1].n
                /\ \A i \in 1..(Len(ln) - 1) : ln[i + 1].a = ln[i].b
                /\ Terminated(ln)

RECURSIVE BytesOf(_)
BytesOf(ln) == IF ln = <<>> THEN 0 ELSE (ln[1].b - ln[1].a) + BytesOf(Tail(ln))

\* the records a correct reader can see: the leading run of good lines
RECURSIVE GoodPrefix(_)
GoodPrefix(ls) == IF ls = <<>> \/ ~GoodLine(ls[1]) THEN <<>> ELSE <<ls[1][1].r>> \o GoodPrefix(Tail(ls))
Records(f) == GoodPrefix(AllLines(f))

\* "records never interleave, duplicate ...": every newline-terminated line is one whole record and no
\* record occurs twice; only the last line may be unterminated (a write in progress, or torn by a crash).
LogIntact(f) ==
  LET ls == AllLines(f) IN
  /\ \A i \in 1..Len(ls) : Terminated(ls[i]) => GoodLine(ls[i])
  /\ \A i \in 1..Len(ls) : ~Terminated(ls[i]) => i = Len(ls)
  /\ \A i, j \in 1..Len(ls) : (i # j /\ Terminated(ls[i]) /\ Terminated(ls[j])) => ls[i][1].r # ls[j][1].r

PosOf(recs, r) == CHOOSE i \in 1..Len(recs) : recs[i] = r
Occurs(recs, r) == \E i \in 1..Len(recs) : recs[i] = r

\* an acknowledged append: its records are whole lines, consecutive, in the order given, and after every
\* record whose append had been acknowledged before this append began
AppendVisible(f, recs, before) ==
  LET R == Records(f) IN
  /\ \A i \in 1..Len(recs) : Occurs(R, recs[i])
  /\ \A i \in 1..(Len(recs) - 1) : PosOf(R, recs[i + 1]) = PosOf(R, recs[i]) + 1
  /\ \A b \in before : Occurs(R, b) /\ (recs # <<>> => PosOf(R, b) < PosOf(R, recs[1]))

\* a read from record number `from` (0-based count of records already consumed) that returned `out`
ReadSound(f, from, out, ackedBefore) ==
  LET R == Records(f) IN
  /\ from + Len(out) <= Len(R)
  /\ out = SubSeq(R, from + 1, from + Len(out))                       \* exactly k..m, in order, no partial record
  /\ \A b \in ackedBefore : Occurs(R, b) /\ PosOf(R, b) <= from + Len(out)   \* covers every append finished before

\* a cached read position: record number n starts at byte off
RECURSIVE SumBytes(_, _)
SumBytes(ls, n) == IF n = 0 THEN 0 ELSE SumBytes(ls, n - 1) + BytesOf(ls[n])
CacheExact(f, cache) ==          \* cache: sequence of <<n, off>>
  LET ls == AllLines(f) IN
  \A i \in 1..Len(cache) :
     LET n == cache[i][1]  off == cache[i][2] IN
     /\ n <= Len(ls) /\ off = SumBytes(ls, n)
     /\ \A j \in 1..n : Terminated(ls[j])

\* cut the file to `size` bytes (truncate): whole pieces are kept, a straddling piece is shortened
RECURSIVE CutTo(_, _)
CutTo(f, size) ==
  IF f = <<>> \/ size <= 0 THEN <<>>
  ELSE LET p == f[1]  len == p.b - p.a IN
       IF len <= size THEN <<p>> \o CutTo(Tail(f), size - len)
       ELSE <<[p EXCEPT !.b = p.a + size]>>
=================================================================================
