-------------------------------- MODULE CacheSync --------------------------------
(* C08: the client-side trial caches (_CachedStorage over RDBStorage, GrpcClientCache of the proxy)  *)
(* never serve a view that differs from the backend.                                                 *)
(*                                                                                                  *)
(* Backend (one database shared by all clients): trials with a global id, a study, a number, a       *)
(* finished flag and a version bumped by every write; ids grow with creation; finished trials are    *)
(* frozen (Storage contract).  Per client and study the cache keeps                                  *)
(*   cached : number -> [id, ver, fin]   unf : set of unfinished ids   wm : highest finished id seen  *)
(* Actions follow _cached_storage.py one critical section each:                                      *)
(*   Create(c, s, f)   backend insert, then the cache update of create_new_trial                     *)
(*   Write(t, f)       any client (cached, proxied or raw) writes an unfinished trial (pass-through)  *)
(*   Fetch(c, s)       _read_trials_from_remote_storage: backend query  id \in unf \/ id > wm, merge  *)
(*   ReadAll(c, s)     get_all_trials = Fetch + serve from cache: judged against the backend          *)
(*   ReadOne(c, t)     get_trial: cache if known and finished, else backend                           *)
(* FixCreate = FALSE is the pre-repair create_new_trial (watermark advanced by a finished template)   *)
(* PointReadCaches = TRUE is a get_trial that, on a miss of a finished trial whose id the cache knows, *)
(* keeps the row and advances the watermark to it "like the bulk reader does" (negative instance:     *)
(* one row proves nothing about smaller ids; only a complete snapshot may move the watermark)         *)
EXTENDS Integers, FiniteSets, TLC
CONSTANTS Clients, Studies, MaxTrials, FixCreate, PointReadCaches

VARIABLES trials,                  \* backend: id -> [s, num, fin, ver]
          cached, unf, wm,         \* per client, per study
          bad                      \* a read differed from the backend
vars == <<trials, cached, unf, wm, bad>>

Ids == DOMAIN trials
IdsOf(s) == {t \in Ids : trials[t].s = s}
Upd(f, k, v) == [x \in DOMAIN f \cup {k} |-> IF x = k THEN v ELSE f[x]]
Max(S) == CHOOSE x \in S : \A y \in S : y <= x
Snap(t) == [id |-> t, ver |-> trials[t].ver, fin |-> trials[t].fin]

Init == /\ trials = <<>>
        /\ cached = [c \in Clients |-> [s \in Studies |-> <<>>]]
        /\ unf = [c \in Clients |-> [s \in Studies |-> {}]]
        /\ wm = [c \in Clients |-> [s \in Studies |-> -1]]
        /\ bad = {}

Create(c, s, f) ==
  LET id == Cardinality(Ids)  num == Cardinality(IdsOf(s)) IN
  /\ id < MaxTrials
  /\ trials' = Upd(trials, id, [s |-> s, num |-> num, fin |-> f, ver |-> 0])
  /\ cached' = [cached EXCEPT ![c][s] = Upd(@, num, [id |-> id, ver |-> 0, fin |-> f])]
  /\ IF f THEN wm' = [wm EXCEPT ![c][s] = IF FixCreate THEN @ ELSE Max({@, id})] /\ UNCHANGED unf
          ELSE unf' = [unf EXCEPT ![c][s] = @ \cup {id}] /\ UNCHANGED wm
  /\ UNCHANGED bad

Write(t, f) ==
  /\ t \in Ids /\ ~trials[t].fin /\ trials[t].ver < 2
  /\ trials' = [trials EXCEPT ![t].ver = @ + 1, ![t].fin = f]
  /\ UNCHANGED <<cached, unf, wm, bad>>

Got(c, s) == {t \in IdsOf(s) : t \in unf[c][s] \/ t > wm[c][s]}
Merged(c, s) == LET got == Got(c, s)
                    nums == DOMAIN cached[c][s] \cup {trials[t].num : t \in got} IN
                [n \in nums |-> IF \E t \in got : trials[t].num = n
                                  THEN Snap(CHOOSE t \in got : trials[t].num = n) ELSE cached[c][s][n]]
FetchEffect(c, s) ==
  LET got == Got(c, s) IN
  /\ cached' = [cached EXCEPT ![c][s] = Merged(c, s)]
  /\ unf' = [unf EXCEPT ![c][s] = (@ \cup {t \in got : ~trials[t].fin}) \ {t \in got : trials[t].fin}]
  /\ wm'  = [wm EXCEPT ![c][s] = Max({@} \cup {t \in got : trials[t].fin})]

BackendView(s) == [n \in {trials[t].num : t \in IdsOf(s)} |-> Snap(CHOOSE t \in IdsOf(s) : trials[t].num = n)]

ReadAll(c, s) ==
  /\ FetchEffect(c, s)
  /\ bad' = bad \cup (IF Merged(c, s) = BackendView(s) THEN {} ELSE {<<"get_all_trials", c, s>>})
  /\ UNCHANGED trials

ReadOne(c, t) ==
  /\ t \in Ids
  /\ LET s == trials[t].s  n == trials[t].num
         idknown == n \in DOMAIN cached[c][s] /\ cached[c][s][n].id = t
         known == idknown /\ t \notin unf[c][s]
         keep == PointReadCaches /\ idknown /\ ~known /\ trials[t].fin IN
     /\ bad' = bad \cup (IF known /\ cached[c][s][n] # Snap(t) THEN {<<"get_trial", c, t>>} ELSE {})
     /\ IF keep THEN /\ cached' = [cached EXCEPT ![c][s] = Upd(@, n, Snap(t))]
                     /\ unf' = [unf EXCEPT ![c][s] = @ \ {t}]
                     /\ wm' = [wm EXCEPT ![c][s] = Max({@, t})]
               ELSE UNCHANGED <<cached, unf, wm>>
  /\ UNCHANGED trials

Next == \/ \E c \in Clients, s \in Studies, f \in BOOLEAN : Create(c, s, f)
        \/ \E t \in 0..(MaxTrials - 1), f \in BOOLEAN : Write(t, f)
        \/ \E c \in Clients, s \in Studies : ReadAll(c, s)
        \/ \E c \in Clients, t \in 0..(MaxTrials - 1) : ReadOne(c, t)
Spec == Init /\ [][Next]_vars

ViewEqualsBackend == bad = {}
\* finished entries of a cache are never stale; the watermark never exceeds what was really seen finished
FinishedNeverStale == \A c \in Clients, s \in Studies : \A n \in DOMAIN cached[c][s] :
                         cached[c][s][n].fin => cached[c][s][n] = Snap(cached[c][s][n].id)
UnfIsUnfinishedInCache == \A c \in Clients, s \in Studies : \A t \in unf[c][s] :
                         \E n \in DOMAIN cached[c][s] : cached[c][s][n].id = t /\ ~cached[c][s][n].fin
\* everything at or below a watermark has been seen by that cache (what makes  id > wm  a complete query)
WatermarkSound == \A c \in Clients, s \in Studies : \A t \in IdsOf(s) :
                         t <= wm[c][s] => \E n \in DOMAIN cached[c][s] : cached[c][s][n].id = t
==================================================================================
