-------------------------------- MODULE Handles --------------------------------
(* C20 — objects read from a study are snapshots: later writes never change them.                   *)
(*                                                                                                  *)
(* The Storage contract (module Storage: pure operators on the abstract state st) is extended with   *)
(* the objects a client holds on to.  A read through any getter hands out a *handle*; its value is  *)
(* the abstract value the contract defines for that getter in the state of the read.  The property  *)
(* is the frame condition HandlesNeverChange: whatever is written afterwards, by whomever, every    *)
(* handle keeps the value it had when it was handed out.  In TLA+ this is a theorem (values are     *)
(* immutable; the write actions do not mention `handles`); it is model-checked in HandlesMC so that *)
(* the trace specification HandlesTrace is known to be satisfiable with every action taken.  The    *)
(* force of the check is the binding: HandlesTrace replays a real call history in this spec and     *)
(* requires (1) the real object's projection at read time to be the value defined here and (2) its  *)
(* re-projection after every later write to be that same value.                                     *)
(*                                                                                                  *)
(* Abstract getter kinds g with target x = [s, t, f, states] (unused fields are 0 / "-" / <<>>):    *)
(*   "trial"   one FrozenTrial                    storage.get_trial, Study.tell result, callback arg *)
(*   "trials"  the trials of study s in `states`   get_all_trials(deepcopy=T/F), Study.trials, ...    *)
(*   "studies" all FrozenStudy objects             get_all_studies                                    *)
(*   "sattr"   attribute dict f of study s         Study.user_attrs/system_attrs, get_study_*_attrs   *)
(*   "tattr"   dict f of trial t (ua, sa, params)  Trial.params/user_attrs, get_trial_params/...      *)
(*   "best"    a best trial of study s             get_best_trial                                     *)
(*   "sbest"   Study.best_trial: with constraints it is documented to fall back to the best feasible*)
(*             trial; which COMPLETE trial it picks is C12's business — any COMPLETE trial of s,    *)
(*             with its true fields.                                                                *)
(*   "pareto"  Study.best_trials: which COMPLETE trials are on the front is not this property's     *)
(*             business (C12/C15) — any selection of COMPLETE trials, each with its true fields.    *)
EXTENDS Storage

VARIABLES st,        \* abstract storage state (module Storage)
          handles    \* sequence of [g, x, v]: getter kind, target, abstract value at read time

Tgt(s, t, f, states) == [s |-> s, t |-> t, f |-> f, states |-> states]

SeqRange(q) == {q[i] : i \in 1..Len(q)}

\* v is an admissible value of getter g with target x in state S
ReadOK(S, g, x, v) ==
  CASE g = "trial"   -> LiveT(S, x.t) /\ v = ProjTrial(S, x.t)
    [] g = "trials"  -> LiveS(S, x.s) /\ v = TrialsOf(S, x.s, x.states)
    [] g = "studies" -> v = AllStudies(S)
    [] g = "sattr"   -> LiveS(S, x.s) /\ x.f \in {"ua", "sa"} /\ v = S.studies[x.s][x.f]
    [] g = "tattr"   -> LiveT(S, x.t) /\ x.f \in {"ua", "sa", "params"} /\ v = S.trials[x.t][x.f]
    [] g = "best"    -> BestTrialOK(S, x.s, Ok(v))
    [] g = "sbest"   -> LiveS(S, x.s) /\ v \in SeqRange(TrialsOf(S, x.s, <<"COMPLETE">>))
    [] g = "pareto"  -> /\ LiveS(S, x.s)
                        /\ LET full == TrialsOf(S, x.s, <<"COMPLETE">>) IN
                             /\ \A i \in 1..Len(v) : v[i] \in SeqRange(full)
                             /\ \A i, j \in 1..Len(v) : i # j => v[i].id # v[j].id
    [] OTHER         -> FALSE

\* the same as a finite set (for model checking); the two are checked against each other in HandlesMC
ReadVals(S, g, x) ==
  CASE g = "trial"   -> IF LiveT(S, x.t) THEN {ProjTrial(S, x.t)} ELSE {}
    [] g = "trials"  -> IF LiveS(S, x.s) THEN {TrialsOf(S, x.s, x.states)} ELSE {}
    [] g = "studies" -> {AllStudies(S)}
    [] g = "sattr"   -> IF LiveS(S, x.s) THEN {S.studies[x.s][x.f]} ELSE {}
    [] g = "tattr"   -> IF LiveT(S, x.t) THEN {S.trials[x.t][x.f]} ELSE {}
    [] g = "best"    -> {ProjTrial(S, t) : t \in {u \in LiveTrialIds(S) : BestTrialOK(S, x.s, Ok(ProjTrial(S, u)))}}
    [] g = "sbest"   -> IF LiveS(S, x.s) THEN SeqRange(TrialsOf(S, x.s, <<"COMPLETE">>)) ELSE {}
    [] g = "pareto"  -> IF LiveS(S, x.s)
                        THEN LET full == TrialsOf(S, x.s, <<"COMPLETE">>) IN
                             {[k \in 1..Cardinality(I) |-> full[SeqOfSet(I)[k]]] : I \in SUBSET (1..Len(full))}
                        ELSE {}
    [] OTHER         -> {}

\* ------------------------------------------------------------------------------ actions
Read(g, x, v) ==
  /\ ReadOK(st, g, x, v)
  /\ handles' = Append(handles, [g |-> g, x |-> x, v |-> v])
  /\ UNCHANGED st

\* any call of the storage contract, r = Do<Call>(st, args): the handles are not touched
Write(r) == st' = r.st /\ UNCHANGED handles

\* ------------------------------------------------------------------------------ the property
HandlesNeverChange ==
  [][/\ Len(handles') >= Len(handles)
     /\ \A i \in 1..Len(handles) : handles'[i] = handles[i]]_<<st, handles>>

\* non-vacuity: a handle may well differ from what the same getter would return now (it is a snapshot, not a view)
Stale(S, h) == ~ReadOK(S, h.g, h.x, h.v)
================================================================================
