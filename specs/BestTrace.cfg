SPECIFICATION Spec
CONSTANTS MaxDim = 4  MaxTrials = 8  MaxCoord = 9
INVARIANT Report
CHECK_DEADLOCK FALSE
