SPECIFICATION Spec
INVARIANT ReportC20
INVARIANT Inv
PROPERTY HandlesKept
CHECK_DEADLOCK FALSE
