----------------------------- MODULE FunctionalMC -----------------------------
(* Exhaustive tiny instance of Functional: two runs of at most MaxEv events each, where the "real    *)
(* code" is completely arbitrary (every answer from a two-value alphabet, arbitrary trial ids, either  *)
(* direction sign per run).  `log` keeps the RAW events of both runs (with ids, un-normalised values); *)
(* the lemma relates acceptance by Functional to those raw logs:                                      *)
(*                                                                                                   *)
(*   Lemma:  if the two raw logs, after dropping the ids and multiplying reported/objective values   *)
(*           by the run's direction sign, first differ at an ANSWER to the same request, the second   *)
(*           run is rejected (RejectFirstAnswerDiff); a rejected run differs from the first run       *)
(*           (RejectedRunsDiffer); equal normalised runs are both accepted (AcceptEqual).             *)
(*                                                                                                   *)
(* In particular runs that differ only in ids, or that are mirror images of each other (sign flipped,  *)
(* values negated), have equal keys and are accepted iff their answers agree; a first difference in    *)
(* the program's own output (report) or in the request itself makes the histories different.           *)
EXTENDS Functional
CONSTANTS MaxEv, FinalStates
Ids  == {0, 7}      \* raw trial ids the real code may report (ignored by Functional)
Toks == {1, -1}     \* the two-value answer / value alphabet (closed under negation)

VARIABLES log,    \* <<raw events of run 1, raw events of run 2>>
          rej,    \* TRUE once an answer contradicted memo
          sign1   \* direction sign of run 1 (history variable, used by the lemma only)
vars == <<memo, hist, run, log, rej, sign1>>

SC == "S"
Raw(op, nm, step, s, v, id) == [op |-> op, nm |-> nm, step |-> step, s |-> s, v |-> v, id |-> id]
Cur    == run.ix
CanAct == Cur \in {1, 2} /\ ~rej /\ Len(log[Cur]) < MaxEv
Logged(e) == log' = [log EXCEPT ![Cur] = Append(@, e)]
\* keys inside one run are unique if a request that does not change the history is not repeated at once
LastOp == IF log[Cur] = <<>> THEN "none" ELSE log[Cur][Len(log[Cur])].op

Init == FInit /\ log = <<<<>>, <<>>>> /\ rej = FALSE /\ sign1 = 0

MCStart(sign) ==
  /\ ~rej /\ Cur < 2 /\ (Cur = 1 => log[1] # <<>>)
  /\ StartRun(Cur + 1, <<sign>>) /\ UNCHANGED <<log, rej>>
  /\ sign1' = IF Cur = 0 THEN sign ELSE sign1

\* Each event either is explained by Functional (accepted) or contradicts memo (rejected); both are logged.
Judge(key, res, e, accepted) ==
  /\ UNCHANGED sign1
  /\ \/ /\ accepted /\ Logged(e) /\ UNCHANGED rej
     \/ /\ Conflict(key, res) /\ rej' = TRUE /\ Logged(e) /\ UNCHANGED <<memo, hist, run>>

MCAsk(id) ==
  /\ CanAct
  /\ LET n == Len(hist) IN Judge(AskKey(SC), AskRes("ok", n), Raw("ask", "", 0, "ok", n, id), Ask(SC, "ok", n))

MCSuggest(v) ==
  /\ CanAct /\ hist # <<>>
  /\ Judge(SuggestKey(SC, "x"), SuggestRes("ok", v), Raw("suggest", "x", 0, "ok", v, 0), Suggest(SC, "x", "ok", v))

MCReport(v) ==
  /\ CanAct /\ hist # <<>>
  /\ ReportVal(0, v) /\ Logged(Raw("report", "", 0, "ok", v, 0)) /\ UNCHANGED <<rej, sign1>>

MCPrune(d) ==
  /\ CanAct /\ hist # <<>> /\ LastOp # "prune"
  /\ Judge(PruneKey(SC, 0), PruneRes("ok", d), Raw("prune", "", 0, "ok", d, 0), ShouldPrune(SC, 0, "ok", d))

MCFinal(st, v) ==
  /\ CanAct /\ hist # <<>> /\ hist[Last].st = "RUNNING"
  /\ Judge(FinalKey(SC), FinalRes(st, <<v>>, <<>>, <<>>), Raw("final", "", 0, st, v, 0), Final(SC, st, <<v>>, <<>>, <<>>))

Next == \/ \E sg \in {1, -1} : MCStart(sg)
        \/ \E id \in Ids : MCAsk(id)
        \/ \E v \in Toks : MCSuggest(v)
        \/ \E v \in Toks : MCReport(v)
        \/ \E d \in {0, 1} : MCPrune(d)
        \/ \E st \in FinalStates, v \in Toks : MCFinal(st, v)
Spec == Init /\ [][Next]_vars

\* ------------------------------------------------------------------ the lemma, stated on the raw logs
\* (independent of Key/hist: ids dropped, program outputs and objective values sign-normalised)
Norm(e, sg)  == [op |-> e.op, nm |-> e.nm, step |-> e.step, s |-> e.s,
                 v |-> IF e.op \in {"report", "final"} THEN sg * e.v ELSE e.v]
Request(e)   == <<e.op, e.nm, e.step>>
IsAnswer(e)  == e.op # "report"

A(i) == Norm(log[1][i], sign1)
B(i) == Norm(log[2][i], run.sign[1])
Common == 1..(IF Len(log[1]) < Len(log[2]) THEN Len(log[1]) ELSE Len(log[2]))
Diffs  == {i \in Common : A(i) # B(i)}
First  == CHOOSE i \in Diffs : \A j \in Diffs : i <= j

\* (a request that differs first - impossible for a deterministic program - leaves the rest open:
\*  should_prune does not change the history, so a later request may or may not meet a known key)
RejectFirstAnswerDiff == (Cur = 2 /\ Diffs # {} /\ Request(A(First)) = Request(B(First)) /\ IsAnswer(A(First))) => rej
RejectedRunsDiffer    == (Cur = 2 /\ rej) => Diffs # {}
AcceptEqual   == (Cur = 2 /\ Diffs = {}) => ~rej
FirstRunAlone == Cur = 1 => ~rej
\* at most one memo entry per logged answer
MemoBound == Cardinality(DOMAIN memo) <= Len(log[1]) + Len(log[2])
\* negative instance (FunctionalMC_rej.cfg): must be violated, i.e. the rejecting branch is reachable
NeverRejects == ~rej
===============================================================================
