SPECIFICATION Spec
CONSTANTS Family = "thr"  MaxTrials = 1  MaxStep = 4  MaxVal = 1  MaxReports = 5  WithNaN = TRUE
          FinishStates = {"COMPLETE"}
INVARIANT AlgoWithinEnvelope
INVARIANT EnvelopeSatisfiable
INVARIANT CheckStepIsCode
INVARIANT NopNeverPrunes
CHECK_DEADLOCK FALSE
