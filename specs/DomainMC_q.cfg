SPECIFICATION Spec
CONSTANTS
  BNeg = 2
  BMax = 3
  FMul = 10
  FSteps = {3, 5, 10, 20, 70}
  ISteps = {1, 2, 3, 7}
  MaxCh = 2
INVARIANT AdjustIdempotent
INVARIANT AdjustIsLargest
INVARIANT GridIsContains
INVARIANT ContinuousContains
INVARIANT NearMisses
INVARIANT SingleIffOnePoint
INVARIANT SingleValueAdmitted
INVARIANT ObsAgrees
INVARIANT CatIndexes
INVARIANT CompatReflexive
INVARIANT CompatSymmetric
INVARIANT CompatTransitive
CHECK_DEADLOCK FALSE
