------------------------------ MODULE PrunersMC ------------------------------
(* Bounded instance of Pruners with ALGORITHM-LEVEL models of the pruners (written like the code of *)
(* optuna/pruners/_percentile.py, _threshold.py, _patient.py, _successive_halving.py, _hyperband.py,*)
(* with exact integer arithmetic) plugged in as the decision maker.  TLC checks for every history   *)
(* of the instance and every configuration of the grid that                                         *)
(*   AlgoWithinEnvelope  : every decision of the algorithm models is inside the envelope of         *)
(*                         Pruners.tla (so the envelope is not stricter than the documented design), *)
(*   EnvelopeSatisfiable : in every state some decision is allowed for every running trial,         *)
(*   CheckStepIsCode     : the declarative CheckStep equals the code's _is_first_in_interval_step.   *)
(* Kinds without an algorithm model in a grid (sha with min_resource="auto") are decided by an       *)
(* "ideal pruner" that picks any allowed decision.  The same module, as family "sim" (no grid: the   *)
(* harness pairs each behaviour with pruner parameters), generates the call histories               *)
(* (TLC -simulate) that the harness plays through the real API.                                      *)
EXTENDS Pruners
CONSTANTS Family,        \* which configuration grid
          MaxTrials, MaxStep, MaxVal, MaxReports, WithNaN, FinishStates

VARIABLES c,             \* the pruner configuration (chosen in Init)
          rungs,         \* rungs[t+1] = <<completed_rung_0, completed_rung_1, ...>> (system attrs)
          br,            \* br[t+1] = Hyperband bracket of trial t (arbitrary: stands for the crc32)
          ok,            \* was the last decision inside the envelope
          calls          \* number of should_prune calls (counted in the "sim" family only, so that a
                         \* call is a visible step of a simulated behaviour)
vars == <<trials, c, rungs, br, ok, calls>>

Dirs == {"min", "max"}
Values == (0..MaxVal) \cup (IF WithNaN THEN {NaN} ELSE {})
None == [kind |-> "none"]

Pct(K, D, P, S, W, I, M) ==
  {[kind |-> k, dir |-> d, pct |-> p, nst |-> s, nwu |-> w, ivl |-> i, nmin |-> m] :
     k \in K, d \in D, p \in P, s \in S, w \in W, i \in I, m \in M}
Thr(D, L, H, W, I) ==
  {x \in {[kind |-> "threshold", dir |-> d, lo |-> lo, hi |-> hi, nwu |-> w, ivl |-> i] :
            d \in D, lo \in L, hi \in H, w \in W, i \in I} : x.lo <= x.hi /\ ~(x.lo = NoLo /\ x.hi = NoHi)}
Sha(D, R, F, E, B) ==
  {x \in {[kind |-> "sha", dir |-> d, minres |-> r, rf |-> f, mesr |-> e, boot |-> b] :
            d \in D, r \in R, f \in F, e \in E, b \in B} : ~(x.minres = 0 /\ x.boot > 0)}
Hb(D, R, X, F, B) ==
  {x \in {[kind |-> "hyperband", dir |-> d, minres |-> r, maxres |-> m, rf |-> f, boot |-> b] :
            d \in D, r \in R, m \in X, f \in F, b \in B} : x.minres <= x.maxres}
Pat(D, P, M, W) ==
  {x \in {[kind |-> "patient", dir |-> d, pat |-> p, md |-> m, w |-> w] : d \in D, p \in P, m \in M, w \in W} :
     x.w.kind = "none" \/ x.w.dir = x.dir}
Nop(D) == {[kind |-> "nop", dir |-> d] : d \in D}

Cfgs ==
  CASE Family = "pct" -> Pct({"percentile"}, Dirs, {25, 75}, {0, 2}, {0, 1}, {1, 2}, {1})
                         \cup Pct({"percentile"}, Dirs, {50}, {2}, {1}, {1}, {1, 2})
                         \cup Pct({"percentile"}, Dirs, {0, 100}, {1}, {0}, {1}, {1})
                         \cup Pct({"median"}, Dirs, {50}, {1, 3}, {0, 2}, {1}, {1})
    [] Family = "thr" -> Thr({"min"}, {NoLo, 0, 1}, {0, 1, NoHi}, {0, 1, 2, 3}, {1, 2, 3}) \cup Nop(Dirs)
    [] Family = "pat" -> Pat(Dirs, {0, 1, 2}, {0, 1},
                             {None} \cup Pct({"median"}, Dirs, {50}, {0}, {0, 2}, {1}, {1})
                                    \cup Thr(Dirs, {NoLo}, {0}, {1}, {1, 2}))
    [] Family = "sha" -> Sha(Dirs, {1}, {2}, {0}, {0}) \cup Sha({"min"}, {1}, {2}, {1}, {0})
                         \cup Sha({"max"}, {2}, {3}, {0}, {0}) \cup Sha({"max"}, {1}, {2}, {0}, {1})
                         \cup Sha({"min"}, {0}, {2}, {0}, {0})
    [] Family = "hb"  -> Hb(Dirs, {1}, {2}, {2}, {0}) \cup Hb({"max"}, {1}, {2}, {2}, {1})
    [] OTHER -> {}

\* ------------------------------------------------------------------ algorithm-level models
RT(t) == rungs[t + 1]
NoChange(t, d) == [d |-> d, r |-> RT(t)]

\* _is_first_in_interval_step(step, steps, n_warmup_steps, interval_steps)
CodeFirstInInterval(t, nwu, ivl) ==
  LET step    == LastStep(t)
      nearest == ((step - nwu) \div ivl) * ivl + nwu
      rest    == Steps(t) \ {step}
      second  == IF rest = {} THEN -1 ELSE SetMax(rest)
  IN  second < nearest

\* values at step s of the trials U, ascending, as a sequence (a multiset)
RECURSIVE SortVals(_, _)
SortVals(U, s) ==
  IF U = {} THEN <<>>
  ELSE LET m == CHOOSE u \in U : \A w \in U : Val(u, s) <= Val(w, s)
       IN  <<Val(m, s)>> \o SortVals(U \ {m}, s)

\* PercentilePruner.prune; 100 * np.nanpercentile(a, q) = 100*a[lo] + rem*(a[lo+1]-a[lo]) exactly
PctAlgo(k, t) ==
  LET comp == {u \in Num : T(u).st = "COMPLETE"}
      n    == Cardinality(comp)
  IN
  IF n = 0 \/ n < k.nst \/ NoReports(t) THEN FALSE
  ELSE LET step == LastStep(t) IN
    IF step < k.nwu THEN FALSE
    ELSE IF ~CodeFirstInInterval(t, k.nwu, k.ivl) THEN FALSE
    ELSE LET own == {Val(t, s) : s \in Steps(t)} \ {NaN} IN
      IF own = {} THEN TRUE
      ELSE LET best   == IF k.dir = "min" THEN SetMin(own) ELSE SetMax(own)
               others == {u \in comp : step \in Steps(u)}
               nn     == {u \in others : Val(u, step) # NaN}
           IN
        IF others = {} \/ Cardinality(others) < k.nmin \/ nn = {} THEN FALSE
        ELSE LET a   == SortVals(nn, step)
                 q   == IF k.dir = "max" THEN 100 - k.pct ELSE k.pct
                 h   == (Len(a) - 1) * q
                 lo  == h \div 100
                 rem == h % 100
                 p100 == IF rem = 0 THEN 100 * a[lo + 1]
                                    ELSE 100 * a[lo + 1] + rem * (a[lo + 2] - a[lo + 1])
             IN IF k.dir = "max" THEN 100 * best < p100 ELSE 100 * best > p100

\* ThresholdPruner.prune
ThrAlgo(k, t) ==
  IF NoReports(t) THEN FALSE
  ELSE LET step == LastStep(t) IN
    IF step < k.nwu THEN FALSE
    ELSE IF ~CodeFirstInInterval(t, k.nwu, k.ivl) THEN FALSE
    ELSE LET v == Val(t, step) IN
      IF v = NaN THEN TRUE ELSE IF v < k.lo THEN TRUE ELSE IF v > k.hi THEN TRUE ELSE FALSE

\* SuccessiveHalvingPruner.prune restricted to the trials `peers` (all trials, or the bracket)
RECURSIVE ShaLoop(_, _, _, _, _)
ShaLoop(k, t, mesr, peers, myr) ==
  LET rung  == Len(myr)
      step  == LastStep(t)
      value == Val(t, step)
      promo == k.minres * Pow(k.rf, mesr + rung)
  IN
  IF step < promo THEN [d |-> FALSE, r |-> myr]
  ELSE IF value = NaN THEN [d |-> TRUE, r |-> myr]
  ELSE LET myr2   == Append(myr, value)
           others == {u \in peers \ {t} : Len(RT(u)) > rung}
           len    == Cardinality(others) + 1
           idx0   == (len \div k.rf) - 1
           idx    == IF idx0 = -1 THEN 0 ELSE idx0
           nBetter == Cardinality({u \in others : Better(k.dir, RT(u)[rung + 1], value)})
       IN
       IF len <= k.boot THEN [d |-> TRUE, r |-> myr2]
       ELSE IF ~(nBetter <= idx) THEN [d |-> TRUE, r |-> myr2]
       ELSE ShaLoop(k, t, mesr, peers, myr2)

ShaAlgo(k, t) == IF NoReports(t) THEN NoChange(t, FALSE) ELSE ShaLoop(k, t, k.mesr, Num, RT(t))

\* HyperbandPruner: n_brackets = floor(log_rf(max_resource / min_resource)) + 1
RECURSIVE LogFloor(_, _, _)
LogFloor(x, m, f) == IF x * f > m THEN 0 ELSE 1 + LogFloor(x * f, m, f)
NBrackets(k) == LogFloor(k.minres, k.maxres, k.rf) + 1
HbAlgo(k, t) ==
  IF NoReports(t) THEN NoChange(t, FALSE)
  ELSE ShaLoop(k, t, br[t + 1], {u \in Num : br[u + 1] = br[t + 1]}, RT(t))

HasAlgo(k) == k.kind \in {"percentile", "median", "threshold", "nop", "hyperband"}
              \/ (k.kind = "sha" /\ k.minres > 0)
AlgoBase(k, t) ==
  CASE k.kind \in {"percentile", "median"} -> NoChange(t, PctAlgo(k, t))
    [] k.kind = "threshold" -> NoChange(t, ThrAlgo(k, t))
    [] k.kind = "nop"       -> NoChange(t, FALSE)
    [] k.kind = "sha"       -> ShaAlgo(k, t)
    [] k.kind = "hyperband" -> HbAlgo(k, t)

\* PatientPruner.prune
PatMaybe(k, t) ==
  LET S == Steps(t) IN
  IF Cardinality(S) <= k.pat + 1 THEN FALSE
  ELSE LET after  == {s \in S : Cardinality({x \in S : x > s}) < k.pat + 1}
           before == S \ after
           av     == {Val(t, s) : s \in after} \ {NaN}
           bv     == {Val(t, s) : s \in before} \ {NaN}
       IN  IF av = {} \/ bv = {} THEN FALSE            \* nanmin of all-NaN is NaN: comparison False
           ELSE IF k.dir = "min" THEN SetMin(bv) + k.md < SetMin(av)
                                 ELSE SetMax(bv) - k.md > SetMax(av)

Modelled(k) == IF k.kind = "patient" THEN (k.w.kind = "none" \/ HasAlgo(k.w)) ELSE HasAlgo(k)
Algo(k, t) ==
  IF k.kind = "patient"
  THEN IF PatMaybe(k, t) THEN (IF k.w.kind = "none" THEN NoChange(t, TRUE) ELSE AlgoBase(k.w, t))
                         ELSE NoChange(t, FALSE)
  ELSE AlgoBase(k, t)

\* ------------------------------------------------------------------ the instance
RECURSIVE NReports(_)
NReports(n) == IF n = 0 THEN 0 ELSE Cardinality(DOMAIN trials[n].iv) + NReports(n - 1)

\* Stateless pruners (percentile, median, threshold, nop, patient around those): the decision is a
\* function of the history alone, so the configuration is not part of the state (c = All) and the
\* theorems quantify over the whole grid in every reachable history.  Pruners with a memory
\* (successive halving's completed_rung_k attributes, Hyperband) carry c in the state.
All == [kind |-> "all"]
Stateless == Family \in {"pct", "thr", "pat", "sim"}
Init == /\ PInit /\ c \in (IF Stateless THEN {All} ELSE Cfgs) /\ rungs = <<>> /\ br = <<>> /\ ok = TRUE /\ calls = 0

MCNewTrial ==
  /\ Len(trials) < MaxTrials
  /\ NewTrial
  /\ rungs' = Append(rungs, <<>>)
  /\ \E b \in 0..(IF c.kind = "hyperband" THEN NBrackets(c) - 1 ELSE 0) : br' = Append(br, b)
  /\ UNCHANGED <<c, ok, calls>>

MCReport(t, s, v) ==
  /\ NReports(Len(trials)) < MaxReports
  /\ ReportVal(t, s, v)
  /\ UNCHANGED <<c, rungs, br, ok, calls>>

\* should_prune(): the algorithm model (or, where there is none, any allowed answer) decides
Decide(t) ==
  /\ Running(t)
  /\ IF c = All THEN UNCHANGED <<ok, rungs>>
     ELSE IF Modelled(c)
     THEN LET a == Algo(c, t) IN
          /\ ok' = Allowed(c, t, a.d)
          /\ rungs' = [rungs EXCEPT ![t + 1] = a.r]
     ELSE /\ \E d \in BOOLEAN : Allowed(c, t, d)
          /\ ok' = TRUE /\ UNCHANGED rungs
  /\ calls' = IF Family = "sim" THEN calls + 1 ELSE calls
  /\ UNCHANGED <<trials, c, br>>

MCFinish(t, st) ==
  /\ st \in FinishStates
  /\ Finish(t, st)
  /\ UNCHANGED <<c, rungs, br, ok, calls>>

TrialIds == 0..(MaxTrials - 1)
Next == \/ MCNewTrial
        \/ \E t \in TrialIds : \E s \in 0..MaxStep : \E v \in Values : MCReport(t, s, v)
        \/ \E t \in TrialIds : Decide(t)
        \/ \E t \in TrialIds : \E st \in Finished : MCFinish(t, st)
Spec == Init /\ [][Next]_vars

\* ------------------------------------------------------------------ theorems
Grid == IF c = All THEN Cfgs ELSE {c}
AlgoWithinEnvelope  == /\ ok
                       /\ c = All => \A k \in Cfgs : \A t \in Num :
                                       Running(t) /\ Modelled(k) => Allowed(k, t, Algo(k, t).d)
EnvelopeSatisfiable == \A k \in Grid : \A t \in Num : Running(t) => \E d \in BOOLEAN : Allowed(k, t, d)
CheckStepIsCode ==
  \A t \in Num : \A w \in 0..3 : \A i \in 1..3 :
     ~NoReports(t) /\ LastStep(t) >= w => (CheckStep(t, w, i) <=> CodeFirstInInterval(t, w, i))
NopNeverPrunes == \A k \in Grid : k.kind = "nop" => \A t \in Num : ~MayPrune(k, t)
==============================================================================
