------------------------------ MODULE JournalRedis ------------------------------
(* The Redis journal backend (optuna/storages/journal/_redis.py), one Redis command per action.       *)
(*                                                                                                  *)
(*   keys:  counter  "<prefix>:log_number"  (absent, then -1 after SETNX, then INCR by appenders)     *)
(*          slot[i]  "<prefix>:log:<i>"                                                             *)
(*   append_logs, standalone server:  SETNX counter -1; per record ONE Lua script = INCR + SET        *)
(*   append_logs, cluster:            SETNX counter -1; per record INCR, then SET (two commands)      *)
(*   (one call writes any number of records; it is acknowledged when it returns: Done)               *)
(*   read_logs(from): GET counter -> max; for i in from..max: GET slot[i], sleeping while it is absent *)
(*                                                                                                  *)
(* Property level (what JournalStorage relies on, C06/C07 for this backend): the records a reader      *)
(* returns are exactly slots from..max in index order, each the record its appender wrote; an append   *)
(* that returned is in the log at a unique index; indices are handed out in a total order without      *)
(* gaps; a reader never returns a gap (it waits).  With Cluster = TRUE a crash between INCR and SET    *)
(* leaves a gap for ever: readers block (documented: "may cause errors") - safety still holds.         *)
(* SkipMissing = TRUE is the wrong reader (does not wait): it must violate ReadsAreContiguous.         *)
EXTENDS Integers, Sequences, FiniteSets, TLC
CONSTANTS Appenders, Readers, MaxAppends, MaxReads, Cluster, SkipMissing, MayCrash

None == -1
VARIABLES counter,   \* None (key absent) or the last index handed out (-1 after SETNX)
          slot,      \* index -> record (a pair <<appender, k>>) for the slots that are set
          apc,       \* appender -> [pc, k (records written), idx, batch (records of the running append_logs call)]
          rpc,       \* reader -> [pc, from, max, i, got]
          acked,     \* set of records whose append_logs returned
          results,   \* sequence of [from, max, got] of finished reads
          dead
vars == <<counter, slot, apc, rpc, acked, results, dead>>

Init == /\ counter = None - 1 /\ slot = <<>>            \* -2 stands for "key absent"
        /\ apc = [a \in Appenders |-> [pc |-> "idle", k |-> 0, idx |-> 0, batch |-> {}]]
        /\ rpc = [r \in Readers |-> [pc |-> "idle", from |-> 0, max |-> 0, i |-> 0, got |-> <<>>]]
        /\ acked = {} /\ results = <<>> /\ dead = {}
Absent == None - 1

Rec(a) == <<a, apc[a].k + 1>>
Put(f, k, v) == [x \in DOMAIN f \cup {k} |-> IF x = k THEN v ELSE f[x]]

SetNX(a) == /\ a \notin dead /\ apc[a].pc = "idle" /\ apc[a].k < MaxAppends
            /\ counter' = IF counter = Absent THEN None ELSE counter
            /\ apc' = [apc EXCEPT ![a].pc = "setnx_done"]
            /\ UNCHANGED <<slot, rpc, acked, results, dead>>
EvalAppend(a) == /\ ~Cluster /\ a \notin dead /\ apc[a].pc = "setnx_done"
                 /\ apc[a].k < MaxAppends
                 /\ counter' = counter + 1 /\ slot' = Put(slot, counter + 1, Rec(a))
                 /\ apc' = [apc EXCEPT ![a].k = @ + 1, ![a].batch = @ \cup {Rec(a)}]
                 /\ UNCHANGED <<rpc, acked, results, dead>>
Incr(a) == /\ Cluster /\ a \notin dead /\ apc[a].pc = "setnx_done" /\ apc[a].k < MaxAppends
           /\ counter' = counter + 1 /\ apc' = [apc EXCEPT ![a].pc = "incr_done", ![a].idx = counter + 1]
           /\ UNCHANGED <<slot, rpc, acked, results, dead>>
SetSlot(a) == /\ Cluster /\ a \notin dead /\ apc[a].pc = "incr_done"
              /\ slot' = Put(slot, apc[a].idx, Rec(a))
              /\ apc' = [apc EXCEPT ![a].pc = "setnx_done", ![a].k = @ + 1, ![a].batch = @ \cup {Rec(a)}]
              /\ UNCHANGED <<counter, rpc, acked, results, dead>>
Done(a) == /\ a \notin dead /\ apc[a].pc = "setnx_done"           \* append_logs returns: its records are acknowledged
           /\ acked' = acked \cup apc[a].batch
           /\ apc' = [apc EXCEPT ![a].pc = "idle", ![a].batch = {}]
           /\ UNCHANGED <<counter, slot, rpc, results, dead>>
Crash(a) == /\ MayCrash /\ a \notin dead /\ apc[a].pc # "idle" /\ dead = {} /\ dead' = {a}
            /\ UNCHANGED <<counter, slot, apc, rpc, acked, results>>

GetMax(r, from) ==
  /\ rpc[r].pc = "idle" /\ Len(results) + Cardinality({x \in Readers : rpc[x].pc = "loop"}) < MaxReads
  /\ IF counter = Absent
       THEN /\ results' = Append(results, [from |-> from, max |-> from - 1, got |-> <<>>]) /\ UNCHANGED rpc
       ELSE /\ rpc' = [rpc EXCEPT ![r] = [pc |-> "loop", from |-> from, max |-> counter, i |-> from, got |-> <<>>]]
            /\ UNCHANGED results
  /\ UNCHANGED <<counter, slot, apc, acked, dead>>
GetSlot(r) ==
  /\ rpc[r].pc = "loop" /\ rpc[r].i <= rpc[r].max
  /\ IF rpc[r].i \in DOMAIN slot
       THEN rpc' = [rpc EXCEPT ![r].got = Append(@, slot[rpc[r].i]), ![r].i = @ + 1]
       ELSE IF SkipMissing THEN rpc' = [rpc EXCEPT ![r].i = @ + 1]
            ELSE UNCHANGED rpc                      \* time.sleep, then the same GET again
  /\ UNCHANGED <<counter, slot, apc, acked, results, dead>>
Return(r) ==
  /\ rpc[r].pc = "loop" /\ rpc[r].i > rpc[r].max
  /\ results' = Append(results, [from |-> rpc[r].from, max |-> rpc[r].max, got |-> rpc[r].got])
  /\ rpc' = [rpc EXCEPT ![r].pc = "idle"]
  /\ UNCHANGED <<counter, slot, apc, acked, dead>>

Next == \/ \E a \in Appenders : SetNX(a) \/ EvalAppend(a) \/ Incr(a) \/ SetSlot(a) \/ Done(a) \/ Crash(a)
        \/ \E r \in Readers : (\E f \in 0..1 : GetMax(r, f)) \/ GetSlot(r) \/ Return(r)
Spec == Init /\ [][Next]_vars

\* ---- properties
IndicesDense   == counter # Absent => \A i \in DOMAIN slot : 0 <= i /\ i <= counter
NoDuplicates   == \A i, j \in DOMAIN slot : slot[i] = slot[j] => i = j
AckedInLog     == \A rec \in acked : \E i \in DOMAIN slot : slot[i] = rec
NoGapUnlessInFlight ==          \* a missing index below the counter belongs to an appender between INCR and SET
  counter # Absent => \A i \in 0..counter : i \in DOMAIN slot \/ \E a \in Appenders : apc[a].pc = "incr_done" /\ apc[a].idx = i
ReadsAreContiguous ==
  \A n \in 1..Len(results) : LET r == results[n] IN
     /\ Len(r.got) = (IF r.max >= r.from THEN r.max - r.from + 1 ELSE 0)
     /\ \A j \in 1..Len(r.got) : (r.from + j - 1) \in DOMAIN slot /\ r.got[j] = slot[r.from + j - 1]
SlotsNeverChange == [][\A i \in DOMAIN slot : i \in DOMAIN slot' /\ slot'[i] = slot[i]]_vars
PerAppenderOrder ==             \* one appender's records appear in the order it appended them
  \A i, j \in DOMAIN slot : (slot[i][1] = slot[j][1] /\ slot[i][2] < slot[j][2]) => i < j
==================================================================================
